"""Check infrastructure: sharded workers, driver execution with crash attribution, verdicts,
known-findings matching, replay files, evidence files."""
import hashlib
import json
import multiprocessing
import os
import re
import shutil
import signal
import subprocess
import sys
import time
import traceback

from . import build as vbuild

VERIF = vbuild.VERIF
# evidence/ and replay/ under /verif describe /repo only; a run against another tree (VF_REPO: seeded changes, mutants) writes to its build root
OUTROOT = VERIF if vbuild.REPO == "/repo" else os.path.join(vbuild.BUILD, "out-" + hashlib.sha1(vbuild.REPO.encode()).hexdigest()[:8])
NPROC = int(os.environ.get("VF_JOBS", "16"))
SCRATCH = os.path.join(vbuild.BUILD, "run")

ASAN_ENV = {
    "ASAN_OPTIONS": "abort_on_error=1:detect_leaks=0:allocator_may_return_null=1:detect_stack_use_after_return=1:"
                    "handle_abort=1:quarantine_size_mb=16:max_allocation_size_mb=4096:malloc_context_size=8",
    "UBSAN_OPTIONS": "print_stacktrace=1:halt_on_error=1:abort_on_error=1",
}


MAX_CRASHES = 12


class Inconclusive(Exception):
    """Harness failure / too little observed: exit 2, never a verdict."""


def h64(b):
    if isinstance(b, str):
        b = b.encode()
    return int.from_bytes(hashlib.blake2b(b, digest_size=8).digest(), "big")


def scratch_dir(tag):
    d = os.path.join(SCRATCH, "%s-%d" % (tag, os.getpid()))
    os.makedirs(d, exist_ok=True)
    return d


class Crash:
    def __init__(self, cid, rc, stderr, kind, partial=None):
        self.cid, self.rc, self.stderr, self.kind = cid, rc, stderr, kind
        self.partial = partial or []  # result lines the case produced before the process died (re-run with per-command flush)

    def summary(self):
        """(sanitizer kind, top json-c frame) -> stable key component"""
        import re
        s = self.stderr
        kind = self.kind
        m = re.search(r"runtime error: ([^\n]{0,60})", s)
        if m:
            kind = "ubsan-" + re.sub(r"[^a-z]+", "-", re.sub(r"[-+]?[0-9][0-9.e+]*", "N", m.group(1).lower()))[:48].strip("-")
        else:
            m = re.search(r"ERROR: AddressSanitizer: ([\w-]+)", s)
            if m:
                kind = "asan-" + m.group(1)
        frame = "?"
        repo = re.escape(vbuild.REPO.rstrip("/"))
        for fm in re.finditer(r"#\d+ 0x[0-9a-f]+ in (\S+) (" + repo + r"/[\w./-]+?):(\d+)", s):
            frame = "%s" % (fm.group(1))
            break
        if frame == "?":
            m = re.search(r"(" + repo + r"/[\w./-]+):(\d+):\d+: runtime error", s)
            if m:
                frame = os.path.basename(m.group(1))
        return kind, frame


def _record_cases(exe, cases, env, args, tag):
    """when VF_RECORD_DIR is set (thorough tiers), keep a sample of what each worker ran, for the memcheck pass over the same cases"""
    rd = os.environ.get("VF_RECORD_DIR")
    if not rd or tag.endswith("h") or tag == "replay" or tag.startswith("mc"):
        return
    try:
        budget = int(os.environ.get("VF_RECORD_CMDS", "1500"))
        fn = os.path.join(rd, "%d-%s.json" % (os.getpid(), tag))
        if os.path.exists(fn):
            return
        keep, n = [], 0
        step = max(1, len(cases) // 400)
        skip = re.compile(os.environ["VF_RECORD_SKIP"]) if os.environ.get("VF_RECORD_SKIP") else None
        for cid, cmds in cases[::step]:
            if sum(len(c) for c in cmds) > 200000:
                continue
            if skip and any(skip.search(c) for c in cmds):
                continue  # e.g. must-fail requests for multi-gigabyte blocks: without ASan's allocation cap the uninstrumented build would really try
            if n + len(cmds) > budget:
                break
            keep.append((cid, cmds))
            n += len(cmds)
        with open(fn, "w") as f:
            json.dump({"exe": os.path.basename(exe), "env": env or {}, "args": list(args), "cases": keep}, f)
    except OSError:
        pass


def memcheck_recorded(chk, plain_dir, record_dir, timeout=3000):
    """run the recorded sample (one file per worker) under valgrind memcheck on the uninstrumented build, 16 at a time; absorbs the verdicts into chk"""
    import concurrent.futures
    jobs = []
    for fn in sorted(os.listdir(record_dir)):
        r = json.load(open(os.path.join(record_dir, fn)))
        if r["cases"] and os.path.exists(os.path.join(plain_dir, r["exe"])):
            jobs.append(r)
    ncmd = 0

    def one(r):
        return run_memcheck(os.path.join(plain_dir, r["exe"]), [(c, cm) for c, cm in r["cases"]], chk.pid, env=r["env"], args=r["args"], timeout=timeout, tag="mc%d" % jobs.index(r))

    with concurrent.futures.ThreadPoolExecutor(16) as ex:
        for r, sh in zip(jobs, ex.map(one, jobs)):
            chk.absorb(sh)
            ncmd += sum(len(cm) for _, cm in r["cases"])
    chk.extra["memcheck"] = "valgrind memcheck (uninstrumented build) over a recorded sample of this run's own cases: %d driver scripts, %d commands" % (len(jobs), ncmd)
    shutil.rmtree(record_dir, ignore_errors=True)


def record_dir(pid):
    d = os.path.join(vbuild.BUILD, "record-%s-%d" % (pid, os.getpid()))
    shutil.rmtree(d, ignore_errors=True)
    os.makedirs(d)
    os.environ["VF_RECORD_DIR"] = d
    return d


def run_script(exe, cases, env=None, timeout=600, tag="drv", args=()):
    """cases: list of (cid, [command lines]).  Runs them through a line-protocol driver.
    Returns (results, crashes): results[cid] = list of result lines (the trailing 'E ...' line included)
    for every case that completed; crashes = [Crash].  A case during which the process died or hung is
    reported once and the rest of the list is resumed in a new process."""
    d = scratch_dir(tag)
    results, crashes = {}, []
    _record_cases(exe, cases, env, args, tag)
    e = dict(os.environ)
    e.update(ASAN_ENV)
    if env:
        e.update(env)
    remaining = list(cases)
    hang_retry = {}
    while remaining:
        sp, op, ep = (os.path.join(d, x) for x in ("script", "out", "err"))
        with open(sp, "w") as f:
            for cid, cmds in remaining:
                f.write("CASE %s\n" % cid)
                for c in cmds:
                    f.write(c)
                    f.write("\n")
                f.write("END\n")
        kind = None
        with open(ep, "w") as ef:
            p = subprocess.Popen([exe, sp, op] + list(args), stdin=subprocess.DEVNULL, stdout=subprocess.DEVNULL,
                                 stderr=ef, env=e)
            try:
                rc = p.wait(timeout=timeout)
            except subprocess.TimeoutExpired:
                p.kill()
                p.wait()
                rc = -9
                kind = "hang"
        cur, lines = None, []
        done = 0
        if os.path.exists(op):
            with open(op, errors="replace") as f:
                for ln in f:
                    ln = ln.rstrip("\n")
                    if ln.startswith("C "):
                        cur, lines = ln[2:], []
                    elif ln.startswith("E "):
                        lines.append(ln)
                        results[cur] = lines
                        done += 1
                        cur = None
                    else:
                        lines.append(ln)
        if rc == 0 and done == len(remaining):
            break
        # died: the case being executed is the first one not completed
        err = open(ep, errors="replace").read()[-6000:]
        idx = done
        if idx >= len(remaining):
            raise Inconclusive("driver %s exited rc=%s after completing all cases: %s" % (exe, rc, err[-500:]))
        cid = remaining[idx][0]
        if kind == "hang":
            # re-run once in isolation before reporting a hang
            if cid not in hang_retry:
                hang_retry[cid] = 1
                r2, c2 = run_script(exe, [remaining[idx]], env=env, timeout=timeout, tag=tag + "h", args=args)
                if not c2:
                    results.update(r2)
                    remaining = remaining[idx + 1:]
                    continue
            crashes.append(Crash(cid, rc, err, "hang"))
        else:
            # re-run the dying case alone with per-command flushing to learn which command it died in
            partial = []
            try:
                with open(sp, "w") as f:
                    f.write("CASE %s\n" % cid)
                    for c in remaining[idx][1]:
                        f.write(c + "\n")
                    f.write("END\n")
                e2 = dict(e)
                e2["VF_FLUSH"] = "1"
                with open(ep, "w") as ef:
                    subprocess.run([exe, sp, op] + list(args), stdin=subprocess.DEVNULL, stdout=subprocess.DEVNULL, stderr=ef, env=e2, timeout=timeout)
                with open(op, errors="replace") as f:
                    partial = [ln.rstrip("\n") for ln in f if not ln.startswith("C ")]
                err2 = open(ep, errors="replace").read()[-6000:]
                if err2.strip():
                    err = err2
            except Exception:
                pass
            wd = rc == 124 or "VF-WATCHDOG" in err
            if wd and partial and partial[-1].startswith("E "):
                # the stall did not reproduce when the case ran alone: transient (loaded machine), not a verdict
                results[cid] = partial
            else:
                crashes.append(Crash(cid, rc, err, "hang" if wd else ("exit-%s" % rc if rc > 0 else "signal-%s" % (-rc)), partial))
        remaining = remaining[idx + 1:]
        if len(crashes) >= MAX_CRASHES:
            # enough witnesses; do not spend the budget restarting the driver thousands of times
            break
    return results, crashes


# ---------------------------------------------------------------------------------------------
AMBIENT_ERRNO = {1: ("ENOMEM", 12), 3: ("ERANGE", 34), 5: ("EINVAL", 22), 7: ("EINTR", 4)}


def ambient_env(sh, shard):
    """half of the shards run their driver with errno preset (before every command) to a value a previous, unrelated call could have left behind:
    what a parser or serializer returns must not depend on it.  Recorded on the shard so that replay files carry it."""
    if shard % 8 in AMBIENT_ERRNO:
        name, v = AMBIENT_ERRNO[shard % 8]
        sh.env = dict(sh.env, VF_AMBIENT_ERRNO=str(v))
        sh.count("shards_run_with_stale_errno_" + name)
    return sh.env


class Shard:
    """What a worker returns."""

    def __init__(self):
        self.evaluations = 0
        self.distinct = set()
        self.counters = {}
        self.samples = []
        self.violations = []  # dicts: key, what, replay(dict)
        self.notes = []
        self.env = {}         # environment the shard's driver processes run under; copied into every replay file

    def count(self, name, k=1):
        self.counters[name] = self.counters.get(name, 0) + k

    def cmax(self, name, v):
        if v > self.counters.get(name, -1 << 62):
            self.counters[name] = v

    def nontrivial(self, desc):
        self.distinct.add(h64(desc) if not isinstance(desc, int) else desc)

    def violation(self, key, what, replay):
        # keep at most a few witnesses per key per shard
        n = sum(1 for v in self.violations if v["key"] == key)
        if n < 2:
            if self.env and isinstance(replay, dict):
                replay = dict(replay, env=dict(self.env, **replay.get("env", {})))
            self.violations.append({"key": key, "what": what, "replay": replay})
        self.count("violations_seen")


def _worker(args):
    fn, shard, nshards, kw = args
    signal.signal(signal.SIGINT, signal.SIG_IGN)
    try:
        r = fn(shard, nshards, **kw)
        return ("ok", r)
    except Inconclusive as e:
        return ("inconclusive", str(e))
    except Exception:
        return ("error", traceback.format_exc())


def parallel(fn, nshards=None, **kw):
    """Run fn(shard, nshards, **kw) -> Shard in worker processes; merge."""
    nshards = nshards or NPROC
    jobs = [(fn, i, nshards, kw) for i in range(nshards)]
    if NPROC == 1 or nshards == 1:
        outs = [_worker(j) for j in jobs]
    else:
        with multiprocessing.Pool(min(NPROC, nshards)) as pool:
            outs = pool.map(_worker, jobs, chunksize=1)
    merged = Shard()
    for st, r in outs:
        if st == "inconclusive":
            raise Inconclusive(r)
        if st == "error":
            raise Inconclusive("worker failed:\n" + r)
        merged.evaluations += r.evaluations
        merged.distinct |= r.distinct
        for k, v in r.counters.items():
            if k.startswith("max_"):
                merged.counters[k] = max(merged.counters.get(k, v), v)
            else:
                merged.counters[k] = merged.counters.get(k, 0) + v
        if len(merged.samples) < 12:
            merged.samples += r.samples[:2]
        merged.violations += r.violations
        merged.notes += r.notes
    return merged


# ---------------------------------------------------------------------------------------------
def load_known():
    p = os.path.join(VERIF, "known_findings.json")
    if not os.path.exists(p):
        return []
    return json.load(open(p))["findings"]


class Check:
    def __init__(self, pid, tier, seed, level="exploration"):
        self.pid, self.tier, self.seed, self.level = pid, tier, seed, level
        self.t0 = time.time()
        self.merged = Shard()
        self.assumptions = []
        self.extra = {}
        self.rule = ""
        self.exhaustive = None

    def absorb(self, sh):
        m = self.merged
        m.evaluations += sh.evaluations
        m.distinct |= sh.distinct
        for k, v in sh.counters.items():
            if k.startswith("max_"):
                m.counters[k] = max(m.counters.get(k, v), v)
            else:
                m.counters[k] = m.counters.get(k, 0) + v
        for s in sh.samples:
            if len(m.samples) < 16:
                m.samples.append(s)
        m.violations += sh.violations
        m.notes += sh.notes

    def finish(self, min_evaluations=1):
        """Write replay files + evidence, print verdict lines, return exit code."""
        m = self.merged
        known = [k for k in load_known() if k["property"] == self.pid and k.get("status") == "known"]
        known_keys = {k["key"]: k for k in known}
        seen_known, new = {}, {}
        for v in m.violations:
            if v["key"] in known_keys:
                seen_known.setdefault(v["key"], v)
            else:
                new.setdefault(v["key"], v)
        rdir = os.path.join(OUTROOT, "replay", self.pid)
        lines = []
        for key, v in new.items():
            os.makedirs(rdir, exist_ok=True)
            fn = os.path.join(rdir, "%s.json" % (hashlib.sha1(key.encode()).hexdigest()[:12]))
            rep = dict(v["replay"])
            rep.update({"property": self.pid, "key": key, "what": v["what"], "seed": self.seed, "tier": self.tier})
            with open(fn, "w") as f:
                json.dump(rep, f, indent=1)
            lines.append("VIOLATION property=%s replay=%s" % (self.pid, fn))
            print("  key=%s :: %s" % (key, v["what"][:300]))
        for key, k in known_keys.items():
            if key in seen_known:
                print("KNOWN-FINDING: property=%s %s [%s]" % (self.pid, k["what"], key))
        for ln in lines:
            print(ln)
        cov = {
            "evaluations": m.evaluations,
            "distinct_nontrivial": len(m.distinct),
            "rule": self.rule,
            "samples": m.samples[:16],
            "observed": dict(sorted(m.counters.items())),
            "known_findings_reproduced": sorted(seen_known),
            "known_findings_not_reproduced": sorted(set(known_keys) - set(seen_known)),
        }
        if self.exhaustive is not None:
            cov["exhaustive"] = self.exhaustive
        cov.update(self.extra)
        ev = {
            "property_id": self.pid, "tier": self.tier, "seed": self.seed, "level": self.level,
            "coverage": cov, "assumptions": self.assumptions, "wall_s": round(time.time() - self.t0, 2),
            "violations": len(new),
        }
        os.makedirs(os.path.join(OUTROOT, "evidence"), exist_ok=True)
        with open(os.path.join(OUTROOT, "evidence", self.pid + ".json"), "w") as f:
            json.dump(ev, f, indent=1, default=str)
        print("%s %s seed=%d: %d evaluations, %d distinct non-trivial, %d new violation key(s), %d known; %.1fs" % (
            self.pid, self.tier, self.seed, m.evaluations, len(m.distinct), len(new), len(seen_known), time.time() - self.t0))
        if m.notes:
            for n in m.notes[:10]:
                print("  note:", n)
        if new:
            return 1
        if m.evaluations < min_evaluations or len(m.distinct) < 2:
            print("INCONCLUSIVE: too few events observed (%d evaluations)" % m.evaluations)
            return 2
        return 0


def cleanup_scratch():
    """remove scratch dirs of processes that no longer exist"""
    if not os.path.isdir(SCRATCH):
        return
    for d in os.listdir(SCRATCH):
        try:
            pid = int(d.rsplit("-", 1)[1])
            os.kill(pid, 0)
        except (ValueError, IndexError):
            continue
        except ProcessLookupError:
            shutil.rmtree(os.path.join(SCRATCH, d), ignore_errors=True)
        except PermissionError:
            pass


# ---------------------------------------------------------------------------------------------
def run_fuzz(exe, pid, runs, seed, jobs=16, max_len=256, dict_path=None, timeout=3000):
    """Run a libFuzzer target as `jobs` independent processes (distinct seeds).  Returns a Shard: evaluations = executions,
    counters with coverage, one violation per artifact (key from the target's own VF-FUZZ-VIOLATION line or the sanitizer
    summary); artifacts are copied under /verif/replay/<pid>/ so the replay command keeps working."""
    import glob
    import re
    d = scratch_dir("fuzz")
    sh = Shard()
    e = dict(os.environ)
    e["ASAN_OPTIONS"] = "detect_leaks=0:allocator_may_return_null=1:quarantine_size_mb=8:abort_on_error=0"
    e["UBSAN_OPTIONS"] = "print_stacktrace=1"
    procs = []
    for j in range(jobs):
        adir = os.path.join(d, "j%d" % j)
        os.makedirs(adir, exist_ok=True)
        cmd = [exe, "-runs=%d" % runs, "-seed=%d" % (seed * 1000 + j + 1), "-max_len=%d" % max_len, "-artifact_prefix=%s/" % adir, "-print_final_stats=1", "-timeout=25"]
        if dict_path and os.path.exists(dict_path):
            cmd.append("-dict=" + dict_path)
        lf = open(os.path.join(adir, "log"), "w")
        procs.append((subprocess.Popen(cmd, stdout=lf, stderr=subprocess.STDOUT, env=e, cwd=adir), adir, lf))
    for p, adir, lf in procs:
        try:
            p.wait(timeout=timeout)
        except subprocess.TimeoutExpired:
            p.kill()
            p.wait()
            sh.notes.append("fuzz job watchdog fired (inconclusive for that job)")
        lf.close()
        log = open(os.path.join(adir, "log"), errors="replace").read()
        m = re.search(r"stat::number_of_executed_units:\s*(\d+)", log)
        n = int(m.group(1)) if m else 0
        sh.evaluations += n
        sh.count("fuzz.executions", n)
        m = re.findall(r"cov: (\d+)", log)
        if m:
            sh.cmax("max_fuzz_coverage_edges", int(m[-1]))
        m = re.findall(r"corp: (\d+)", log)
        if m:
            sh.count("fuzz.corpus_units", int(m[-1]))
        for art in glob.glob(os.path.join(adir, "crash-*")) + glob.glob(os.path.join(adir, "timeout-*")) + glob.glob(os.path.join(adir, "oom-*")):
            r = subprocess.run([exe, art], stdout=subprocess.PIPE, stderr=subprocess.STDOUT, text=True, env=e, timeout=120, errors="replace")
            txt = r.stdout
            mm = re.search(r"VF-FUZZ-VIOLATION (\S+) ([^\n]*)", txt)
            if mm:
                facets = re.sub(r"=\S+", "", mm.group(2)).split()
                nz = [x.split("=")[0] for x in mm.group(2).split() if "=" in x and x.split("=")[1] not in ("0", "1") or x.endswith("=0") and x.startswith("reset_same")]
                key = "%s/fuzz/%s/%s" % (pid, mm.group(1), "+".join(nz)[:60] or "monitor")
                what = mm.group(0)[:300]
            else:
                c = Crash("fuzz", r.returncode, txt, os.path.basename(art).split("-")[0])
                kind, frame = c.summary()
                key, what = "%s/fuzz/%s/%s" % (pid, kind, frame), "libFuzzer artifact %s: %s" % (os.path.basename(art), kind)
            rdir = os.path.join(OUTROOT, "replay", pid)
            os.makedirs(rdir, exist_ok=True)
            keep = os.path.join(rdir, "fuzz-" + os.path.basename(art))
            shutil.copy(art, keep)
            sh.violation(key, what, {"cmd": "%s %s" % (exe, keep), "artifact": keep, "input_hex": open(art, "rb").read()[:2000].hex(), "stderr": txt[-2500:]})
    sh.nontrivial("fuzz-%s-%d" % (os.path.basename(exe), seed))
    sh.nontrivial("fuzz-%s-jobs" % os.path.basename(exe))
    return sh


def _mc_once(exe_plain, cases, d, timeout, env, args):
    sp, op = os.path.join(d, "script"), os.path.join(d, "out")
    with open(sp, "w") as f:
        for cid, cmds in cases:
            f.write("CASE %s\n" % cid)
            for c in cmds:
                f.write(c + "\n")
            f.write("END\n")
    e = dict(os.environ)
    e.update(env or {})
    r = subprocess.run(["valgrind", "-q", "--error-exitcode=77", "--track-origins=yes", "--num-callers=12", exe_plain, sp, op] + list(args),
                       stdout=subprocess.PIPE, stderr=subprocess.STDOUT, text=True, errors="replace", timeout=timeout, env=e)
    return r.returncode, r.stdout


def run_memcheck(exe_plain, cases, pid, tag="mc", timeout=3000, env=None, args=()):
    """valgrind memcheck pass (uninitialised reads, invalid accesses that ASan's red zones miss) over a script on the
    uninstrumented `plain` build.  Returns a Shard with one violation if memcheck reported anything; the witness is narrowed
    to one case by bisection when the report reproduces on a single case."""
    import re
    d = scratch_dir(tag)
    sh = Shard()
    try:
        rc, outp = _mc_once(exe_plain, cases, d, timeout, env, args)
    except subprocess.TimeoutExpired:
        sh.notes.append("memcheck watchdog fired (inconclusive)")
        return sh
    sh.evaluations = sum(len(c) for _, c in cases)
    sh.count("memcheck.commands", sh.evaluations)
    sh.nontrivial("memcheck-%s-%d" % (pid, len(cases)))
    sh.nontrivial("memcheck-%s-%s" % (pid, tag))
    if rc == 77:
        m = re.search(r"==\d+== ([A-Z][^\n]{10,80})\n((?:==\d+==\s+(?:at|by) 0x[0-9A-F]+: [^\n]*\n)+)", outp)
        kind = re.sub(r"\W+", "-", m.group(1).lower())[:50] if m else "error"
        fn = "?"
        if m:
            frames = re.findall(r"(?:at|by) 0x[0-9A-F]+: (\w+) \((\w+\.[ch]):\d+\)", m.group(2))
            lib = [f for f, src in frames if os.path.exists(os.path.join(vbuild.REPO, src))]
            fn = (lib or [f for f, _ in frames] or ["?"])[0]
        wit = list(cases)
        try:
            for _ in range(12):
                if len(wit) <= 1:
                    break
                half = wit[:len(wit) // 2]
                rc2, _o = _mc_once(exe_plain, half, d, timeout, env, args)
                wit = half if rc2 == 77 else wit[len(wit) // 2:]
            if len(wit) == 1 and _mc_once(exe_plain, wit, d, timeout, env, args)[0] != 77:
                wit = list(cases)
        except subprocess.TimeoutExpired:
            wit = list(cases)
        script = []
        for cid, cmds in wit[:3]:
            script += cmds
        sh.violation("%s/memcheck/%s/%s" % (pid, kind, fn), "valgrind memcheck: " + (m.group(0)[:300] if m else outp[-300:]),
                     {"cmd": "valgrind %s <script>" % exe_plain, "driver": os.path.basename(exe_plain), "variant": "plain", "memcheck": True, "env": env or {}, "args": list(args),
                      "script": [c[:100000] for c in script[:300]], "stderr": outp[-3000:]})
    elif rc != 0:
        raise Inconclusive("memcheck run failed rc=%d: %s" % (rc, outp[-400:]))
    return sh
    sh.evaluations = sum(len(c) for _, c in cases)
    sh.count("memcheck.commands", sh.evaluations)
    sh.nontrivial("memcheck-%s-%d" % (pid, len(cases)))
    sh.nontrivial("memcheck-%s" % pid)
    if r.returncode == 77:
        import re
        m = re.search(r"==\d+== ([A-Z][^\n]{10,80})\n==\d+==\s+at 0x[0-9A-F]+: (\w+)", r.stdout)
        kind = re.sub(r"\W+", "-", m.group(1).lower())[:50] if m else "error"
        fn = m.group(2) if m else "?"
        sh.violation("%s/memcheck/%s/%s" % (pid, kind, fn), "valgrind memcheck: " + (m.group(0)[:200] if m else r.stdout[-300:]), {"cmd": "valgrind %s <script>" % exe_plain, "driver": os.path.basename(exe_plain), "variant": "plain", "memcheck": True, "env": env or {}, "script": _offending_case(cases, op), "stderr": r.stdout[-3000:]})
    elif r.returncode != 0:
        raise Inconclusive("memcheck run failed rc=%d: %s" % (r.returncode, r.stdout[-400:]))
    return sh

"""Synthesise a comma-decimal locale offline (no /usr/share/i18n in this image): hand-written ASCII charmap + an
LC_NUMERIC-only source compiled with localedef -c into /verif/build/locale/xx_XX; drivers use it via LOCPATH."""
import os
import subprocess

from . import build as vbuild

LOCDIR = os.path.join(vbuild.BUILD, "locale")
NAME = "xx_XX"


def ensure():
    dst = os.path.join(LOCDIR, NAME)
    if os.path.exists(os.path.join(dst, "LC_NUMERIC")):
        return LOCDIR
    src = os.path.join(vbuild.BUILD, "locale_src")
    os.makedirs(src, exist_ok=True)
    os.makedirs(LOCDIR, exist_ok=True)
    with open(os.path.join(src, "ASCII.charmap"), "w") as f:
        f.write("<code_set_name> ASCII\n<comment_char> %\n<escape_char> /\n<mb_cur_min> 1\n<mb_cur_max> 1\nCHARMAP\n")
        for c in range(128):
            f.write("<U%04X> /x%02x\n" % (c, c))
        f.write("END CHARMAP\n")
    with open(os.path.join(src, "xx_XX.src"), "w") as f:
        f.write("comment_char %\nescape_char /\n\nLC_NUMERIC\ndecimal_point \"<U002C>\"\nthousands_sep \"<U002E>\"\ngrouping 3;3\nEND LC_NUMERIC\n")
    r = subprocess.run(["localedef", "-c", "-f", os.path.join(src, "ASCII.charmap"), "-i", os.path.join(src, "xx_XX.src"), dst],
                       stdout=subprocess.PIPE, stderr=subprocess.STDOUT, text=True)
    if not os.path.exists(os.path.join(dst, "LC_NUMERIC")):
        raise RuntimeError("localedef failed: " + r.stdout[-1500:])
    return LOCDIR


if __name__ == "__main__":
    print(ensure())

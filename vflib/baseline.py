"""Build /repo exactly as the pinned baseline does (no shim, no hook guard, no seed override) in a
scratch directory outside /repo and run the project's own test suite.  Prints one line per test and a
summary; exit 0 iff all the 25 baseline tests pass."""
import os
import re
import shutil
import subprocess
import sys

from . import build as vbuild

EXPECTED = 25


def main():
    d = os.path.join(vbuild.BUILD, "baseline")
    shutil.rmtree(d, ignore_errors=True)
    os.makedirs(d)
    env = dict(os.environ)
    if os.environ.get("VF_BASELINE_FAST"):
        env["USE_VALGRIND"] = "0"
    gen = ["-G", "Ninja"] if shutil.which("ninja") else []
    cmds = [
        ["cmake", "-S", vbuild.REPO, "-B", d, "-DCMAKE_BUILD_TYPE=RelWithDebInfo", "-DCMAKE_C_FLAGS=-Wno-error"] + gen,
        ["cmake", "--build", d, "-j", "16"],
    ]
    for c in cmds:
        r = subprocess.run(c, stdout=subprocess.PIPE, stderr=subprocess.STDOUT, text=True, env=env)
        if r.returncode != 0:
            print(r.stdout[-5000:])
            print("BASELINE BUILD FAILED")
            return 1
    r = subprocess.run(["ctest", "--test-dir", d, "-j8", "--timeout", "900"], stdout=subprocess.PIPE,
                       stderr=subprocess.STDOUT, text=True, env=env)
    out = r.stdout
    passed = re.findall(r"Test\s+#\d+: (\S+) \.+\s+Passed", out)
    failed = re.findall(r"Test\s+#\d+: (\S+) \.+\**(Failed|Timeout|Exception|Not Run)", out)
    for t in passed:
        print("PASS", t)
    for t, why in failed:
        print("FAIL", t, why)
    print("baseline (guard off): %d passed, %d failed (expected %d passing)" % (len(passed), len(failed), EXPECTED))
    if failed:
        print(out[-3000:])
    shutil.rmtree(d, ignore_errors=True)
    return 0 if (not failed and len(passed) >= EXPECTED and r.returncode == 0) else 1


if __name__ == "__main__":
    sys.exit(main())

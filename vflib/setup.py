"""setup: oracle self-tests, locale synthesis (C14), warm builds.  Offline; files on disk only."""
import sys

from . import build as vbuild


def main():
    from oracle import selftest
    rc = selftest.main()
    if rc:
        print("oracle self-test FAILED")
        return 2
    try:
        from . import locale_synth
        locale_synth.ensure()
    except ImportError:
        pass
    for v in ("asan", "tsan", "tsan_ndebug", "thr"):
        print("build", v, vbuild.build(v))
    return 0


if __name__ == "__main__":
    sys.exit(main())

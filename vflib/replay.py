"""Re-execute a stored witness on the current tree and show recorded vs observed."""
import json
import os

from . import build as vbuild, core


def main(path):
    r = json.load(open(path))
    print("property:", r.get("property"), " key:", r.get("key"))
    print("what:", r.get("what"))
    if "cmd" in r:
        print("re-run with:", r["cmd"])
    if "script" in r:
        bdir = vbuild.build(r.get("variant", "asan"))
        exe = os.path.join(bdir, r.get("driver", "jcdrv"))
        if r.get("memcheck"):
            sh = core.run_memcheck(exe, [("replay", r["script"])], r.get("property", "?"), tag="mcreplay", env=r.get("env"), args=r.get("args", ()))
            print("  memcheck now reports:", [v["key"] for v in sh.violations] or "nothing")
        res, crashes = core.run_script(exe, [("replay", r["script"])], env=r.get("env"), tag="replay", args=r.get("args", ()))
        for c, ln in zip(r["script"], res.get("replay", [])):
            print("  >", c[:200])
            print("  <", ln[:400])
        for cr in crashes:
            print("  driver died:", cr.kind)
            print(cr.stderr[-3000:])
    for k in ("expected", "expected_dump", "observed", "text", "stderr"):
        if k in r:
            print("recorded %s: %s" % (k, str(r[k])[:1500]))
    return 0

"""Content-addressed builds of /repo's *current working tree* for each sanitizer variant.

A check always runs code compiled from the bytes that are in /repo right now: the hash covers every
source/header/cmake input of /repo plus the variant flags plus the shim and harness sources, so the
cache only avoids recompiling identical bytes.  Build failure raises BuildError (exit 2, never a
VIOLATION).
"""
import fcntl
import glob
import hashlib
import json
import os
import shlex
import shutil
import subprocess
import sys
import time
from concurrent.futures import ThreadPoolExecutor

VERIF = os.path.dirname(os.path.dirname(os.path.abspath(__file__)))
REPO = os.environ.get("VF_REPO", "/repo")
BUILD = os.environ.get("VF_BUILD", os.path.join(VERIF, "build"))  # VF_BUILD: separate build root (used when many trees are checked concurrently)


class BuildError(Exception):
    pass


SAN_COMMON = "-g -fno-omit-frame-pointer"
SEED_DEF = '-DOVERRIDE_GET_RANDOM_SEED=return vf_seed_hook()'

VARIANTS = {
    # name: (cc, cflags for library+drivers, use rename shim, threading config, ldflags, drivers)
    "asan": dict(
        cc="gcc",
        cflags="-O1 %s -fno-pie -fsanitize=address,undefined,float-cast-overflow -fno-sanitize-recover=all" % SAN_COMMON,
        shim=True, threading=False, ld="-no-pie -lm -ldl -lpthread",
        drivers=["jcdrv", "splitdrv", "faultdrv", "lhenum"]),
    "plain": dict(
        cc="gcc", cflags="-O1 -g", shim=True, threading=False, ld="-lm -ldl -lpthread",
        drivers=["jcdrv", "splitdrv"]),
    "tsan": dict(
        cc="gcc", cflags="-O1 -g -fsanitize=thread", shim=False, threading=True, ld="-lm -lpthread",
        drivers=["thrdrv"]),
    "tsan_ndebug": dict(
        cc="gcc", cflags="-O1 -g -fsanitize=thread -DNDEBUG", shim=False, threading=True, ld="-lm -lpthread",
        drivers=["thrdrv"]),
    "thr": dict(
        cc="gcc", cflags="-O2 -g -DNDEBUG", shim=False, threading=True, ld="-lm -lpthread",
        drivers=["thrdrv"]),
    "fuzz": dict(
        cc="clang", cflags="-O1 -g -fno-omit-frame-pointer -fsanitize=fuzzer-no-link,address,undefined "
                           "-fno-sanitize-recover=all -fno-sanitize=object-size",
        shim=True, threading=False, ld="-fsanitize=fuzzer,address,undefined -lm -ldl",
        drivers=["fuzz_tokener", "fuzz_split", "fuzz_patch"]),
}


def _repo_inputs():
    pats = ["*.c", "*.h", "*.in", "*.cmakein", "CMakeLists.txt", "cmake/*", "json-c.sym"]
    files = []
    for p in pats:
        files += glob.glob(os.path.join(REPO, p))
    return sorted(set(f for f in files if os.path.isfile(f)))


def _hash_files(files, extra=""):
    h = hashlib.sha256()
    h.update(extra.encode())
    for f in files:
        h.update(f.encode() + b"\0")
        with open(f, "rb") as fh:
            h.update(fh.read())
        h.update(b"\0")
    return h.hexdigest()[:16]


def _cfg_inputs():
    files = [os.path.join(REPO, "CMakeLists.txt")]
    files += glob.glob(os.path.join(REPO, "cmake/*"))
    files += glob.glob(os.path.join(REPO, "*.in")) + glob.glob(os.path.join(REPO, "*.cmakein"))
    files += glob.glob(os.path.join(REPO, "apps/CMakeLists.txt")) + glob.glob(os.path.join(REPO, "tests/CMakeLists.txt"))
    return sorted(f for f in files if os.path.isfile(f))


class _Lock:
    def __init__(self, path):
        os.makedirs(os.path.dirname(path), exist_ok=True)
        self.fh = open(path, "w")

    def __enter__(self):
        fcntl.flock(self.fh, fcntl.LOCK_EX)
        return self

    def __exit__(self, *a):
        fcntl.flock(self.fh, fcntl.LOCK_UN)
        self.fh.close()


def configure(threading):
    """Run the project's own cmake configure (cached by content of its inputs) to obtain config.h,
    json_config.h, json.h and the source list / definitions exactly as the project generates them."""
    tag = "cfg_thr" if threading else "cfg"
    h = _hash_files(_cfg_inputs(), tag)
    d = os.path.join(BUILD, "%s-%s" % (tag, h))
    with _Lock(os.path.join(BUILD, tag + ".lock")):
        if os.path.exists(os.path.join(d, "ok")):
            os.utime(d)  # in use now: not to be pruned by a concurrent run
            return d
        for old in glob.glob(os.path.join(BUILD, tag + "-*")):
            # as for builds below: a configuration young enough to be in use by a concurrently running check (of another tree) stays
            try:
                if time.time() - os.path.getmtime(old) > 3 * 3600 or old.endswith(".tmp"):
                    shutil.rmtree(old, ignore_errors=True)
            except OSError:
                pass
        tmp = d + ".tmp"
        shutil.rmtree(tmp, ignore_errors=True)
        os.makedirs(tmp)
        cmd = ["cmake", "-S", REPO, "-B", tmp, "-DCMAKE_EXPORT_COMPILE_COMMANDS=ON", "-DBUILD_TESTING=OFF",
               "-DBUILD_APPS=OFF", "-DBUILD_SHARED_LIBS=OFF", "-DCMAKE_C_COMPILER=/usr/bin/cc"]
        if threading:
            cmd.append("-DENABLE_THREADING=ON")
        r = subprocess.run(cmd, stdout=subprocess.PIPE, stderr=subprocess.STDOUT, text=True)
        if r.returncode != 0 or not os.path.exists(os.path.join(tmp, "compile_commands.json")):
            raise BuildError("cmake configure failed:\n" + r.stdout[-4000:])
        # compile_commands mentions the tmp dir; rewrite to final dir
        cc = json.load(open(os.path.join(tmp, "compile_commands.json")))
        srcs, defs = [], None
        for e in cc:
            f = e["file"]
            if f in srcs:
                continue
            srcs.append(f)
            if defs is None:
                toks = shlex.split(e["command"])
                defs = [t for t in toks if t.startswith("-D")]
        keep = {}
        for fn in ("config.h", "json_config.h", "json.h"):
            keep[fn] = open(os.path.join(tmp, fn)).read()
        shutil.rmtree(tmp)
        os.makedirs(tmp)
        for fn, txt in keep.items():
            open(os.path.join(tmp, fn), "w").write(txt)
        json.dump({"sources": srcs, "defs": defs or []}, open(os.path.join(tmp, "srcs.json"), "w"))
        open(os.path.join(tmp, "ok"), "w").write("ok")
        os.rename(tmp, d)
    return d


def _run(cmd, what):
    r = subprocess.run(cmd, stdout=subprocess.PIPE, stderr=subprocess.STDOUT, text=True)
    if r.returncode != 0:
        raise BuildError("%s failed: %s\n%s" % (what, " ".join(cmd), r.stdout[-6000:]))


def build(variant):
    """Return the directory that holds the drivers of `variant` built from /repo's current tree."""
    v = VARIANTS[variant]
    cfg = configure(v["threading"])
    meta = json.load(open(os.path.join(cfg, "srcs.json")))
    shim_files = sorted(glob.glob(os.path.join(VERIF, "shim/*")))
    harness_files = sorted(glob.glob(os.path.join(VERIF, "harness/*.[ch]")))
    h = _hash_files(_repo_inputs() + shim_files + harness_files, variant + json.dumps(v, sort_keys=True))
    d = os.path.join(BUILD, "%s-%s" % (variant, h))
    with _Lock(os.path.join(BUILD, variant + ".lock")):
        if os.path.exists(os.path.join(d, "ok")):
            os.utime(d)
            return d
        for old in glob.glob(os.path.join(BUILD, variant + "-*")):
            # stale builds are removed, but not ones young enough to be in use by a check that is still running
            try:
                if time.time() - os.path.getmtime(old) > 3 * 3600 or old.endswith(".tmp"):
                    shutil.rmtree(old, ignore_errors=True)
            except OSError:
                pass
        tmp = d + ".tmp"
        shutil.rmtree(tmp, ignore_errors=True)
        os.makedirs(tmp)
        cc = v["cc"]
        base = [cc] + shlex.split(v["cflags"]) + ["-w", "-Werror=implicit-function-declaration", "-I" + cfg, "-I" + REPO, "-I" + os.path.join(VERIF, "shim"),
                                                   "-I" + os.path.join(VERIF, "harness")]
        base += [x for x in meta["defs"] if x != "-DJSON_C_DLL"]
        libflags = list(base) + [SEED_DEF, "-include", os.path.join(VERIF, "shim/vf_seed.h")]
        if v["shim"]:
            libflags += ["-include", os.path.join(VERIF, "shim/vf_rename.h")]
        jobs = []
        objs = []
        for s in meta["sources"]:
            o = os.path.join(tmp, os.path.basename(s)[:-2] + ".o")
            objs.append(o)
            jobs.append((libflags + ["-c", s, "-o", o], "compile " + s))
        shim_src = "vf_shim.c" if v["shim"] else "vf_seed_thr.c"
        so = os.path.join(tmp, "vf_shim.o")
        defs = ["-DVF_VARIANT_%s=1" % variant.upper()]
        jobs.append((base + defs + ["-c", os.path.join(VERIF, "shim", shim_src), "-o", so], "compile shim"))
        drivers = [dr for dr in v["drivers"] if os.path.exists(os.path.join(VERIF, "harness", dr + ".c"))]
        dobjs = {}
        for dr in drivers:
            o = os.path.join(tmp, dr + ".drv.o")
            dobjs[dr] = o
            jobs.append((base + defs + ["-c", os.path.join(VERIF, "harness", dr + ".c"), "-o", o], "compile " + dr))
        # one more consumer of the public headers, compiled as strict ISO C (the headers select other macro variants then); linked into jcdrv
        iso_src, iso_o = os.path.join(VERIF, "harness", "iso_consumer.c"), os.path.join(tmp, "iso_consumer.o")
        have_iso = os.path.exists(iso_src) and "jcdrv" in drivers
        if have_iso:
            jobs.append((base + defs + ["-std=c99", "-c", iso_src, "-o", iso_o], "compile iso_consumer"))
        with ThreadPoolExecutor(16) as ex:
            list(ex.map(lambda j: _run(*j), jobs))
        lib = os.path.join(tmp, "libjc.a")
        _run(["ar", "rcs", lib] + objs, "ar")
        ld = shlex.split(v["ld"])
        lj = []
        for dr in drivers:
            flags = [f for f in shlex.split(v["cflags"]) if f.startswith("-fsanitize") and "fuzzer-no-link" not in f]
            if variant == "fuzz":
                flags = []
            lj.append(([cc] + flags + ["-rdynamic", dobjs[dr]] + ([iso_o] if have_iso and dr == "jcdrv" else []) + [so, lib, "-o", os.path.join(tmp, dr)] + ld, "link " + dr))
        with ThreadPoolExecutor(16) as ex:
            list(ex.map(lambda j: _run(*j), lj))
        for o in objs + list(dobjs.values()):
            os.unlink(o)
        open(os.path.join(tmp, "ok"), "w").write("ok")
        os.rename(tmp, d)
    return d


if __name__ == "__main__":
    t = time.time()
    for var in sys.argv[1:] or ["asan"]:
        print(var, build(var), "%.1fs" % (time.time() - t))

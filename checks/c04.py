"""C04 — the parser is total and memory-safe on arbitrary bytes and reusable after reset."""
import os
import random
import re
import subprocess

from vflib import core, build
from gen.inputs import InputGen, LITERALS, raw_bytes, soup
from checks.c03 import kv

PID = "C04"

# inputs that produce each error code (evidence must show all 15 producible codes; 16 = out of memory needs a fault, C08)
CODE_TABLE = [b"[[[[1]]]]", b"[1", b"]", b"nulx", b"trux", b"[-]", b"[1 2]", b"{1:2}", b'{"a" 1}', b'{"a":1 "b":2}', b'"\\x"', b"/x", b'"\xff"', b"1"]

FRAGMENTS = [b'\\udc00"', b'"\\udc00"', b'udc00"', b'dc00"', b'00"', b'"', b"'", b"5", b"5]", b".5", b"e5", b"-5", b"+5", b"]", b"}", b"]}", b":1}", b",1]", b'"a":1}',
             b"*/1", b"/1", b"\n1", b"ull", b"rue", b"alse", b"nfinity", b"aN", b"1", b"[1]", b'{"a":1}', b'"x"', b"null", b'\\n"', b'n"', b'u0041"', b"0041\"", b" ", b""]


def reset_pairs(rng, ig, n):
    out = []
    for _ in range(n):
        r = rng.random()
        d = ig.small_doc() if r < 0.6 else ig.lg.document()
        if len(d) < 2:
            continue
        p = rng.randrange(1, len(d))
        a = d[:p]
        m = rng.random()
        if m < 0.45:
            y = d[p:]                      # the complementary fragment: a forgotten field makes Y continue A
        elif m < 0.8:
            y = rng.choice(FRAGMENTS)
        else:
            y = ig.small_doc()
        # feed A in 1..3 chunks
        cuts = sorted(rng.randrange(0, len(a) + 1) for _ in range(rng.choice([0, 0, 1, 2])))
        chunks, prev = [], 0
        for c in cuts + [len(a)]:
            chunks.append(a[prev:c])
            prev = c
        out.append((chunks, y))
    return out


def shard_fn(shard, nshards, seed, tier, exe, ninputs, npairs):
    rng = random.Random("%d/%d/c04" % (seed, shard))
    sh = core.Shard()
    ig = InputGen(rng, max_len=1500)
    ig.dg.budget = 40
    cases, meta = [], {}
    n = 0

    def add(kind, cmds, desc):
        nonlocal n
        cid = "%d.%d" % (shard, n)
        n += 1
        cases.append((cid, cmds))
        meta[cid] = (kind, desc)

    if shard == 0:
        for s in CODE_TABLE:
            add("code-table", ["G 0 4 x" + s.hex(), "G 0x11 4 x" + s.hex()], s)
        for k in core.load_known():
            if k["property"] == PID and k.get("witness_reset"):
                a, y = k["witness_reset"]
                add("listed-witness", ["R 0 0 x%s x%s" % (a.encode().hex(), y.encode().hex())], (a, y))
    for i in range(ninputs // nshards):
        kind, s = ig.next()
        if rng.random() < 0.15:
            s = raw_bytes(rng, rng.choice([1, 2, 3, 5, 8, 64, 300]))
            kind = "bytes"
        flags = rng.choice([0, 1, 2, 3, 0x10, 0x11, 0x12, 0x13, rng.getrandbits(31), 0x7fffffff, 0x7ffffffe, 0x20, 0xfc])
        depth = rng.choice([0, 0, 1, 2, 3, 4, 8, 31, 32, 33, 40, 1000])
        cmds = ["G %d %d x%s" % (flags, depth, s.hex())]
        if len(s) <= 400:
            cmds.append("X %d 0 3 %d x%s" % (1 << rng.randrange(8) | 1 << rng.randrange(8), rng.getrandbits(32), s.hex()))
        add(kind, cmds, s)
    for chunks, y in reset_pairs(rng, ig, npairs // nshards):
        flags = rng.choice([0, 0, 1, 0x10, 3])
        depth = rng.choice([0, 0, 0, 2, 5, 40])
        fy = ""
        if rng.random() < 0.3:
            fy = " %d" % rng.choice([0, 1, 2, 3, 0x10, 0x11, 0x13])   # the flags are changed between the two documents
            if rng.random() < 0.5:
                fy += " b"   # ... before the reset rather than after it
            sh.count("reset_pairs.flags_changed_between_documents")
        add("reset", ["R %d %d x%s x%s%s" % (flags, depth, ",".join(c.hex() for c in chunks), y.hex(), fy)], (chunks, y))
    # a tokener that has held a very long token (its scratch buffer grew beyond 64 KiB) and is then reused for another document with a long token
    for j in range(3):
        la, ly = rng.choice([65530, 65536, 70000, 200000]), rng.choice([4095, 4096, 5000, 40000, 70000])
        a = rng.choice([b'"%s"', b'["%s"]', b'{"%s":1}', b'"%s', b'[%s]']) % (bytes([rng.choice(b"abc1")]) * la)
        y = rng.choice([b'["%s"]', b'{"%s":[]}', b"[%s]"]) % (bytes([rng.choice(b"xyz7")]) * ly)
        cuts = [0, len(a)] if rng.random() < 0.5 else [0, la // 2, len(a)]
        chunks = [a[cuts[i]:cuts[i + 1]] for i in range(len(cuts) - 1)]
        add("reset", ["R %d 0 x%s x%s" % (rng.choice([0, 1]), ",".join(c.hex() for c in chunks), y.hex())], ([c[:30] for c in chunks], y[:30]))
        sh.count("reset_pairs.after_token_beyond_64KiB")
    # very deep nesting / very long tokens (few, large)
    big = []
    if shard < 8:
        k = ([10 ** 4, 10 ** 5, 10 ** 6, 3 * 10 ** 5] if tier == "thorough" else [10 ** 3, 10 ** 4, 10 ** 5, 3 * 10 ** 4])[shard % 4]
        tl = 20 if tier == "thorough" else 17
        opener = [b"[", b'{"a":', b"[{\"k\":", b"[[{\"a\":["][shard // 4 * 2 % 4] if shard < 4 else [b'{"a":', b"[", b'[{"k":', b"[\n"][shard % 4]
        big.append(("deep-%d" % k, opener * (k // max(1, opener.count(b"[") + opener.count(b"{")))))
        big.append(("long-string", b'"' + bytes(rng.choice(b"ab\\\\ \xc3\xa9") for _ in range(1 << tl)) + b'"'))
        big.append(("long-number", b"-" + b"1234567890" * (1 << (tl - 4)) + b".5e" + b"9" * 1000))
        big.append(("long-comment", b"/*" + b"*x/" * (1 << (tl - 2)) + b"*/1"))
    for kind, s in big:
        add("big." + kind.split("-")[0], ["G 0 %d x%s" % (rng.choice([0, 1000, 2000000]), s.hex()), "G 1 0 x" + s.hex()], s[:40])
    cases.append(("%d.hist" % shard, ["Z"]))
    results, crashes = core.run_script(exe, cases, tag="c04", timeout=1800, env=core.ambient_env(sh, shard))
    cmdmap = dict(cases)
    for cr in crashes:
        kind, frame = cr.summary()
        sh.violation("C04/%s/%s/%s" % ("hang" if cr.kind == "hang" else "crash", kind, frame),
                     "parser %s on input of kind %s" % ("did not terminate" if cr.kind == "hang" else "crashed: " + kind, meta.get(cr.cid, ("?",))[0]),
                     {"driver": "splitdrv", "variant": "asan", "script": cmdmap[cr.cid][:4], "stderr": cr.stderr[-3000:]})
    for cid, lines in results.items():
        if cid.endswith(".hist"):
            for m in re.finditer(r" e(\d+):(\d+)", lines[0]):
                sh.count("error_code.%s" % m.group(1), int(m.group(2)))
            for m in re.finditer(r" r(\d+)/(\d+):(\d+)", lines[0]):
                sh.count("reset_applied_in_state.%s/%s" % (m.group(1), m.group(2)), int(m.group(3)))
            continue
        kind, desc = meta[cid]
        sh.count("inputs." + kind)
        for cmd, ln in zip(cmdmap[cid], lines):
            if not ln.startswith("="):
                raise core.Inconclusive("bad driver line: " + ln[:200])
            f = kv(ln)
            sh.evaluations += max(1, f.get("calls", 0))
            rep = {"driver": "splitdrv", "variant": "asan", "script": [cmd[:2000000]], "desc": repr(desc)[:500]}
            if f.get("live", 0) != 0:
                sh.violation("C04/leak-after-free", "blocks still allocated after json_tokener_free + put: " + ln[-100:], rep)
            if f.get("tri", 0):
                sh.violation("C04/outcome-trichotomy", "outcome outside {value+success, continue, error} or end > len: " + ln[-200:], rep)
            if cmd[0] == "G" and f.get("explicit_same") == 0:
                sh.violation("C04/len-minus-one-differs", "len=-1 and explicit length give different results: " + ln[:200], rep)
            if cmd[0] == "X" and f.get("mism", 0):
                sh.count("split_mismatches_left_to_C03", f["mism"])
            if cmd[0] == "R":
                st = "%s/%s" % (f.get("st"), f.get("ss"))
                if f.get("same") == 0:
                    sh.violation("C04/reset-differs-from-new/state%s" % st, "after json_tokener_reset a parse differs from a new parser's: %s ; A=%r Y=%r" % (ln[:160], desc[0], desc[1]), rep)
                if f["live_reset"] not in (f["live_new"], f["live_ok"]):
                    sh.violation("C04/reset-holds-memory/state%s" % st, "reset parser holds %d blocks (new: %d, after a completed parse: %d)" % (f["live_reset"], f["live_new"], f["live_ok"]), rep)
                if f["live_cN"] != f["live_c1"]:
                    sh.violation("C04/reset-cycles-grow/state%s" % st, "100 interrupt+reset cycles grew live blocks %d -> %d" % (f["live_c1"], f["live_cN"]), rep)
                sh.count("reset.a_status.%s" % {0: "success", 1: "continue"}.get(f.get("a_err"), "error"))
        sh.nontrivial(repr(desc))
        if len(sh.samples) < 2 and kind in ("reset", "mutated"):
            sh.samples.append({"kind": kind, "case": repr(desc)[:200], "cmd": cmdmap[cid][0][:60]})
    return sh


def memcheck(exe_plain, seed, n):
    """valgrind memcheck pass on the uninstrumented build (uninitialised reads)"""
    rng = random.Random("%d/c04mc" % seed)
    ig = InputGen(rng, max_len=200)
    d = core.scratch_dir("c04mc")
    sp = os.path.join(d, "script")
    with open(sp, "w") as f:
        f.write("CASE mc\n")
        for _ in range(n):
            k, s = ig.next()
            f.write("X 0x21 0 2 %d x%s\n" % (rng.getrandbits(31), s.hex()))
            f.write("G %d %d x%s\n" % (rng.choice([0, 1, 0x10]), rng.choice([0, 3]), s.hex()))
        f.write("END\n")
    r = subprocess.run(["valgrind", "-q", "--error-exitcode=77", "--track-origins=yes", exe_plain, sp, os.path.join(d, "out")],
                       stdout=subprocess.PIPE, stderr=subprocess.STDOUT, text=True, timeout=3000)
    return r.returncode, r.stdout[-3000:]


def run(tier, seed):
    bdir = build.build("asan")
    chk = core.Check(PID, tier, seed)
    ninputs, npairs = (32000, 16000) if tier == "quick" else (1600000, 400000)
    sh = core.parallel(shard_fn, seed=seed, tier=tier, exe=bdir + "/splitdrv", ninputs=ninputs, npairs=npairs)
    chk.absorb(sh)
    if tier == "thorough":
        pdir = build.build("plain")
        rc, outp = memcheck(pdir + "/splitdrv", seed, 1500)
        chk.extra["memcheck"] = {"inputs": 1500, "exit": rc}
        if rc == 77:
            m = core.Shard()
            m.violation("C04/memcheck", "valgrind memcheck reported an error: " + outp[-600:], {"cmd": "valgrind splitdrv (plain variant)", "stderr": outp})
            chk.absorb(m)
        elif rc != 0:
            raise core.Inconclusive("memcheck run failed rc=%d: %s" % (rc, outp[-500:]))
    if tier == "thorough":
        fdir = build.build("fuzz")
        chk.absorb(core.run_fuzz(fdir + "/fuzz_tokener", PID, runs=1000000, seed=seed, jobs=16, max_len=512, dict_path="/repo/fuzz/tokener_parse_ex_fuzzer.dict"))
        chk.extra["fuzz"] = "libFuzzer target fuzz_tokener (flags/depth/split point from the input; trichotomy, ledger, reset-vs-new compiled in), 16 jobs x 10^6 runs"
    produced = sorted(int(k.split(".")[1]) for k in chk.merged.counters if k.startswith("error_code."))
    missing = [c for c in range(1, 16) if c not in produced]
    chk.extra["error_codes_not_produced"] = missing
    chk.rule = ("arbitrary byte strings (random bytes, ASCII, structure-biased, mutated/lenient documents, token soup, streams; deep nesting up to 10^6, 1 MiB tokens) parsed from exact-size heap "
                "blocks, from a buffer flush against a PROT_NONE page, with len=-1, len=-2, random chunking, random flag words (incl. undefined bits) and depth limits 1..1000 under ASan+UBSan; "
                "every call's outcome checked against the trichotomy; allocation ledger after free; reset-vs-new differential on (interrupted A, sensitive Y) pairs + 100-cycle growth. "
                "evaluations = parse calls; distinct = distinct cases")
    chk.assumptions = ["'terminates' is decided as 'returned within the 30 min per-shard watchdog'; a hang is re-run once in isolation before being reported",
                       "ASan red zones: far out-of-bounds reads that land in other live memory are not detected"]
    rc = chk.finish(min_evaluations=10000)
    if rc == 0 and missing:
        print("INCONCLUSIVE: error codes never produced: %s" % missing)
        return 2
    return rc

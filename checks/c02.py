"""C02 — serialization emits valid JSON denoting the tree; parse(serialize(T)) = T; flags only change whitespace."""
import os
import random
import re

from vflib import core, build
from gen.trees import TreeGen, random_path
from oracle import refjson

PID = "C02"
COLOR = re.compile(rb"\x1b\[[0-9;]*m")
FLAGNAMES = [(1, "SPACED"), (2, "PRETTY"), (4, "NOZERO"), (8, "PRETTY_TAB"), (16, "NOSLASHESCAPE"), (32, "COLOR")]


def fname(f):
    return "|".join(n for b, n in FLAGNAMES if f & b) or "PLAIN"


def classify_double_text(t):
    return ("exp" if b"e" in t.lower() else "noexp") + ("+dot" if b"." in t else "")


def check_text(text, flags, expd, value):
    """returns None or (key-suffix, what)"""
    t = COLOR.sub(b"", text) if flags & 32 else text
    if b"\0" in t:
        return "nul-in-text", "serialized text contains a NUL byte"
    try:
        v = refjson.parse(t)
    except refjson.JSONError as e:
        return "invalid-json", "independent parser rejects the text: %s" % e
    d = refjson.dump(v)
    if d != expd:
        a, b = expd.split(), d.split()
        kind = "length"
        for x, y in zip(a, b):
            if x != y:
                kind = "%s-token" % x[0]
                break
        return "wrong-value/" + kind, "text denotes a different value (%s)" % kind
    return None


def _step(v, st):
    return v[int(st[1:])] if st[0] == "i" else v[bytes.fromhex(st[1:])]


def get_at(v, path):
    for st in path:
        v = _step(v, st)
    return v


def set_at(v, path, nv):
    if not path:
        return nv
    par = get_at(v, path[:-1])
    st = path[-1]
    if st[0] == "i":
        par[int(st[1:])] = nv
    else:
        par[bytes.fromhex(st[1:])] = nv
    return v


def shard_fn(shard, nshards, seed, tier, exe, ntrees, ndoubles):
    import sys
    sys.setrecursionlimit(50000)
    rng = random.Random("%d/%d/c02" % (seed, shard))
    sh = core.Shard()
    tg = TreeGen(rng, max_depth=6, budget=30)
    cases, meta = [], {}
    for i in range(ntrees // nshards):
        toks, value = tg.tree()
        if rng.random() < 0.004:
            # "any nesting": the same tree 64..300 containers further down (indentation and closing brackets for every level, under every flag set)
            for _ in range(rng.choice([64, 65, 129, 200, 300])):
                if rng.random() < 0.5:
                    toks, value = ["["] + toks + ["]"], [value]
                else:
                    toks, value = ["{", "k" + b"w".hex()] + toks + ["}"], {b"w": value}
            sh.count("trees.wrapped_in_64_to_300_more_levels")
        cid = "%d.%d" % (shard, i)
        extra = []
        cases_b0 = "B 0 " + " ".join(toks)
        pre = []
        if rng.random() < 0.12 and toks != ["n"]:
            # what is serialized (and mutated below) is a deep copy of the tree that was built; the original is destroyed first
            pre = ["DCOPY 0 1 0", "PUT 0", "ALIAS 1 0"]
            sh.count("trees.deep_copied_before_serializing")
        custom = False
        if rng.random() < 0.05:
            # a node whose serializer calls back into the library (it serializes another tree with the same flags): the text must carry that tree in its place
            path, t = random_path(rng, toks)
            if t[0] not in "nD" and path:
                extra = ["NAV 0 5 " + " ".join(path), "SS 5 0 3"]
                value = set_at(value, path, {b"n": [1, 2.5, b"x"]})
                custom = True
                sh.count("trees.node_with_reentrant_serializer")
        elif rng.random() < 0.12:
            # a node that had a custom serializer for a while and was reset to the default one must serialize like any other node
            path, t = random_path(rng, toks)
            if t[0] not in "nD":
                # (the reset may carry a userdata pointer of the caller's: the default serializers must ignore it)
                extra = ["NAV 0 5 " + " ".join(path), "SS 5 0 1", "SS 5 %d 0" % rng.choice([0, 777, 12345678])]
                sh.count("trees.node_with_serializer_reset.%s" % {"[": "array", "{": "object", "i": "int", "u": "int", "d": "double", "s": "string", "t": "boolean", "f": "boolean"}.get(t[0], t[0]))
        elif rng.random() < 0.2:
            # the tree reaches its value through in-place mutation (set_int/set_double/set_boolean/set_string, array add, object add / delete+re-add):
            # what is serialized is the value it has NOW, whatever the node was created from (a retained number text, a shorter string, ...)
            for _ in range(rng.choice([1, 1, 2, 4])):
                path, t = random_path(rng, toks)
                c0 = t[0]
                nv, cm = None, None
                if c0 in "iu":
                    nv = rng.choice([0, -1, 1 << 53, -(1 << 63), (1 << 63) - 1, rng.getrandbits(62)])
                    cm = ["SET 5 i64 %d" % nv]
                    cur = get_at(value, path)
                    if isinstance(cur, int) and not isinstance(cur, bool) and abs(cur) < (1 << 62) and rng.random() < 0.4:
                        # ... or through json_object_int_inc (another way of changing an integer in place)
                        d = rng.choice([1, -1, 5, -7, 1000])
                        nv, cm = cur + d, ["INC 5 %d" % d]
                        sh.count("trees.integer_incremented_in_place_before_serializing")
                elif c0 in "dD":
                    nv = rng.choice([0.5, -2.0, 1e300, 5e-324, 123456789.125, 0.1, 3.0, 0.0, -0.0])
                    cur = get_at(value, path)
                    if isinstance(cur, float) and rng.random() < 0.6:
                        # a value that compares equal to the old one but is a different double (the other zero), or a neighbour of it
                        nv = -cur if cur == 0.0 else refjson.from_bits(refjson.dbits(cur) ^ 1)
                        if nv != nv or nv in (float("inf"), float("-inf")):
                            nv = 1.5
                    cm = ["SET 5 dbl %016x" % refjson.dbits(nv)]
                elif c0 == "s":
                    nv = bytes(rng.choice(b'ab"\\/\x00\x01\xc3\xa9 z') for _ in range(rng.choice([0, 1, 7, 8, 40, 300])))
                    try:
                        nv.decode("utf-8")
                    except UnicodeDecodeError:
                        nv = nv.replace(b"\xc3", b"c").replace(b"\xa9", b"e")
                    cm = ["SSTR 5 x" + nv.hex()]
                elif c0 in "tf":
                    nv = rng.random() < 0.5
                    cm = ["SET 5 bool %d" % nv]
                elif c0 == "[":
                    cur = get_at(value, path)
                    nv = list(cur) + [424242]
                    cm = ["NEW 9 - int 424242", "AADD 5 9"]
                elif c0 == "{":
                    cur = get_at(value, path)
                    nv = dict(cur)
                    if nv and rng.random() < 0.5:
                        k0 = rng.choice(list(nv))
                        v0 = nv.pop(k0)
                        v0 = 7
                        nv[k0] = v0   # deleted and added again: now the last member
                        cm = ["ODEL 5 x" + k0.hex(), "NEW 9 - int %d" % v0, "OADD 5 x%s 9 0" % k0.hex()]
                    else:
                        nv[b"\x02added"] = 7
                        cm = ["NEW 9 - int 7", "OADD 5 x%s 9 0" % b"\x02added".hex()]
                if cm is None:
                    continue
                extra += ["NAV 0 5 " + " ".join(path)] + cm
                if rng.random() < 0.35:
                    # ... and the application then hangs data of its own on the node it just changed (json_object_set_userdata keeps the node's serializer):
                    # the standard serializers never look at it
                    extra.append("UD 5 %d" % rng.choice([4242, 7, 123456789]))
                    sh.count("trees.userdata_attached_after_in_place_mutation.%s" % {"i": "int", "u": "int", "d": "double", "D": "double_with_retained_text", "s": "string", "t": "boolean", "f": "boolean", "[": "array", "{": "object"}.get(c0, c0))
                value = set_at(value, path, nv)
                sh.count("trees.mutated_in_place_before_serializing")
                break
        warm = []
        if extra and rng.random() < 0.5:
            # the tree (and the node about to be changed) was serialized once BEFORE the change: whatever is cached per object must not survive the mutation
            warm = ["S 0 %d" % rng.randrange(64)]
            if extra[0].startswith("NAV"):
                warm = [extra[0], "S 5 %d" % rng.randrange(64)] + warm
            sh.count("trees.serialized_once_before_the_mutation")
        cases.append((cid, [cases_b0] + pre + warm + extra + ["S64 0", "PUT 0"]))
        meta[cid] = ("tree", toks, value, 1 + len(pre) + len(warm) + len(extra), custom)
    # many single doubles under PLAIN and NOZERO (the trimming logic is shape dependent)
    per = ndoubles // nshards
    tg2 = TreeGen(rng, retained=False)
    for j in range(0, per, 256):
        toks, vals = ["["], []
        for _ in range(256):
            t, v = tg2.double()
            toks += t
            vals.append(v)
        toks.append("]")
        cid = "%d.d%d" % (shard, j)
        # ... and under a custom double format, with and without NOZERO: trimming zeros may change the text, never the value it denotes
        # (e/g conversions only: an f conversion of 1e300 is longer than the 128 bytes json-c formats into and is cut off, by design, mid-number)
        fmt = rng.choice([b"%.3e", b"%e", b"%.17e", b"%.5g", b"%.12g", b"%.0e"])
        cases.append((cid, ["B 0 " + " ".join(toks), "S 0 0", "S 0 4", "S 0 20", "DFMT 0 x" + fmt.hex(), "S 0 0", "S 0 4", "S 0 6", "DFMT 0 -", "PUT 0"]))
        meta[cid] = ("doubles", toks, vals, 1, False)
    results, crashes = core.run_script(exe, cases, tag="c02", env=core.ambient_env(sh, shard))
    cmdmap = dict(cases)
    for cr in crashes:
        kind, frame = cr.summary()
        sh.violation("C02/crash/%s/%s" % (kind, frame), "driver died while serializing (%s)" % kind, {"driver": "jcdrv", "variant": "asan", "script": cmdmap[cr.cid], "stderr": cr.stderr[-3000:]})
    for cid, lines in results.items():
        kind, toks, value, si, custom = meta[cid]
        expd = refjson.dump(value)
        rep = {"driver": "jcdrv", "variant": "asan", "script": cmdmap[cid]}
        if lines[0] != "= ok":
            raise core.Inconclusive("build failed: " + lines[0][:100] + " for " + cmdmap[cid][0][:200])
        if kind == "doubles":
            fl = [l.split() for l in lines[5:8]]
            if all(len(x) > 3 and x[1] != "null" for x in fl):
                sh.evaluations += 2 * 256
                sh.count("double_arrays_under_custom_format_with_and_without_NOZERO")
                try:
                    base = refjson.dump(refjson.parse(bytes.fromhex(fl[0][3][1:])))
                    for k, x in ((4, fl[1]), (6, fl[2])):
                        other = refjson.dump(refjson.parse(bytes.fromhex(x[3][1:])))
                        if other != base:
                            sh.violation("C02/custom-format-NOZERO-changes-value", "under the custom double format %s the text with flags %s denotes other values than the text without NOZERO: %r vs %r" % (
                                cmdmap[cid][4].split()[2], fname(k), bytes.fromhex(x[3][1:])[:120], bytes.fromhex(fl[0][3][1:])[:120]), rep)
                            break
                except refjson.JSONError as e:
                    sh.violation("C02/invalid-json/custom-format", "independent parser rejects the text produced under a custom double format: %s" % e, rep)
            for cmd, ln in zip(cmdmap[cid][1:4], lines[1:4]):
                flags = int(cmd.split()[2])
                f = ln.split()
                sh.evaluations += 256
                if f[1] == "null":
                    sh.violation("C02/serializer-returned-null", "serializer returned NULL", rep)
                    continue
                text = bytes.fromhex(f[3][1:])
                if int(f[1]) != len(text) or int(f[2]) != len(text):
                    sh.violation("C02/length-mismatch", "reported length %s, strlen %s, bytes %d" % (f[1], f[2], len(text)), rep)
                bad = check_text(text, flags, expd, value)
                if bad:
                    # find the offending element for a precise witness
                    wit = ""
                    try:
                        got = refjson.parse(text)
                        for x, y, tk in zip(value, got, text[1:-1].split(b",")):
                            if refjson.dump(x) != refjson.dump(y):
                                wit = "double %r serialized as %r" % (x, tk)
                                shape = classify_double_text(("%.17g" % x).encode())
                                break
                    except Exception:
                        shape = "unparseable"
                        wit = text[:200]
                    sh.violation("C02/%s/%s/double-%s" % (bad[0], "NOZERO" if flags & 4 else "other-flags", shape), "%s under %s: %s" % (bad[1], fname(flags), wit), dict(rep, text=text[:400].decode("latin1")))
                for tk in text[1:-1].split(b",")[:64]:
                    sh.count("double_text_shape." + classify_double_text(tk))
            sh.nontrivial(" ".join(toks))
            continue
        ln = lines[si]
        head, _, tail = ln.partition(" | ")
        texts = [bytes.fromhex(x.split(":", 1)[1]) for x in head.split()[1:]]
        verdict = {}
        for i, tx in enumerate(texts):
            verdict[i] = None
        perflag = {}
        for item in tail.split():
            f, rest = item.split("=")
            idx, bits = rest.split(",")
            perflag[int(f)] = (int(idx), int(bits))
        checked = {}
        for f in range(64):
            idx, bits = perflag[f]
            sh.evaluations += 1
            if idx < 0:
                sh.violation("C02/serializer-returned-null", "serializer returned NULL under %s" % fname(f), rep)
                continue
            text = texts[idx]
            ck = (idx, f & 32)
            if ck not in checked:
                checked[ck] = check_text(text, f, expd, value)
            bad = checked[ck]
            if bad:
                sh.violation("C02/%s/%s" % (bad[0], "NOZERO" if f & 4 else "other-flags"), "%s under %s: %r" % (bad[1], fname(f), text[:160]), dict(rep, flags=f, text=text[:600].decode("latin1"), expected_dump=expd[:600]))
            if not bits & 4:
                sh.violation("C02/length-mismatch", "reported length differs from strlen under %s" % fname(f), dict(rep, flags=f))
            if not bits & 2 and not custom:
                sh.violation("C02/reparse-not-equal/%s" % ("NOZERO" if f & 4 else "other-flags"), "json-c re-parse of its own output is not json_object_equal to the tree (%s): %r" % (fname(f), text[:160]), dict(rep, flags=f))
            elif not bits & 1 and not custom:
                sh.violation("C02/reserialize-differs/%s" % ("NOZERO" if f & 4 else "other-flags"), "re-serializing the re-parsed tree gives different bytes (%s): %r" % (fname(f), text[:160]), dict(rep, flags=f))
        sh.count("distinct_texts_per_tree_sum", len(texts))
        sh.nontrivial(" ".join(toks))
        if len(sh.samples) < 2 and 4 < len(toks) < 14:
            sh.samples.append({"tree": " ".join(toks), "plain": texts[perflag[0][0]].decode("latin1"), "pretty|spaced": texts[perflag[3][0]].decode("latin1")})
    for k, v in list(tg.stats.items()) + list(tg2.stats.items()):
        sh.count("gen." + k, v)
    return sh


def run(tier, seed):
    bdir = build.build("asan")
    chk = core.Check(PID, tier, seed)
    ntrees, nd = (16000, 2 ** 19) if tier == "quick" else (100000, 2 ** 21)
    rd = core.record_dir(PID) if tier == "thorough" else None
    sh = core.parallel(shard_fn, seed=seed, tier=tier, exe=bdir + "/jcdrv", ntrees=ntrees, ndoubles=nd)
    chk.absorb(sh)
    if rd:
        os.environ.pop("VF_RECORD_DIR", None)
        core.memcheck_recorded(chk, build.build("plain"), rd)
    chk.rule = ("trees built through the API (strings over all 256 byte values incl. NUL/control/invalid UTF-8, int64 and uint64 representations on the 2^31/2^63/2^64 lattices, doubles from "
                "random finite bit patterns / special values / retained number text, nesting <= 40) serialized under all 64 flag sets: each distinct text is parsed by the independent reference parser "
                "(colour escapes stripped) and must denote the tree; reported length = strlen = byte count; json-c re-parse must be json_object_equal and re-serialize to the same bytes; "
                "plus arrays of 256 single doubles under PLAIN/NOZERO/NOZERO|NOSLASHESCAPE. evaluations = (tree, flag set) pairs + single doubles; distinct = distinct trees")
    chk.assumptions = ["NaN/Infinity are outside the statement (finite doubles)", "CPython float() as the correctly rounded reference for number tokens"]
    return chk.finish(min_evaluations=10000)

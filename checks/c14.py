"""C14 — parse/serialize are locale-independent and leave the caller's locale untouched."""
import os
import random
import re

from vflib import core, build, locale_synth
from gen.docs import DocGen
from gen.trees import TreeGen
from gen.inputs import LenientGen
from checks.c04 import CODE_TABLE

PID = "C14"
CONFIGS = {0: "C", 1: "global xx_XX", 2: "thread xx_XX", 3: "global+thread xx_XX", 4: "C, while the environment (LC_ALL, LANG) names xx_XX"}
MON = re.compile(r"loc_same=(\d) fmt_same=(\d) strtod_same=(\d) loc_live=(-?\d+) created=(\d+) freed=(\d+) foreign=(\d+)")


def shard_fn(shard, nshards, seed, tier, exe, ntexts, ntrees):
    rng = random.Random("%d/%d/c14" % (seed, shard))
    sh = core.Shard()
    dg = DocGen(rng, max_depth=20, budget=20, big_ints=False)
    lg = LenientGen(rng)
    tg = TreeGen(rng, max_depth=4, budget=15)
    texts = []
    for s in CODE_TABLE + [b"[1.5", b"1.5", b"{\"a\":1.25e3,", b"-0.5e-3 "]:
        texts.append((s, rng.choice([0, 1, 0x10]), 4, rng.choice([0, 1])))
    texts.append((b"[1.5]", 0, 0, 3))  # len = -2: size error
    # every error class through several syntactic routes (object member vs array element, nested, after a comma ...)
    for s, d in [(b'{"a":{"b":{"c":{"d":1.5}}}}', 3), (b'[{"a":[{"b":[1.5]}]}]', 3), (b'{"a":[1.5,[2.5,[3.5]]]}', 3), (b'[1.5,{"a":{"b":2.5}}]', 2), (b'{"a":1.5,"b":{"c":{"d":2}}}', 2), (b"[[1.5]]", 1), (b'{"a":1.5}', 1),
                 (b'{"a":1.5,"b"}', 4), (b'{"a":[1.5,}', 4), (b'[1.5,{"a":tru}]', 4), (b'{"a":{"b":nul}}', 4), (b'[{"a":"\\x"}]', 4), (b'{"a":[1.5 2.5]}', 4), (b'[{"a":1.5 "b":2}]', 4), (b'{"a":/x}', 4),
                 (b'{"a":[-]}', 4), (b'[{"a"', 4), (b'{"a":{"b":[1.5', 4), (b'[{1:2}]', 4)]:
        for flags in (0, 1):
            for mode in (0, 1):
                texts.append((s, flags, d, mode))
    from gen.inputs import InputGen
    ig = InputGen(rng, max_len=200)
    for _ in range(ntexts // nshards // 2):
        k, s = ig.next()
        texts.append((s, rng.choice([0, 1, 0x10, 3]), rng.choice([0, 1, 2, 3, 4, 6]), rng.choice([0, 1])))
    for _ in range(ntexts // nshards):
        r = rng.random()
        if r < 0.6:
            # rich in non-integers
            k = rng.choice([1, 3, 8])
            parts = [dg.double()[0] for _ in range(k)]
            t = b"[" + b",".join(parts) + b"]" if rng.random() < 0.7 else b'{"k":' + parts[0] + b"}"
        elif r < 0.8:
            t = dg.document()[0]
        else:
            t = lg.document()
        texts.append((t, rng.choice([0, 0, 1, 0x10, 3]), 0, rng.choice([1, 1, 1, 0, 2])))
    trees = []
    for _ in range(ntrees // nshards):
        toks, _v = tg.tree()
        if rng.random() < 0.6:
            toks = ["["] + [x for _ in range(rng.choice([1, 3])) for x in tg.double()[0]] + ["]"]
        rfmt = None
        if rng.random() < 0.5:
            # the printf grammar at large: literal text around the conversion, flags, width, precision, every floating conversion
            rfmt = (rng.choice(["", "", "x", "<", "v="]) + "%" + "".join(f for f in "-+ #0" if rng.random() < 0.2) + rng.choice(["", "", "1", "8", "12", "25"]) +
                    rng.choice(["", ".0", ".1", ".3", ".17"]) + rng.choice("feEgGf") + rng.choice(["", "", "y", ">", " units"])).encode()
        trees.append((toks, rng.randrange(64), rfmt))
    cases = []
    for cfg in (0, 1, 2, 3, 4):
        cmds = ["LOC %d" % cfg]
        for t, flags, depth, mode in texts:
            if mode == 2 and b"\0" in t:
                mode = 1
            cmds.append("LP %d %d %d x%s" % (flags, depth, mode, t.hex()))
            if len(cmds) % 5 == 0:
                # the same text through a tokener that is older than the locale configuration (created, and every other time used, under "C")
                cmds.append("LPT %d %d %d x%s %d" % (flags, depth, mode, t.hex(), (len(cmds) // 5) % 2))
            if mode == 1 and (len(cmds) % 3) == 0:
                # the same text fed incrementally: numbers straddle calls, every call is monitored
                cmds.append("LPC %d %d %d x%s" % (flags, depth, (1 + (len(cmds) // 3) % 7) * (-1 if (len(cmds) // 3) % 2 and b"\0" not in t else 1), t.hex()))
        if shard == 0:
            cmds.append("LPBIG")   # (2 GiB of text: one shard only)
        for ti, (toks, flags, rfmt) in enumerate(trees):
            if ti % 4 == 3:
                # the tree is OLDER than the locale: built and serialized once while "C" is in effect everywhere, then the configuration is installed, then it is serialized
                cmds += ["LOC 0", "B 0 " + " ".join(toks), "S 0 %d" % flags, "LOC %d" % cfg, "LS 0 %d" % flags]
            else:
                cmds += ["B 0 " + " ".join(toks), "LS 0 %d" % flags]
            k = ti % 6
            fmt = [b"%.3f", b"%.1f", b"%e", b"%.10g", b"%f", b"%.0f"][(ti // 6) % 6] if rfmt is None else rfmt
            if k == 1:      # global custom double format
                cmds += ["DFMT 0 x" + fmt.hex(), "LS 0 %d" % flags, "DFMT 0 -"]
            elif k == 2:    # per-thread custom double format
                cmds += ["DFMT 1 x" + fmt.hex(), "LS 0 %d" % flags, "DFMT 1 -"]
            elif k == 3:    # per-node format through json_object_set_serializer
                cmds += ["SERFMT 0 x" + fmt.hex(), "LS 0 %d" % flags]
            cmds.append("PUT 0")
        cmds.append("LOC 0")
        cases.append(("%d.cfg%d" % (shard, cfg), cmds))
    # the reference (configuration 0) runs in a silent environment; all others run with an ENVIRONMENT that names the comma locale: whoever asks for the locale "" gets it
    amb = core.ambient_env(sh, shard)
    results, crashes = core.run_script(exe, cases[:1], env=dict({"LOCPATH": locale_synth.LOCDIR}, **amb), tag="c14")
    r2, c2 = core.run_script(exe, cases[1:], env=dict({"LOCPATH": locale_synth.LOCDIR, "LC_ALL": "xx_XX", "LANG": "xx_XX"}, **amb), tag="c14")
    results.update(r2)
    crashes += c2
    cmdmap = dict(cases)
    for cr in crashes:
        kind, frame = cr.summary()
        i = min(len(cr.partial), len(cmdmap[cr.cid]) - 1)
        sh.violation("C14/%s/%s" % (kind, frame), "crash (%s) at %s under %s" % (kind, cmdmap[cr.cid][i][:100], cr.cid), {"driver": "jcdrv", "variant": "asan", "env": {"LOCPATH": locale_synth.LOCDIR, "LC_ALL": "xx_XX", "LANG": "xx_XX"}, "script": [cmdmap[cr.cid][0], cmdmap[cr.cid][i]], "stderr": cr.stderr[-2500:]})
    base = results.get("%d.cfg0" % shard)
    if base is None:
        raise core.Inconclusive("C-locale reference run did not complete")
    for cfg in (0, 1, 2, 3, 4):
        lines = results.get("%d.cfg%d" % (shard, cfg))
        if lines is None:
            continue
        cmds = cmdmap["%d.cfg%d" % (shard, cfg)]
        exp_fmt = "1.5" if cfg in (0, 4) else "1,5"
        if ("fmt=" + exp_fmt) not in lines[0]:
            raise core.Inconclusive("locale configuration %s not in effect: %s (LOCPATH=%s)" % (CONFIGS[cfg], lines[0], locale_synth.LOCDIR))
        for ci, (cmd, ln, bl) in enumerate(zip(cmds[1:-1], lines[1:-1], base[1:-1]), 1):
            op = cmd.split()[0]
            if op == "LPBIG" and ln.startswith("= nomem"):
                sh.count("text_beyond_INT32_MAX_not_tried_for_lack_of_memory")
                continue
            if op not in ("LP", "LS", "LPC", "LPT", "LPBIG"):
                continue
            sh.evaluations += 1
            pre = []
            if op == "LS":
                j = ci
                while j > 0 and not cmds[j].startswith("B "):
                    j -= 1
                pre = cmds[j:ci]
            rep = {"driver": "jcdrv", "variant": "asan", "env": {"LOCPATH": locale_synth.LOCDIR, "LC_ALL": "xx_XX", "LANG": "xx_XX"}, "script": [cmds[0]] + pre + [cmd], "locale": CONFIGS[cfg]}
            res, _, mon = ln.partition(" | ")
            bres = bl.partition(" | ")[0]
            m = MON.search(mon)
            if not m:
                raise core.Inconclusive("bad monitor line " + ln[:200])
            same, fmt, sd, live, created, freed, foreign = map(int, m.groups())
            key = None
            what = ""
            if op in ("LP", "LPC", "LPT", "LPBIG"):
                err = int(res.split()[1])
                outcome = "outcome-%d" % err
            else:
                outcome = "serialize"
            if res != bres:
                key, what = "result-depends-on-locale/%s" % ("parse" if op == "LP" else "parse-incremental" if op == "LPC" else "parse-with-older-tokener" if op == "LPT" else "serialize"), "under %s: %s ; in the C locale: %s" % (CONFIGS[cfg], res[:160], bres[:160])
            elif not same:
                key, what = "thread-locale-changed/" + outcome, "uselocale(NULL) differs after the call (%s)" % CONFIGS[cfg]
            elif not fmt or not sd:
                key, what = "locale-behaviour-changed/" + outcome, "printf/strtod behave differently after the call (%s)" % CONFIGS[cfg]
            elif live != 0:
                key, what = "locale-object-leaked/" + outcome, "%d locale object(s) created by the call were not released (created %d, freed %d)" % (live, created, freed)
            elif foreign:
                key, what = "foreign-locale-freed/" + outcome, "the call released/consumed a locale object it did not create"
            if key:
                sh.violation("C14/" + key, what + " :: " + cmd[:120], rep)
            sh.count("%s.%s" % (CONFIGS[cfg].replace(" ", "_"), outcome))
            if op == "LPT":
                sh.count("parses_with_a_tokener_older_than_the_locale")
            sh.nontrivial("%d|%s" % (cfg, cmd))
        if lines[-1].split()[1] != "live=0":
            sh.violation("C14/leak", "blocks left under %s: %s" % (CONFIGS[cfg], lines[-1]), {"driver": "jcdrv", "script": cmds[:3]})
    if len(sh.samples) < 1:
        lines = results.get("%d.cfg3" % shard, [])
        cmds = cmdmap["%d.cfg3" % shard]
        sh.samples.append({"locale": CONFIGS[3], "script": [c[:100] for c in cmds[:4]], "replies": [l[:200] for l in lines[:4]]})
    return sh


def run(tier, seed):
    locale_synth.ensure()
    bdir = build.build("asan")
    chk = core.Check(PID, tier, seed)
    os.environ["VF_RECORD_SKIP"] = r"LPBIG"   # (not in the memcheck sample: 2 GiB of text under valgrind)
    rd = core.record_dir(PID) if tier == "thorough" else None
    sh = core.parallel(shard_fn, seed=seed, tier=tier, exe=bdir + "/jcdrv", ntexts=64000 if tier == "quick" else 800000, ntrees=32000 if tier == "quick" else 600000)
    chk.absorb(sh)
    if rd:
        os.environ.pop("VF_RECORD_DIR", None)
        core.memcheck_recorded(chk, build.build("plain"), rd)
    seen = {k for k in chk.merged.counters if ".outcome-" in k}
    missing = []
    for cfg in (1, 2, 3):
        for code in list(range(0, 16)):
            if "%s.outcome-%d" % (CONFIGS[cfg].replace(" ", "_"), code) not in seen:
                missing.append("%s/outcome-%d" % (CONFIGS[cfg], code))
    chk.extra["outcome_classes_not_observed"] = missing
    chk.rule = ("texts rich in non-integers (fractions, exponents, 17+ digits), generated and lenient documents, and a table producing every parser outcome class (success, continue, each error code incl. "
                "size), plus trees with doubles serialized under random flag sets; each run under C, global comma locale, per-thread comma locale and both (synthesised xx_XX: decimal point ','). "
                "Monitors per call: result bytes vs the C-locale run; uselocale(NULL) handle, printf(\"%.1f\") and strtod(\"1,5\") before/after; locale-object ledger (created/consumed/freed/foreign). "
                "evaluations = monitored calls; distinct = distinct (configuration, call)")
    chk.assumptions = ["the comma locale is synthesised offline with localedef from a hand-written charmap (setup)", "LeakSanitizer is off; leak decisions come from the allocation and locale ledgers"]
    rc = chk.finish(min_evaluations=3000)
    if rc == 0 and missing:
        print("INCONCLUSIVE: parser outcome classes never observed under a comma locale: %s" % missing[:10])
        return 2
    return rc

"""C17 — the tree visitor performs the documented traversal for any tree and callback."""
import os
import random
import sys

from vflib import core, build
from oracle import refptr, refvisit
from checks.c12 import gen_tree

PID = "C17"
VALID = [refvisit.CONTINUE, refvisit.SKIP, refvisit.POP, refvisit.STOP]
# invalid codes: small ones and ones that coincide with a valid code in their low 16 bits / after sign or byte truncation
ALIASES = [c + k * 65536 for c in VALID for k in (1, -1, 2, 3, 4, -2, 0x7FFF, 256)] + [c + (1 << b) for c in VALID for b in (8, 15, 20, 24, 30)] + [c | 0x40000000 for c in VALID] + [-c for c in VALID if c] + [c + 256 for c in VALID] + [0xFFFF, 0x10000 - 1 + 0x10000, -65537]
CODES = [refvisit.CONTINUE] * 7 + [refvisit.SKIP, refvisit.POP, refvisit.STOP, refvisit.ERROR, 1, -2, 12345] + [None]


def shard_fn(shard, nshards, seed, tier, exe, npairs):
    sys.setrecursionlimit(100000)
    rng = random.Random("%d/%d/c17" % (seed, shard))
    sh = core.Shard()
    cases, meta = [], {}
    i = 0
    while i < npairs // nshards:
        toks = gen_tree(rng, budget=[rng.choice([1, 4, 10, 25])])
        deep = rng.random() < 0.06
        vdeep = rng.random() < (0.0006 if tier == "quick" else 0.0002)
        if vdeep:
            # nesting in the thousands (the traversal is recursive; any built-in ceiling on the depth it is willing to follow would show here):
            # levels around every power of two from 2^10 to 2^12 and some in between, few siblings so that the call log stays small
            deep = True
            mode = rng.choice(["arrays", "objects", "mixed"])
            nlv = rng.choice([300, 1000, 1023, 1024, 1025, 1500, 2047, 2048, 2049, 2050, 3000, 4095, 4096, 4097, 5000, 6000])
            toks = [rng.choice(["n", "i7", "[ ]", "{ }"])]
            toks = toks[0].split()
            for lvl in range(nlv):
                sib = ["i%d" % lvl] if lvl % 97 == 0 else []
                if mode == "arrays" or (mode == "mixed" and rng.random() < 0.5):
                    toks = ["["] + sib + toks + ["]"]
                else:
                    toks = ["{"] + sum((["k" + b"s".hex(), t] for t in sib), []) + ["k" + b"c".hex()] + toks + ["}"]
            sh.count("trees.nested_300_to_6000_levels." + mode)
            sh.count("trees.nested_levels.%d" % nlv)
        elif deep:
            # nesting far beyond anything the parser would produce (trees are built through the API): 30..150 levels, arrays and objects mixed
            # or pure, with siblings before and after the nested child so that indices and keys differ from level to level
            mode = rng.choice(["arrays", "objects", "mixed"])
            for lvl in range(rng.choice([30, 31, 32, 33, 34, 40, 64, 65, 100, 150])):
                before = ["i%d" % lvl] * rng.choice([0, 1, 2, 3])
                after = ["n"] * rng.choice([0, 0, 1, 2])
                if mode == "arrays" or (mode == "mixed" and rng.random() < 0.5):
                    toks = ["["] + before + toks + after + ["]"]
                else:
                    toks = ["{"] + sum((["k" + (b"b%d" % j).hex(), t] for j, t in enumerate(before)), []) + ["k" + b"child".hex()] + toks + sum((["k" + (b"a%d" % j).hex(), t] for j, t in enumerate(after)), []) + ["}"]
            sh.count("trees.nested_30_to_150_levels." + mode)
        cmds = ["B 0 " + " ".join(toks), "D 0 1"]
        scheds = []
        for _ in range(rng.choice([2, 4, 8])):
            n = rng.choice([0, 1, 2, 5, 12, 30]) if not deep else rng.choice([0, 5, 60, 150, 400])
            if vdeep:
                n = rng.choice([0, 0, nlv - 1, nlv + 2, 2 * nlv, 2 * nlv + 5])
            m = rng.random()
            if m < 0.3:
                sched = [rng.choice(CODES) for _ in range(n)]
                sched = [rng.choice(ALIASES) if c is None else c for c in sched]
            elif m < 0.6:
                # mostly CONTINUE with a single interesting code at a random call
                sched = [0] * n
                if n:
                    sched[rng.randrange(n)] = rng.choice([refvisit.SKIP, refvisit.POP, refvisit.STOP, refvisit.ERROR, 99, rng.choice(ALIASES)])
            else:
                sched = [rng.choice([0, 0, 0, refvisit.SKIP, refvisit.POP]) for _ in range(n)]
            default = rng.choice([0, 0, 0, refvisit.SKIP, refvisit.POP, refvisit.STOP])
            if vdeep and not scheds:
                sched, default = [], 0  # at least one traversal that reaches the innermost node
            scheds.append((sched, default))
            # a fifth of the schedules have callbacks that run a nested json_c_visit on another tree (ending in an error, or normally) before they return
            nest = rng.random() < 0.2
            cmds.append("VISIT 0 %d %s" % (default, " ".join((rng.choice(["N", "M", "", ""]) if nest else "") + str(x) for x in sched)))
            if nest:
                sh.count("schedules_with_nested_visits")
            i += 1
        cmds.append("PUT 0")
        cid = "%d.%d" % (shard, i)
        cases.append((cid, cmds))
        meta[cid] = scheds
    results, crashes = core.run_script(exe, cases, tag="c17", env=core.ambient_env(sh, shard))
    cmdmap = dict(cases)
    for cr in crashes:
        kind, frame = cr.summary()
        sh.violation("C17/%s/%s" % (kind, frame), "crash during a visit (%s)" % kind, {"driver": "jcdrv", "variant": "asan", "script": cmdmap[cr.cid], "stderr": cr.stderr[-2500:]})
    for cid, lines in results.items():
        scheds = meta[cid]
        cmds = cmdmap[cid]
        root = refptr.parse_annotated(lines[1][2:])
        for (sched, default), cmd, ln in zip(scheds, cmds[2:], lines[2:]):
            sh.evaluations += 1
            body, _, trailer = ln[2:].rpartition(" ret=")
            ret = int(trailer.split()[0])
            got = []
            if body != "-":
                for it in body.split(";"):
                    p, fl, pp, w, code = it.split(",")
                    got.append((int(p, 16), int(fl), int(pp, 16), w, int(code)))
            wret, wlog = refvisit.visit(root, sched, default)
            key = None
            if got != wlog:
                # classify by the code returned just before the logs diverge
                j = 0
                while j < min(len(got), len(wlog)) and got[j] == wlog[j]:
                    j += 1
                prev = wlog[j - 1] if j else None
                names = {0: "continue", 7547: "skip", 767: "pop", 7867: "stop", -1: "error"}
                cause = "start" if prev is None else "%s-on-%s-visit" % (names.get(prev[4], "invalid-code"), "second" if prev[1] else "first")
                key, what = "call-sequence/after-%s" % cause, "call #%d differs: got %s, reference %s" % (j, got[j] if j < len(got) else "end", wlog[j] if j < len(wlog) else "end")
            elif ret != wret:
                last = wlog[-1][4] if wlog else 0
                key, what = "return-value", "json_c_visit returned %d, reference says %d (last callback code %d)" % (ret, wret, last)
            if key:
                sh.violation("C17/" + key, what, {"driver": "jcdrv", "variant": "asan", "script": [cmds[0], cmd], "schedule": sched, "default": default})
            for e in wlog:
                sh.count("code.%s.%s" % ({0: "continue", 7547: "skip", 767: "pop", 7867: "stop", -1: "error"}.get(e[4], "invalid"), "second" if e[1] else "first"))
            sh.nontrivial(cmds[0] + cmd)
            if len(sh.samples) < 1 and 3 < len(wlog) < 12:
                sh.samples.append({"tree": cmds[0], "visit": cmd, "reply": ln[:300]})
    return sh


def run(tier, seed):
    bdir = build.build("asan")
    chk = core.Check(PID, tier, seed)
    rd = core.record_dir(PID) if tier == "thorough" else None
    sh = core.parallel(shard_fn, seed=seed, tier=tier, exe=bdir + "/jcdrv", npairs=1200000 if tier == "quick" else 24000000)
    chk.absorb(sh)
    if rd:
        os.environ.pop("VF_RECORD_DIR", None)
        core.memcheck_recorded(chk, build.build("plain"), rd)
    chk.rule = ("(tree, return-code schedule) pairs: trees incl. empty containers, null leaves and members; schedules indexed by call number drawing from CONTINUE/SKIP/POP/STOP/ERROR and invalid codes "
                "(1, -2, 12345, 99), dense or with a single interesting code, with a default code after the schedule ends.  The full callback log (node identity, flags, parent identity, key or index) and "
                "json_c_visit's return value are compared with a reference traversal written from json_visit.h. evaluations = visits; distinct = distinct (tree, schedule)")
    chk.assumptions = ["node identities come from the driver's pointer-annotated dump of the same tree"]
    return chk.finish(min_evaluations=10000)

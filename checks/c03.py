"""C03 — incremental parsing is independent of how the input is split into calls."""
import os
import random
import re

from vflib import core, build
from oracle import refjson
from gen.inputs import InputGen, LITERALS
from gen.labels import labels, REQUIRED

PID = "C03"
WIT = re.compile(r"\| f=(\d+) cuts=([\d,]+) (?:call=(\d+) )?exp=(\S+) got=(\S+)")
STATUS = {0: "success", 1: "continue"}


def kv(line):
    return {m.group(1): int(m.group(2)) for m in re.finditer(r"(\w+)=(-?\d+)(?= |$)", line)}


def shard_fn(shard, nshards, seed, tier, exe, ninputs):
    rng = random.Random("%d/%d/c03" % (seed, shard))
    sh = core.Shard()
    ig = InputGen(rng, max_len=256)
    cases, meta = [], {}
    per = ninputs // nshards
    lits = [l for i, l in enumerate(LITERALS) if i % nshards == shard]
    known = [k for k in core.load_known() if k["property"] == PID and k.get("witness_hex")] if shard == 0 else []
    items = [("listed-witness", bytes.fromhex(k["witness_hex"])) for k in known] + [("literal", l) for l in lits]
    for _ in range(per):
        items.append(ig.next())
    # a few long inputs: tokens far longer than the tokener's scratch buffer, containers across several growth steps
    from gen.docs import DocGen
    bigdg = DocGen(rng, max_depth=20, budget=40, big=True)
    for _ in range(max(1, per // 60)):
        for _try in range(30):
            t, _v = bigdg.document()
            if 300 < len(t) <= 1500:
                items.append(("long", t))
                break
    items.append(("long", b'["' + bytes(rng.choice(b"ab\\\"/ \xc3\xa9") if rng.random() > 0.1 else 0x61 for _ in range(rng.choice([100, 255, 256, 257, 600]))).replace(b'\\"', b"q").replace(b'"', b"'") + b'",' + b"1234567890" * rng.choice([3, 7, 20]) + b"]"))
    # one token far beyond any buffer or limit a tokener might have per CALL: pieces of it arrive in calls that each see only part of it
    hk = (shard + seed) % 8
    big = [b"[" + b"1234567890" * rng.choice([410, 500, 900]) + b"]",
           b"[0." + b"0123456789" * rng.choice([410, 700]) + b"e-5,1]",
           b'["' + b"abcdefghij" * rng.choice([6554, 6600, 7000]) + b'"]',
           b'{"' + b"k234567890" * rng.choice([6554, 6600, 7000]) + b'":1}',
           b"[1/*" + b"c234567890" * rng.choice([500, 6600]) + b"*/,2]",
           b"[1//" + b"c234567890" * rng.choice([500, 6600]) + b"\n,2]",
           b"-" + b"9" * rng.choice([4096, 4097, 5000]) + b" ",
           b'{"a":"' + b"\\u00e9" * rng.choice([700, 11000]) + b'"}'][hk]
    items.append(("huge", big))
    comment_cuts = {}
    # comments and white space AFTER the complete root value (where a call that ends there must still say "more input needed" or "done" consistently)
    for j in range(len(items)):
        kind, s = items[j]
        if kind not in ("stream", "long", "huge", "listed-witness") and 0 < len(s) < 200 and rng.random() < 0.08:
            suf = rng.choice([b"//c\n", b" // trailing comment\n", b" //x", b"/*c*/", b" /* c */ ", b"\n/* a\n b */\n", b" /*", b" /", b"//\n//\n"])
            items[j] = (kind, s + suf)
            sh.count("inputs.with_comment_after_the_root_value")
            # absolute expectation (the split-vs-prefix comparison cannot see this one: both sides end at the same place): when the text before the comment is a
            # complete container or string, a call that ends INSIDE the comment (before its terminator, with no NUL in sight) has to ask for more input
            try:
                v0 = refjson.parse(s)
                ok0 = isinstance(v0, (list, dict, bytes))
            except Exception:
                ok0 = False
            if ok0 and b"\0" not in suf:
                lead = len(suf) - len(suf.lstrip(b" \n"))
                body = suf[lead:]
                if body.startswith(b"//"):
                    end_in = lead + (body.index(b"\n") if b"\n" in body else len(body))
                    inside = range(lead + 1, end_in + 1)
                elif body.startswith(b"/*"):
                    end_in = lead + (body.index(b"*/") + 1 if b"*/" in body else len(body))
                    inside = range(lead + 1, end_in + 1)
                else:
                    inside = range(lead + 1, lead + 2)   # a lone '/'
                comment_cuts[len(items) * 0 + j] = [len(s) + k for k in inside]
    for i, (kind, s) in enumerate(items):
        cid = "%d.%d" % (shard, i)
        sd = rng.getrandbits(32)
        if kind == "stream":
            cmds = ["T 0xff 8 %d x%s" % (sd, s.hex()), "X 0x0f 0 4 %d x%s" % (sd, s.hex())]
        else:
            # every 2-split (n<=256), every 3-split (n<=32), all-1-byte, 8 random partitions, 8 flag sets
            if kind == "huge":
                # 12 random partitions into up to 6 pieces (+ the whole thing in one call) under two flag sets; one-shot references are computed for the cut points only
                cmds = ["X %d 0 12 %d x%s" % (1 << rng.randrange(8) | 1, sd, s.hex())]
            elif kind == "long":
                # every 2-split under two random flag sets + 24 random partitions (nrand < 0 asks for all 2-splits beyond 256 bytes)
                cmds = ["X %d 0 -24 %d x%s" % (1 << rng.randrange(8) | 1, sd, s.hex())]
            else:
                cmds = ["X 0xff 32 8 %d x%s" % (sd, s.hex())]
            if rng.random() < 0.15 or kind in ("literal", "listed-witness"):
                cmds.append("T 0x0f 4 %d x%s" % (sd, s.hex()))
            if rng.random() < 0.15 and kind not in ("long", "huge") and not s.endswith(b"\0") and len(s) < 200:
                # the same input with its terminating NUL as part of the text: every other partition then hands its last piece over as a C string (len = -1)
                cmds.append("X 0x%02x 0 4 %d x%s00" % (rng.choice([0x05, 0x03, 0x11, 0xff]), sd, s.hex()))
        if i in comment_cuts:
            cmds.append("K 0 x%s %s" % (s.hex(), " ".join(str(c) for c in comment_cuts[i])))
        cases.append((cid, cmds))
        meta[cid] = (kind, s)
    cases.append(("%d.hist" % shard, ["Z"]))
    results, crashes = core.run_script(exe, cases, tag="c03", timeout=1800, env=core.ambient_env(sh, shard))
    cmdmap = dict(cases)
    for cr in crashes:
        kind, frame = cr.summary()
        sh.violation("C03/crash/%s/%s" % (kind, frame), "driver died during split checking (%s)" % kind,
                     {"driver": "splitdrv", "variant": "asan", "script": cmdmap[cr.cid], "stderr": cr.stderr[-3000:]})
    for cid, lines in results.items():
        if cid.endswith(".hist"):
            for m in re.finditer(r"(\d+)/(\d+):(\d+)", lines[0]):
                sh.count("boundary_state.%s/%s" % (m.group(1), m.group(2)), int(m.group(3)))
            continue
        kind, s = meta[cid]
        lab = None
        for cmd, ln in zip(cmdmap[cid], lines):
            if not ln.startswith("="):
                raise core.Inconclusive("bad driver line: " + ln[:200])
            if cmd.startswith("K "):
                cuts = [int(x) for x in cmd.split()[3:]]
                for c, r in zip(cuts, ln.split()[1:]):
                    sh.evaluations += 1
                    sh.count("calls_ending_inside_a_comment_after_the_root_value")
                    if int(r.split(",")[0]) != 1:   # json_tokener_continue
                        sh.violation("C03/call-ending-inside-trailing-comment/%s" % STATUS.get(int(r.split(",")[0]), "error"),
                                     "a call on the first %d bytes ends inside the comment that follows the complete root value but reported %s (err,end) instead of asking for more input; input=%r" % (c, r, s[:120]),
                                     {"driver": "splitdrv", "variant": "asan", "script": [cmd], "input": repr(s), "input_hex": s.hex(), "cuts": [c]})
                        break
                continue
            f = kv(ln)
            sh.evaluations += f.get("calls", 0) + f.get("parts", 0)
            sh.count("parse_calls", f.get("calls", 0))
            sh.count("partitions", f.get("parts", 0))
            sh.count("partitions_vacuous_after_non_continue", f.get("vac", 0))
            sh.count("chunk_boundaries_reached_with_continue", f.get("bcont", 0))
            sh.count("partitions_whose_last_piece_was_passed_as_a_C_string_with_len_minus_1", f.get("strlenlast", 0))
            sh.count("empty_pieces_passed_as_NULL_pointer_with_length_0", f.get("nullempty", 0))
            sh.count("stream_values", f.get("vals", 0))
            sh.count("inputs." + kind)
            if f.get("live", 0) != 0:
                sh.violation("C03/leak", "blocks still allocated after all parsers were freed: " + ln[-120:],
                             {"driver": "splitdrv", "variant": "asan", "script": [cmd], "input": repr(s)})
            if f.get("tri", 0):
                sh.violation("C03/outcome-trichotomy", "parse call outcome outside success/continue/error: " + ln[-160:],
                             {"driver": "splitdrv", "variant": "asan", "script": [cmd], "input": repr(s)})
            if f.get("mism", 0):
                if lab is None:
                    lab = labels(s)
                for m in WIT.finditer(ln):
                    flags, cuts, call = int(m.group(1)), [int(x) for x in m.group(2).split(",")], m.group(3)
                    if call is not None:
                        j = int(call)
                        b = cuts[j - 1] if j > 0 else 0
                        where = lab[b] if 0 < b < len(lab) and lab[b] else "unlabelled"
                        e, g = int(m.group(4).split(",")[0]), int(m.group(5).split(",")[0])
                        key = "C03/split@%s/%s-vs-%s" % (where, STATUS.get(e, "error"), STATUS.get(g, "error"))
                        what = "chunks cut at %s (flags 0x%x): call %d gave %s, a fresh parser on the concatenation gives %s" % (cuts, flags, j, m.group(5), m.group(4))
                    else:
                        key = "C03/stream"
                        what = "stream resumed at reported ends differs between one-shot and chunked feeding (cuts %s, flags 0x%x): %s vs %s" % (cuts, flags, m.group(4), m.group(5))
                    sh.violation(key, what + "; input=%r" % s[:120], {"driver": "splitdrv", "variant": "asan", "script": [cmd], "input": repr(s), "input_hex": s.hex(), "cuts": cuts, "flags": flags})
                    break
        if len(s) <= 256 and kind in ("valid", "lenient", "literal", "stream") or kind == "long":
            if lab is None:
                lab = labels(s)
            for l in set(x for x in lab[1:len(s)] if x):
                sh.count("split_inside." + l)
        sh.nontrivial(s)
        if len(sh.samples) < 2 and 10 < len(s) < 80:
            sh.samples.append({"kind": kind, "input": repr(s), "checked": cmdmap[cid][0][:40] + "..."})
    return sh


def run(tier, seed):
    bdir = build.build("asan")
    chk = core.Check(PID, tier, seed)
    ninputs = 9600 if tier == "quick" else 320000
    rd = core.record_dir(PID) if tier == "thorough" else None
    sh = core.parallel(shard_fn, seed=seed, tier=tier, exe=bdir + "/splitdrv", ninputs=ninputs)
    chk.absorb(sh)
    if rd:
        os.environ.pop("VF_RECORD_DIR", None)
        core.memcheck_recorded(chk, build.build("plain"), rd)
    if tier == "thorough":
        fdir = build.build("fuzz")
        chk.absorb(core.run_fuzz(fdir + "/fuzz_split", PID, runs=100000, seed=seed, jobs=16, max_len=96, dict_path="/repo/fuzz/tokener_parse_ex_fuzzer.dict"))
        chk.extra["fuzz"] = "libFuzzer target fuzz_split: every 2-split + all-1-byte partition of each mutated input under all 8 flag sets, 16 jobs x 10^5 runs"
    missing = [r for r in REQUIRED if not sh.counters.get("split_inside." + r)]
    chk.extra["required_split_kinds_missing"] = missing
    chk.rule = ("inputs: generated valid documents, documents using every json-c extension, mutations, literal table, token soup, streams, raw bytes "
                "(<=256 bytes). For each input x 8 flag sets (STRICT/ALLOW_TRAILING_CHARS/VALIDATE_UTF8): fresh one-shot parse of EVERY prefix, then every 2-chunk split, "
                "every 3-chunk split (n<=32), the all-1-byte partition and 8 random partitions (empty chunks allowed) are compared call by call with the one-shot table; "
                "streams are additionally resumed at reported ends. evaluations = parse calls + partitions; distinct = distinct input byte strings")
    chk.assumptions = ["the oracle is the library itself in its trusted one-shot mode on a fresh parser (differential), so no model of JSON is involved",
                       "a chunk that ends inside a multi-byte character under VALIDATE_UTF8 is reported as an error by the first call (pinned by the suite): the premise 'A reported continue' fails and the case is vacuous"]
    rc = chk.finish(min_evaluations=100000)
    if rc == 0 and missing:
        print("INCONCLUSIVE: no split was placed inside: %s" % missing)
        return 2
    return rc

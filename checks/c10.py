"""C10 — numeric accessors and mutators are exact when representable, else saturating."""
import math
import os
import random

from vflib import core, build
from oracle import refnum
from oracle.refjson import dbits, from_bits

PID = "C10"
I64_MIN, I64_MAX, U64_MAX = refnum.I64_MIN, refnum.I64_MAX, refnum.U64_MAX
LAT = [0, 1 << 31, -(1 << 31), 1 << 32, 1 << 53, 1 << 63, -(1 << 63), 1 << 64, (1 << 31) - 1, (1 << 63) - 1]


def rand_int(rng):
    r = rng.random()
    if r < 0.5:
        v = rng.choice(LAT) + rng.randrange(-3, 4)
    elif r < 0.75:
        v = rng.getrandbits(64) - (1 << 63)
    else:
        v = rng.getrandbits(64)
    return max(I64_MIN, min(U64_MAX, v))


def rand_double(rng):
    r = rng.random()
    if r < 0.4:
        base = float(rng.choice(LAT))
        b = dbits(base)
        m = rng.choice([0, 0, 1, -1, 2, -2])
        f = from_bits(b + m) if base != 0 else rng.choice([0.0, -0.0, 5e-324, -5e-324])
        if rng.random() < 0.3:
            f = -f
        return f
    if r < 0.55:
        return rng.choice([0.5, -0.5, 1.5, -1.5, 0.999999, -0.999999, 2147483647.5, -2147483648.5, 2147483646.9, 4294967295.5, 1e19, -1e19, 1e300, -1e300, 2.5e-310,
                           9007199254740993.0, 123.456, -0.0, 0.0])
    if r < 0.65:
        return rng.choice([math.inf, -math.inf, math.nan, -math.nan])
    while True:
        b = rng.getrandbits(64)
        if (b >> 52) & 0x7FF != 0x7FF:
            return from_bits(b)


def rand_numstring(rng):
    r = rng.random()
    if r < 0.45:
        v = rand_int(rng) if rng.random() < 0.7 else rng.choice([10 ** 19, -10 ** 19, 10 ** 25, -(10 ** 30), 1 << 64, (1 << 64) + 1, -(1 << 63) - 1, int("9" * 40)])
        s = str(v)
        if v >= 0 and rng.random() < 0.2:
            s = "+" + s
        if rng.random() < 0.15:
            s = (s[0] if s[0] in "+-" else "") + "0" * rng.choice([1, 2, 7, 20]) + s.lstrip("+-")
        s = rng.choice(["", "", "", " ", "  ", "\t", "\n ", " \t", "\r", "\r\n", "\v", "\f", "\f\r \v"]) + s + rng.choice(["", "", "", " ", "x", "abc", ".5", "e3", "\n"])
        return s.encode()
    if r < 0.55:
        # decimal texts over the whole double range: every exponent decade incl. the subnormal band (1e-308..5e-324), overflow band, %.17g of random doubles
        k = rng.random()
        if k < 0.4:
            s = "%s%d.%se%s%d" % (rng.choice(["", "-", "+"]), rng.randrange(1, 10), "".join(rng.choice("0123456789") for _ in range(rng.choice([0, 1, 5, 16, 25]))),
                                  rng.choice(["", "-", "-", "+"]), rng.choice([0, 1, 15, 22, 23, 300, 306, 307, 308, 309, 310, 315, 320, 322, 323, 324, 325, 330, 400, 4000]))
        elif k < 0.7:
            s = "%.17g" % rand_double(rng)
        else:
            s = ("0." + "0" * rng.choice([0, 5, 22, 300, 307, 310, 320, 323, 330]) + "".join(rng.choice("0123456789") for _ in range(rng.choice([1, 3, 17]))))
        if rng.random() < 0.1:
            s = rng.choice([" ", "\t"]) + s
        if rng.random() < 0.1:
            s += rng.choice([" ", "x", "e", ".", "1.0"])
        return s.encode()
    if r < 0.7:
        s = rng.choice(["1.5", "-2.25", "0.0", "1e3", "1E-3", "123.456e2", ".5", "5.", "-.5e1", "1e308", "1e309", "-1e400", "1e-300", "0.1", "3.0", "-0", "  7.5", "7.5 ", "1.5x", "1e", "1e+"])
        return s.encode()
    if r < 0.9:
        return rng.choice([b"", b" ", b"abc", b"-", b"+", b"--5", b"+-5", b"- 5", b"x12", b"true", b"null", b"12\x0034", b"\x00", b".", b"e5", b"0x", b"\xff"])
    return bytes(rng.choice(b"0123456789 +-.e") for _ in range(rng.randrange(1, 8)))


def rand_node(rng):
    """returns (B tokens, model node)"""
    r = rng.random()
    if r < 0.3:
        v = rand_int(rng)
        tok = ("u%d" % v) if (v > I64_MAX or (v >= 0 and rng.random() < 0.4)) else "i%d" % v
        return [tok], ("int", v)
    if r < 0.6:
        f = rand_double(rng)
        if f == f and abs(f) != math.inf and rng.random() < 0.3:
            # a double that carries its source text (what the parser and json_object_new_double_s create)
            return ["D%016x:%s" % (dbits(f), ("%.17g" % f).encode().hex())], ("double", f)
        return ["d%016x" % dbits(f)], ("double", f)
    if r < 0.88:
        s = rand_numstring(rng)
        return ["s" + s.hex()], ("string", s)
    if r < 0.93:
        b = rng.random() < 0.5
        return ["t" if b else "f"], ("bool", b)
    if r < 0.96:
        return ["n"], ("null", None)
    if r < 0.98:
        return ["[", "i1", "]"] if rng.random() < 0.5 else ["[", "]"], ("array", 0)
    return ["{", "}"], ("object", 0)


def expect_num(node):
    return {"i32": refnum.get_int32(node), "i64": refnum.get_int64(node), "u64": refnum.get_uint64(node), "dbl": refnum.get_double(node), "bool": refnum.get_boolean(node)}


def node_class(node):
    k, p = node
    if k == "int":
        return "int:" + ("neg" if p < 0 else "u64only" if p > I64_MAX else "i64")
    if k == "double":
        if p != p:
            return "double:nan"
        if math.isinf(p):
            return "double:inf"
        a = abs(p)
        return "double:" + ("ge2^64" if a >= 2.0 ** 64 else "ge2^63" if a >= 2.0 ** 63 else "ge2^31" if a >= 2.0 ** 31 else "small") + ("-" if p < 0 else "+")
    if k == "string":
        v = refnum.str_to_ll(p)
        if v is None:
            return "string:nonint"
        return "string:" + ("neg" if v < 0 or p.lstrip(refnum.C_SPACE)[:1] == b"-" else "big" if v > U64_MAX else "int")
    return k


def compare(sh, ln, node, rep, ctx, stale=None):
    f = dict(x.split("=") for x in ln.split()[1:])
    exp = expect_num(node)
    if stale is not None:
        # entered with a stale errno: the values are asserted as always; errno afterwards may be the documented one or what was there before
        exp = {k: ((v[0], set(v[1]) | {stale}) if isinstance(v, tuple) else v) for k, v in exp.items()}
        sh.count("accessor_rounds_entered_with_a_stale_errno")
    cls = node_class(node)
    for acc in ("i32", "i64", "u64"):
        v, e = f[acc].split(",")
        v, e = int(v), int(e)
        ev, ee = exp[acc]
        sh.evaluations += 1
        if v != ev:
            sh.violation("C10/%s/%s/value" % (acc, cls), "%s(%s) returned %d, expected %d%s" % (acc, node[1] if node[0] != "double" else repr(node[1]), v, ev, ctx), rep)
        elif e not in ee:
            sh.violation("C10/%s/%s/errno" % (acc, cls), "%s(%r) errno %d, expected one of %s%s" % (acc, node[1], e, sorted(ee), ctx), rep)
    v, e = f["dbl"].split(",")
    got = from_bits(int(v, 16))
    e = int(e)
    evs, ee = exp["dbl"]
    sh.evaluations += 2
    if evs is not None:
        if not any(dbits(got) == dbits(x) or (got != got and x != x) for x in evs):
            sh.violation("C10/dbl/%s/value" % cls, "get_double(%r) returned %r, expected %r%s" % (node[1], got, evs, ctx), rep)
        elif e not in ee:
            sh.violation("C10/dbl/%s/errno" % cls, "get_double(%r) errno %d, expected one of %s%s" % (node[1], e, sorted(ee), ctx), rep)
    if int(f["bool"]) != exp["bool"]:
        sh.violation("C10/bool/%s/value" % cls, "get_boolean(%r) returned %s, expected %d%s" % (node[1], f["bool"], exp["bool"], ctx), rep)
    sh.count("class." + cls)


def shard_fn(shard, nshards, seed, tier, exe, ncases):
    rng = random.Random("%d/%d/c10" % (seed, shard))
    sh = core.Shard()
    cases, meta = [], {}
    items = []
    if shard == 0:
        for k in core.load_known():
            if k["property"] == PID and k.get("witness_node"):
                items.append(("listed", k["witness_node"]))
    for i in range(ncases // nshards + len(items)):
        cid = "%d.%d" % (shard, i)
        if i < len(items):
            w = items[i][1]
            toks = [w["tok"]]
            node = (w["kind"], from_bits(int(w["tok"][1:], 16)) if w["kind"] == "double" else (int(w["tok"][1:]) if w["kind"] == "int" else bytes.fromhex(w["tok"][1:])))
            ops = [("INC", w["inc"])] if "inc" in w else []
        else:
            toks, node = rand_node(rng)
            ops = []
            for _ in range(rng.choice([0, 1, 1, 2, 3])):
                r = rng.random()
                if r < 0.5:
                    d = rng.choice([1, -1, I64_MAX, I64_MIN, I64_MIN + 1, 0, 5, -5]) if rng.random() < 0.5 else rng.getrandbits(64) - (1 << 63)
                    if rng.random() < 0.3:
                        d = max(I64_MIN, min(I64_MAX, rng.choice(LAT) + rng.randrange(-2, 3)))
                    ops.append(("INC", d))
                elif r < 0.65:
                    ops.append(("SET", "i64", max(I64_MIN, min(I64_MAX, rand_int(rng)))))
                elif r < 0.8:
                    ops.append(("SET", "u64", max(0, rand_int(rng))))
                elif r < 0.87:
                    ops.append(("SET", "i32", rng.choice([0, 1, -1, (1 << 31) - 1, -(1 << 31), rng.randrange(-(1 << 31), 1 << 31)])))
                elif r < 0.96:
                    ops.append(("SET", "dbl", rand_double(rng)))
                else:
                    ops.append(("SET", "bool", rng.randrange(2)))
        pre = []
        if node[0] == "string" and rng.random() < 0.4:
            # the text arrives through set_string on an existing node (shorter, longer or equal previous contents: inline and separately allocated storage)
            first = rng.choice([b"", b"7", b"x" * 7, b"y" * 8, b"z" * 40, node[1] + b"0", node[1][:-1]])
            toks = ["s" + first.hex()]
            pre = [("SSTRZ" if b"\0" not in node[1] and rng.random() < 0.3 else "SSTR") + " 0 x" + node[1].hex()]
            sh.count("string_nodes_set_after_creation." + ("grown" if len(node[1]) > len(first) else "shrunk_or_same"))
        if node[0] == "double" and node[1] == node[1] and rng.random() < 0.3:
            # first mutation: a value that compares equal to the current one but is another double (the other zero), or its neighbour
            ops.insert(0, ("SET", "dbl", -node[1] if node[1] == 0 else from_bits(dbits(node[1]) ^ 1)))
        cmds = ["B 0 " + " ".join(toks)] + pre + ["NUM 0"]
        for op in ops:
            if op[0] == "INC":
                cmds.append("INC 0 %d" % op[1])
            elif op[1] == "dbl":
                cmds.append("SET 0 dbl %016x" % dbits(op[2]))
            else:
                cmds.append("SET 0 %s %d" % (op[1], op[2]))
            cmds.append("NUM 0")
        stale = rng.choice([34, 34, 22, 12]) if rng.random() < 0.25 else None
        if stale is not None:
            cmds.append("NUMS 0 %d" % stale)
        cmds.append("PUT 0")
        cases.append((cid, cmds))
        meta[cid] = (toks, node, ops, len(pre), stale)
    results, crashes = core.run_script(exe, cases, tag="c10")
    cmdmap = dict(cases)
    for cr in crashes:
        kind, frame = cr.summary()
        toks, node, ops, npre, _st = meta[cr.cid]
        sh.violation("C10/%s/%s" % (kind, frame), "undefined operation / crash in an accessor: %s in %s on node %s ops %s (died in command #%d: %s)" % (
            kind, frame, toks, ops, len(cr.partial), cmdmap[cr.cid][min(len(cr.partial), len(cmdmap[cr.cid]) - 1)]),
                     {"driver": "jcdrv", "variant": "asan", "script": cmdmap[cr.cid], "stderr": cr.stderr[-2500:]})
    for cid, lines in results.items():
        toks, node, ops, npre, stale = meta[cid]
        rep = {"driver": "jcdrv", "variant": "asan", "script": cmdmap[cid]}
        compare(sh, lines[1 + npre], node, rep, "")
        li = 2 + npre
        for op in ops:
            ret = int(lines[li].split()[1])
            k, p = node
            ctx = " after %s on %r" % (op, node)
            if op[0] == "INC":
                if k == "int":
                    node = ("int", refnum.int_inc(p, op[1]))
                    sh.count("inc." + ("saturate_low" if p + op[1] < I64_MIN else "saturate_high" if p + op[1] > U64_MAX else "to_unsigned" if p <= I64_MAX < p + op[1] else "to_signed" if p > I64_MAX >= p + op[1] else "plain"))
                want = 1 if k == "int" else 0
            else:
                target = {"i32": "int", "i64": "int", "u64": "int", "dbl": "double", "bool": "bool"}[op[1]]
                want = 1 if k == target else 0
                if want:
                    node = (target, bool(op[2]) if target == "bool" else op[2])
            if ret != want:
                sh.violation("C10/mutator-return/%s/%s" % (op[0], k), "%s on a %s node returned %d, expected %d" % (op[:2], k, ret, want), rep)
            compare(sh, lines[li + 1], node, rep, ctx)
            li += 2
        if stale is not None:
            compare(sh, lines[li], node, rep, " (getters entered with errno %d)" % stale, stale=stale)
        sh.nontrivial(" ".join(cmdmap[cid]))
        if len(sh.samples) < 2 and ops:
            sh.samples.append({"script": cmdmap[cid], "results": lines[:len(cmdmap[cid])]})
    return sh


def run(tier, seed):
    from oracle import selftest_more
    selftest_more.test_refnum()
    bdir = build.build("asan")
    chk = core.Check(PID, tier, seed)
    rd = core.record_dir(PID) if tier == "thorough" else None
    sh = core.parallel(shard_fn, seed=seed, tier=tier, exe=bdir + "/jcdrv", ncases=800000 if tier == "quick" else 24000000)
    chk.absorb(sh)
    if rd:
        os.environ.pop("VF_RECORD_DIR", None)
        core.memcheck_recorded(chk, build.build("plain"), rd)
    chk.rule = ("nodes of every kind with values on the 0/2^31/2^32/2^53/2^63/2^64 lattices (+-3, +-ulps for doubles), random 64-bit patterns, inf/NaN/subnormals, numeric-looking and non-numeric strings; "
                "all five getters (value + errno) compared with exact-arithmetic tables after construction and after every set_*/int_inc step; any UBSan report (float-cast-overflow, signed overflow, negation) "
                "aborts the case and is a violation. evaluations = (node state, accessor) pairs; distinct = distinct scripts")
    chk.assumptions = ["not asserted (documentation silent or contradictory): errno for doubles strictly between INT32_MAX and INT32_MAX+1 (and the negative mirror, and -1<d<0 for uint64); "
                       "errno of get_uint64 on negative numeric strings (value must be 0); get_double of strings that overflow (0.0 or inf, errno ERANGE) or underflow; get_double on arrays/objects; "
                       "strings use the decimal sub-language or are clearly non-numeric (no hex/inf/nan spellings)"]
    return chk.finish(min_evaluations=50000)

"""C08 — one allocation failure gives a clean failure: no leak, crash or corruption (fault enumeration)."""
import json
import os
import random
import re
import subprocess

from vflib import core, build, locale_synth

PID = "C08"
ALLOC_RE = re.compile(r"\b(malloc|calloc|realloc|strdup|vasprintf|newlocale|duplocale)\s*\(")


def symbolize(exe, addrs):
    addrs = sorted(a for a in addrs if a and a != "0")
    if not addrs:
        return {}
    r = subprocess.run(["addr2line", "-f", "-e", exe] + ["0x" + a for a in addrs], stdout=subprocess.PIPE, text=True)
    lines = r.stdout.split("\n")
    out = {}
    for i, a in enumerate(addrs):
        fn = lines[2 * i] if 2 * i < len(lines) else "?"
        loc = lines[2 * i + 1].split(" ")[0] if 2 * i + 1 < len(lines) else "?"
        out[a] = (fn, os.path.basename(loc))
    return out


_SRC = {}


def source_line(loc):
    """'json_object.c:478' -> the text of that line in the tree under test, blanks squeezed (names a call site without depending on line numbers)"""
    try:
        fn, ln = loc.rsplit(":", 1)
        if fn not in _SRC:
            _SRC[fn] = open(os.path.join(build.REPO, fn), errors="replace").read().split("\n")
        return " ".join(_SRC[fn][int(ln) - 1].split())
    except (OSError, ValueError, IndexError):
        return "?"


def source_sites():
    cfg = build.configure(False)
    srcs = json.load(open(os.path.join(cfg, "srcs.json")))["sources"]
    sites = set()
    for s in srcs:
        try:
            for i, ln in enumerate(open(s, errors="replace"), 1):
                code = ln.split("//")[0]
                if ALLOC_RE.search(code) and not code.lstrip().startswith(("*", "/*", "#")):
                    sites.add("%s:%d" % (os.path.basename(s), i))
        except OSError:
            pass
    return sites


def shard_fn(shard, nshards, seed, tier, exe, workloads, ndouble):
    rng = random.Random("%d/%d/c08" % (seed, shard))
    sh = core.Shard()
    mine = [w for w in range(len(workloads)) if w % nshards == shard]
    queue = [(w, 1, 0, 0) for w in mine]
    # sampled double faults
    for _ in range(ndouble // nshards):
        w = rng.randrange(len(workloads))
        queue.append((w, rng.randrange(1, 40), -1, rng.randrange(1, 12)))
    if tier == "thorough":
        # every pair (k, k+d), d = 1..12, for every workload: the second failure hits the error path taken after the first
        for w in mine:
            for d in range(1, 13):
                queue.append((w, 1, 0, d))
    facts = []       # (w, k, fired, site, kind, out, verdict)
    allocs = {}
    crashes_per_w = {}
    rounds = 0
    while queue and rounds < 40:
        rounds += 1
        cases = []
        for (w, k0, k1, k2) in queue:
            cases.append(("w%d.%d.%d.%s" % (w, k0, k2, "p" if k1 == -1 else "r"), ["W %d %d %d %d" % (w, k0, k0 if k1 == -1 else 0, k2)]))
        queue = []
        results, crashes = core.run_script(exe, cases, env={"LOCPATH": locale_synth.LOCDIR}, tag="c08", timeout=1200)
        cmdmap = dict(cases)
        for cid, lines in list(results.items()) + [(cr.cid, cr.partial) for cr in crashes]:
            for ln in lines:
                if ln.startswith("R "):
                    f = ln.split()
                    allocs[int(f[1])] = int(f[4].split("=")[1])
                    if "refbad=" in ln:
                        raise core.Inconclusive("fault-free reference run of %s is not clean: %s" % (f[2], ln))
                elif ln.startswith("! "):
                    raise core.Inconclusive("faultdrv: " + ln)
                elif ln.startswith("F "):
                    f = ln.split()
                    d = dict(x.split("=", 1) for x in f[3:])
                    facts.append((int(f[1]), int(f[2]), int(d["fired"]), d["site"], d["kind"], d["out"], d["v"], cid.split(".")[2] == "0", int(cid.split(".")[2]), d.get("stack", "-")))
        for cr in crashes:
            kind, frame = cr.summary()
            ks = [ln.split() for ln in cr.partial if ln.startswith("K ")]
            w = int(cr.cid[1:].split(".")[0])
            k = int(ks[-1][2]) if ks else int(cr.cid.split(".")[1])
            cat = workloads[w][1]
            sh.violation("C08/%s/%s/%s" % ("hang" if cr.kind == "hang" else "crash", kind, frame),
                         "%s with allocation #%d failed: %s in %s" % (workloads[w][0], k, kind, frame),
                         {"driver": "faultdrv", "variant": "asan", "env": {"LOCPATH": locale_synth.LOCDIR}, "script": ["W %d %d %d %d" % (w, k, k, int(cr.cid.split(".")[2]))], "stderr": cr.stderr[-3000:], "workload": workloads[w][0], "fault_index": k})
            sh.count("fault_points_crashed")
            crashes_per_w[w] = crashes_per_w.get(w, 0) + 1
            if cr.cid.endswith(".r") and crashes_per_w[w] <= 10:
                queue.append((w, k + 1, 0, int(cr.cid.split(".")[2])))
    bad_stacks = {a for f in facts if f[6] != "ok" and f[9] != "-" for a in f[9].split(",")}
    sites = symbolize(exe, {f[3] for f in facts} | {m.group(1) for f in facts for m in [re.search(r"site-([0-9a-f]+)", f[6])] if m})
    # return addresses of the failed allocation's callers; address-1 lies inside the call instruction, so the line is the call's own
    back = symbolize(exe, {"%x" % (int(a, 16) - 1) for a in bad_stacks if a not in ("", "0")})
    calls = {a: back.get("%x" % (int(a, 16) - 1), ("?", "?")) for a in bad_stacks if a not in ("", "0")}
    for (w, k, fired, site, akind, outc, v, single, k2off, stack) in facts:
        name, cat = workloads[w]
        sh.evaluations += 1
        fn, loc = sites.get(site, ("?", "?"))
        if fired:
            sh.count("site.%s@%s.%s" % (fn, loc, "reported_failure" if outc == "failure" else "completed_normally"))
        else:
            sh.count("fault_points_beyond_last_allocation")
        sh.count("category.%s" % cat)
        sh.nontrivial("%s/%d/%d" % (name, k, k2off))
        sh.count("fault_points.single" if single else "fault_points.double")
        if v != "ok":
            facet = v.split(":")[0]
            detail = ""
            m = re.search(r"site-([0-9a-f]+)", v)
            if m:
                detail = "/allocated-in-%s" % sites.get(m.group(1), ("?",))[0]
            if facet == "wrong-result":
                detail = "/" + v.split(":")[1]
            key = "C08/%s/%s%s/fault-in-%s" % (cat, facet, detail, fn)
            if cat.startswith("serialize") and facet == "wrong-result" and fn == "printbuf_extend":
                # the listed finding, identified by exactly this shape: a serializer returned text although growing its
                # print buffer failed.  Any other facet (leak, crash, changed caller object) or any other fault site keeps its own key.
                # ... and by the function that asked the print buffer to grow and went on regardless (first frame outside printbuf.c): a serializer that
                # is not on the list is a new violation
                consumer = "?"
                for a in (stack.split(",") if stack != "-" else []):
                    fn2, loc2 = calls.get(a, ("?", "?"))
                    if not loc2.startswith("printbuf.") and not fn2.startswith(("printbuf_", "sprintbuf", "vf_")):
                        consumer = "%s: %s" % (fn2, source_line(loc2))
                        break
                key = "C08/serializer-ignores-printbuf-failure/" + consumer
            sh.violation(key, "%s with allocation #%d (%s at %s %s) failed: %s" % (name, k, akind, fn, loc, v),
                         {"driver": "faultdrv", "variant": "asan", "env": {"LOCPATH": locale_synth.LOCDIR}, "script": ["W %d %d %d %d" % (w, k, k, k2off)], "workload": name, "fault_index": k, "fault_site": "%s %s" % (fn, loc), "verdict": v})
        if len(sh.samples) < 2 and fired and k > 3:
            sh.samples.append({"workload": name, "failed_allocation": k, "site": "%s (%s) at %s" % (fn, akind, loc), "outcome": outc, "verdict": v})
    for w, n in allocs.items():
        sh.count("workloads_enumerated")
        sh.count("allocations_in_fault_free_runs", n)
    return sh


def run(tier, seed):
    bdir = build.build("asan")
    locale_synth.ensure()
    exe = bdir + "/faultdrv"
    chk = core.Check(PID, tier, seed, level="fault_enumeration")
    res, cr = core.run_script(exe, [("list", ["L"])], tag="c08l")
    if cr or "list" not in res:
        raise core.Inconclusive("cannot list workloads")
    workloads = [tuple(x.split(":")) for x in res["list"][0].split()[2:]]
    sh = core.parallel(shard_fn, seed=seed, tier=tier, exe=exe, workloads=workloads, ndouble=3200 if tier == "quick" else 20000)
    chk.absorb(sh)
    covered = set()
    for k in chk.merged.counters:
        m = re.match(r"site\.(.+)@(.+?)\.(reported_failure|completed_normally)$", k)
        if m:
            covered.add(m.group(2))
    src = source_sites()
    chk.extra["allocation_sites_in_source"] = len(src)
    chk.extra["allocation_sites_failed_at_least_once"] = sorted(covered)
    chk.extra["allocation_sites_never_failed"] = sorted(s for s in src if s not in covered)
    chk.exhaustive = True
    chk.extra["exhaustive_note"] = "every allocation index of every workload in the corpus was failed in turn (complete for the corpus, not for the library)"
    chk.rule = ("corpus of %d workloads (parse of documents exercising every token kind and container growth incl. chunked feeding; constructors; object add at each resize boundary; array add/put/insert at each "
                "doubling; set_string growth; deep copy; serialization under 7 flag sets across several printbuf doublings; sprintbuf/printbuf; pointer get/set(f); patch per op kind in place and copy_from; "
                "fd read/write; double format; linkhash inserts). For each: fault-free reference run, then allocation k failed for EVERY k, plus sampled double faults. Oracle: result equals the reference or the "
                "documented failure value; ledger back to baseline; caller-owned objects dump-identical and their final put frees them; continued use of touched state under ASan. "
                "evaluations = fault points; distinct = distinct (workload, k)" % len(workloads))
    chk.assumptions = ["locale-object creation counts as an allocation", "json_patch_apply in place: the base document after an out-of-memory failure is not required to be unchanged (it is the operand), only valid"]
    return chk.finish(min_evaluations=1000)

"""C19 — the print buffer holds exactly what was written, NUL-terminated, in bounds."""
import os
import random
import zlib

from vflib import core, build

PID = "C19"
INT_MAX = (1 << 31) - 1
EFBIG = 27
LITS = [b"", b"a", b"null", b"0123456789abcdefghijklmnopqrstuvwxyzABCDEFGHIJKLMNOPQRSTUVWXYZ"]


def pattern(n, seed, alpha):
    # period 256 (7 is odd): build one period, repeat
    if alpha:
        base = bytes(97 + ((seed + i * 7) & 0xFF) % 26 for i in range(256))
    else:
        base = bytes((seed + i * 7) & 0xFF for i in range(256))
    return (base * (n // 256 + 1))[:n]


def gen_history(rng, nops):
    ops = ["PB new"]
    if rng.random() < 0.03:
        # large-buffer phase: capacity beyond 64 KiB, then single requests between 1x and 3x the current capacity
        first = rng.choice([66000, 70000, 100000])
        ops.append("PB app a %d %d" % (first, rng.getrandbits(16)))
        for _ in range(rng.choice([1, 2, 3])):
            ops.append("PB app a %d %d" % (rng.choice([100000, 120000, 180000, 250000, 400000]), rng.getrandbits(16)))
            ops.append(rng.choice(["PB set b 5 65 la 150000", "PB fmt a 90000 7", "PB app a 3 9"]))
        nops = 6
    elif rng.random() < 0.004:
        # 1-4 MiB phase
        first = rng.choice([1 << 20, (1 << 20) - 9, (1 << 20) + 1, 1050000, 1500000, 2 << 20, 3000000, 4 << 20])
        ops.append("PB app a %d %d" % (first, rng.getrandbits(16)))
        ops.append(rng.choice(["PB reset", "PB app a 3 9", "PB app a 500000 4"]))
        nops = 3
    elif rng.random() < 0.0012:
        # huge-buffer phase: capacity of 8 MiB and more, then single requests of 1.2x .. 2.5x the capacity
        first = rng.choice([8 << 20, (8 << 20) + 5, 9000000, 12000000])
        ops.append("PB app a %d %d" % (first, rng.getrandbits(16)))
        if rng.random() < 0.5:
            ops.append("PB app a %d %d" % (int(first * rng.choice([1.2, 1.5, 1.6, 1.9, 2.5])), rng.getrandbits(16)))
            ops.append(rng.choice(["PB set b 5 65 la 3000000", "PB fmt a 90000 7", "PB app a 3 9"]))
            ops.append("HUGE-DONE")
        nops = 3
    if ops[-1] == "HUGE-DONE":
        ops.pop()
    elif len(ops) > 1:
        # requests sized as a fraction of the (large) capacity: just over it, around 1.5x, just under / at / over 2x, well beyond -- whatever growth policy is in
        # force for big buffers, the result must hold what was asked for
        mult = 1.0
        for _ in range(rng.choice([1, 2, 3]) if first < (1 << 20) else 1):
            if mult > 3.0:
                break   # (fractions of the capacity compound: keep the buffer, and the byte-array model, in the tens of megabytes)
            pm = rng.choice([1001, 1010, 1100, 1250, 1400, 1499, 1500, 1501, 1510, 1600, 1750, 1900, 1990, 1999, 2000, 2001, 2100, 2600])
            mult *= pm / 1000.0
            k = rng.random()
            if k < 0.2:
                ops.append("PB reset")
            elif k < 0.4:
                ops.append("PB app a %d 3" % rng.choice([1, 100, 5000]))
            ops.append(rng.choice(["PB app p %d %d", "PB app p %d %d", "PB fmt p %d %d", "PB fast p %d %d", "PB fastu p %d %d"]) % (pm, rng.getrandbits(16)) if rng.random() < 0.8 else "PB set %s 0 66 lp %d" % (rng.choice("mb"), pm))
        ops.append("PB app a 3 9")
    for _ in range(nops):
        r = rng.random()
        seed = rng.getrandbits(16)
        if r < 0.015:
            # a fill that ends exactly at the capacity (bpos == size, nothing behind it), then an append through the macro with an unsigned length
            ops.append("PB set %s 0 67 lr 0" % rng.choice("mb"))
            ops.append("PB fastu a %d %d" % (rng.choice([0, 1, 2, 5, 31, 200]), seed))
        elif r < 0.28:
            if rng.random() < 0.55:
                ops.append("PB app r %d %d" % (rng.choice([-3, -2, -1, 0, 1, 2, 3, 9]), seed))
            else:
                ops.append("PB app a %d %d" % (rng.choice([0, 0, 1, 2, 7, 8, 9, 30, 31, 32, 33, 63, 64, 65, 127, 128, 129, 1000, 5000 if rng.random() < 0.1 else 17]), seed))
        elif r < 0.36:
            fk = rng.choice(["fast", "fast", "fastu"])
            ops.append("PB %s r %d %d" % (fk, rng.choice([-6, -4, -3, -2]), seed) if rng.random() < 0.5 else "PB %s a %d %d" % (fk, rng.choice([0, 1, 5, 6, 31, 40, 200]), seed))
        elif r < 0.44:
            ops.append("PB str %d" % rng.randrange(4))
        elif r < 0.64:
            om = rng.choice("abbsm")
            arg = {"a": rng.choice([0, 0, 1, 5, 31, 32, 33, 100]), "b": rng.choice([-5, -1, 0, 0, 1, 4, 40]), "s": rng.choice([-2, -1, 0, 1, 8, 50]), "m": 0}[om]
            if rng.random() < 0.5:
                ln = "la %d" % rng.choice([0, 1, 2, 8, 31, 32, 33, 64, 200, 2000])
            else:
                ln = "lr %d" % rng.choice([-2, -1, 0, 1, 2, 9])
            ops.append("PB set %s %d %d %s" % (om, arg, rng.choice([0, 32, 65, 255, 0x141]), ln))
        elif r < 0.80:
            if rng.random() < 0.5:
                ops.append("PB fmt r %d %d" % (rng.choice([-3, -2, -1, 0, 1, 2]), seed))
            else:
                ops.append("PB fmt a %d %d" % (rng.choice([0, 1, 2, 126, 127, 128, 129, 130, 1000, 1000, 70000 if rng.random() < 0.02 else 300]), seed))
        elif r < 0.82:
            ops.append("PB fmtd %d" % rng.choice([0, -1, 2147483647, -2147483648, 12345]))
        elif r < 0.83:
            ops.append("PB fmtc %d %d %d" % (rng.choice([0, 1, 5, 60, 126]), rng.choice([0, 1, 7, 62, 64, 65, 200]), seed))
        elif r < 0.85:
            ops += ["PB app a 0 1", "PB fmts"] if rng.random() < 0.5 else ["PB app a 0 1", "PB fmts1 %d" % rng.choice([0, 0, 1, 5, 40])]   # the buffer formatted into itself (the empty append makes sure it is terminated)
        elif r < 0.90:
            ops.append("PB reset")
        else:
            # must-refuse arguments: tiny source block, the call must fail before touching it
            k = rng.random()
            if k < 0.35:
                ops.append("PB appx %d 1" % rng.choice([-1, -2, -2147483648, -100]))
            elif k < 0.7:
                ops.append("PB appxr %d" % rng.choice([-1, 0]))   # size = INT_MAX - bpos + delta (filled in by the model below)
            elif k < 0.85:
                ops.append("PB set a %d 65 la %d" % (rng.choice([-2, -3, -2147483648]), rng.choice([0, 1, 5])))
            elif k < 0.93:
                ops.append("PB set %s %d 65 la %d" % (rng.choice(["a", "b"]), rng.choice([1, 10, 100]), rng.choice([-1, -5, INT_MAX, -2147483648])))
            else:
                # offset beyond the contents and offset+len just inside INT_MAX: passes the argument check, must be refused when the buffer would have to grow
                off = rng.choice([40, 100, 5000])
                ops.append("PB set a %d 65 la %d" % (off, INT_MAX - off - rng.choice([0, 1, 3, 7])))
    if any(o.startswith("PB app a") and int(o.split()[3]) >= 66000 for o in ops[:3]):
        # big-buffer histories: no self-formatting afterwards (it doubles tens of megabytes; the byte-array model is kept below 64 MiB)
        ops = [o for o in ops if not o.startswith("PB fmts")]
    if rng.random() < 0.35:
        # an allocation failure inside one operation (realloc in printbuf_extend, vasprintf in sprintbuf's long path): the operation
        # must fail with the buffer exactly as it was, still terminated
        out = []
        for o in ops:
            f = o.split()
            if len(f) > 2 and f[1] in ("app", "fmt", "set", "str", "fmtc") and not (f[1] == "app" and int(f[3]) > 4000000) and f[2] != "p" and not (f[1] == "set" and f[5] == "lp") and rng.random() < 0.15:
                out += ["FAILNEXT %d" % rng.choice([1, 1, 2]), o, "FAILNEXT 0"]   # (the second allocation of sprintbuf's long path is the buffer growth)
            else:
                out.append(o)
        ops = out
    return ops


def shard_fn(shard, nshards, seed, tier, exe, nhist):
    rng = random.Random("%d/%d/c19" % (seed, shard))
    sh = core.Shard()
    cases = []
    for i in range(nhist // nshards):
        ops = gen_history(rng, rng.choice([10, 30, 60, 60]))
        # "appxr d": size must be INT_MAX - bpos + d; bpos is only known to the model, so resolve it by simulation of sizes:
        # the driver reports n for relative ops, so a two-pass scheme would be needed; instead use a reset right before (bpos = 0)
        out = []
        for o in ops:
            if o.startswith("PB appxr"):
                d = int(o.split()[2])
                out.append("PB reset")
                out.append("PB appx %d 1" % (INT_MAX + d))
            else:
                out.append(o)
        cases.append(("%d.%d" % (shard, i), out))
    results, crashes = core.run_script(exe, cases, tag="c19", env=core.ambient_env(sh, shard))
    cmdmap = dict(cases)
    if shard == 0:
        # one buffer taken to the edge of INT_MAX (2 GiB of real memory): the driver checks itself step by step (see PBGIANT in jcdrv.c)
        gres, gcr = core.run_script(exe, [("giant", ["PBGIANT"])], tag="c19g", timeout=600)
        sh.evaluations += 9
        for cr in gcr:
            kind, frame = cr.summary()
            sh.violation("C19/giant-buffer/%s/%s" % (kind, frame), "memory error / undefined operation while a print buffer grows towards INT_MAX (%s)" % kind, {"driver": "jcdrv", "variant": "asan", "script": ["PBGIANT"], "stderr": cr.stderr[-2500:]})
        for ln in gres.get("giant", [])[:1]:
            if ln.startswith("= ok"):
                sh.count("giant_buffer.all_steps_held")
                sh.count("giant_buffer.last_small_append_" + ("accepted" if "last_append=50" in ln else "refused"))
            elif ln.startswith("= nomem"):
                sh.count("giant_buffer.not_enough_memory_inconclusive")
            else:
                sh.violation("C19/giant-buffer/" + ln[6:].split(":")[0].replace(" ", "-"), "print buffer near INT_MAX: " + ln[2:], {"driver": "jcdrv", "variant": "asan", "script": ["PBGIANT"]})
    for cr in crashes:
        kind, frame = cr.summary()
        i = min(len(cr.partial), len(cmdmap[cr.cid]) - 1)
        opk = " ".join(cmdmap[cr.cid][i].split()[:2])
        sh.violation("C19/%s/%s/%s" % (kind, frame, opk), "memory error in a print-buffer operation (%s) at command #%d %s" % (kind, i, cmdmap[cr.cid][i]),
                     {"driver": "jcdrv", "variant": "asan", "script": cmdmap[cr.cid], "stderr": cr.stderr[-2500:]})
    for cid, lines in results.items():
        cmds = cmdmap[cid]
        model = bytearray()
        rep = {"driver": "jcdrv", "variant": "asan", "script": cmds}
        prev_size = 0
        armed, pending, was_term = False, None, False
        for ci, (cmd, ln) in enumerate(zip(cmds, lines)):
            if cmd.startswith("FAILNEXT"):
                if not cmd.endswith(" 0"):
                    armed = True
                else:
                    armed = False
                    fired = int(ln.split("=")[2])
                    if pending is not None and not fired:
                        sh.violation("C19/wrong-return/%s" % pending[1], "returned -1 although no allocation failed, at command #%d %r" % (pending[0], cmds[pending[0]]), dict(rep, failing_command=pending[0]))
                        break
                    if pending is not None:
                        sh.count("operations_failed_by_injected_fault." + pending[1])
                    pending = None
                continue
            if not ln.startswith("= ret="):
                raise core.Inconclusive("bad driver line %r for %r" % (ln[:100], cmd))
            f = dict(x.split("=", 1) for x in ln.split()[1:])
            ret, err, n, off = int(f["ret"]), int(f["errno"]), int(f["n"]), int(f["off"])
            bpos, size, blk, term, crc = int(f["bpos"]), int(f["size"]), int(f["blk"]), int(f["term"]), int(f["crc"])
            op = cmd.split()
            kind = op[1]
            sh.evaluations += 1
            want_ret = None
            terminated = False
            old_model = bytearray(model)
            if kind == "new":
                model = bytearray()
                want_ret, terminated = 1, True
            elif kind == "reset":
                model = bytearray()
                want_ret, terminated = 0, True
            elif kind in ("app", "fast", "fastu"):
                model += pattern(n, int(op[4]), False)
                want_ret, terminated = n, True
            elif kind == "fmt":
                model += pattern(n, int(op[4]), True)
                want_ret, terminated = n, True
            elif kind == "fmts":
                if n == -1:
                    # the driver skipped it: the buffer is not known to be terminated (the empty append in front failed under an injected fault after a memset)
                    want_ret, terminated = 0, was_term
                    sh.count("sprintbuf.self_format_skipped_unterminated")
                else:
                    pre = bytes(model).split(b"\0")[0]
                    model += pre + b"|" + pre
                    want_ret, terminated = 2 * len(pre) + 1, True
                    sh.count("sprintbuf.buffer_formatted_into_itself" + (".long" if 2 * len(pre) + 1 > 127 else ""))
            elif kind == "fmts1":
                if n == -1:
                    want_ret, terminated = 0, was_term
                else:
                    pre = bytes(model).split(b"\0")[0][off:]
                    model += pre
                    want_ret, terminated = len(pre), True
                    sh.count("sprintbuf.own_contents_through_bare_percent_s" + (".long" if len(pre) > 127 else ""))
            elif kind == "fmtc":
                sd = int(op[4])
                bts = pattern(int(op[2]), sd, True) + b"\0" + pattern(int(op[3]), sd + 1, True)
                model += bts
                want_ret, terminated = len(bts), True
                sh.count("sprintbuf.output_with_embedded_NUL")
            elif kind == "fmtd":
                s = ("%d|xy| 1.50" % int(op[2])).encode()
                model += s
                want_ret, terminated = len(s), True
            elif kind == "str":
                model += LITS[min(int(op[2]), 3)]
                want_ret, terminated = len(LITS[min(int(op[2]), 3)]), True
            elif kind == "appx":
                sz = int(op[2])
                want_ret = -1  # every appx argument is a must-refuse one
                sh.count("refused.append")
            elif kind == "set":
                o2 = len(model) if off == -1 else off
                if n < 0 or off < -1 or n > INT_MAX - o2:
                    want_ret = -1
                    sh.count("refused.memset")
                elif o2 + n > INT_MAX - 64:
                    # a fill ending within 64 bytes of INT_MAX: the terminator and any slack no longer fit in an int-sized buffer.  A refusal leaves everything as
                    # it was (checked below); an implementation that really built a 2 GiB buffer cannot be modelled here
                    if ret == 0:
                        raise core.Inconclusive("a 2 GiB memset succeeded: %r -> %r" % (cmd, ln[:200]))
                    want_ret = -1
                    err = EFBIG   # (which errno is not asserted for this window)
                    sh.count("refused.memset_near_INT_MAX")
                elif n > (1 << 27) or o2 > (1 << 27):
                    raise core.Inconclusive("generator produced a huge-but-allocatable memset: %r -> %r" % (cmd, ln[:200]))
                else:
                    if len(model) < o2:
                        model += b"\0" * (o2 - len(model))
                        sh.count("memset.gap_fill")
                    model[o2:o2 + n] = bytes([int(op[4]) & 0xFF]) * n
                    want_ret = 0
                    if o2 + n == prev_size:
                        sh.count("memset.ends_exactly_at_capacity")
            key = None
            if armed and ret == -1 and want_ret != -1:
                # failed while a fault was armed: confirmed (fired) at the following FAILNEXT 0; the buffer must be what it was
                model = old_model
                pending = (ci, kind)
                want_ret = -1
                err = EFBIG  # errno after an injected allocation failure is not asserted
                terminated = was_term
            if ret != want_ret:
                key, what = "wrong-return", "returned %d, model says %d" % (ret, want_ret)
            elif want_ret == -1 and err != EFBIG:
                key, what = "refusal-errno", "refused with errno %d (expected EFBIG)" % err
            elif bpos != len(model):
                key, what = "length", "bpos %d, model length %d" % (bpos, len(model))
            elif crc != zlib.crc32(model):
                key, what = "contents", "buffer contents differ from the model (head %s, model head %s)" % (f.get("head"), bytes(model[:24]).hex())
            elif bpos > size or size > blk:
                key, what = "bounds", "bpos %d size %d real block %d" % (bpos, size, blk)
            elif terminated and (bpos >= size or term != 0):
                key, what = "terminator", "after %s: bpos %d size %d byte at bpos %d" % (kind, bpos, size, term)
            if key:
                sh.violation("C19/%s/%s" % (key, kind), "%s at command #%d %r" % (what, ci, cmd), dict(rep, failing_command=ci, observed=ln))
                break
            if size > prev_size and prev_size:
                sh.count("growths")
            if len(op) > 2 and op[2] == "p" or (kind == "set" and op[5] == "lp"):
                sh.count("request_as_fraction_of_capacity.%s.%s" % ("below_1MiB" if prev_size < (1 << 20) else "1MiB_to_8MiB" if prev_size < (8 << 20) else "8MiB_up", "upto1.5x" if int(op[3] if kind != "set" else op[6]) <= 1500 else "1.5x_to_2x" if int(op[3] if kind != "set" else op[6]) <= 2000 else "over2x"))
            if kind == "fastu":
                sh.count("memappend_fast_with_unsigned_length" + (".after_fill_to_capacity" if ci and cmds[ci - 1].endswith("lr 0") else ""))
            if kind in ("app", "fmt", "fast", "fastu", "str") and bpos + 1 == size:
                sh.count("append.fills_to_capacity_minus_one")
            if kind == "fmt" and n > 127:
                sh.count("sprintbuf.long_path")
            prev_size = size
            was_term = terminated or (was_term and kind == "appx") or (was_term and pending is not None and pending[0] == ci)
            sh.cmax("max_size", size)
        sh.nontrivial("\n".join(cmds))
        if len(sh.samples) < 1:
            sh.samples.append({"history": cmds[:14], "replies": lines[:14]})
    return sh


def run(tier, seed):
    bdir = build.build("asan")
    chk = core.Check(PID, tier, seed)
    os.environ["VF_RECORD_SKIP"] = r"PBGIANT| p \d+ | lp \d+|PB app a \d{7,}"   # (not in the memcheck sample: 2 GiB and MiB-scale buffers take minutes under valgrind)
    rd = core.record_dir(PID) if tier == "thorough" else None
    sh = core.parallel(shard_fn, seed=seed, tier=tier, exe=bdir + "/jcdrv", nhist=64000 if tier == "quick" else 1000000)
    chk.absorb(sh)
    if rd:
        os.environ.pop("VF_RECORD_DIR", None)
        core.memcheck_recorded(chk, build.build("plain"), rd)
    chk.rule = ("random histories (10-60 ops) of printbuf_memappend / memappend_fast / strappend / memset / sprintbuf / reset with sizes chosen relative to the CURRENT capacity "
                "(size-bpos-3..+9, so every doubling boundary and the exact-fill cases are hit), absolute sizes up to 70000, memset offsets -1/absolute/bpos+d/size+d, and must-refuse arguments "
                "(negative, INT_MAX-adjacent, tiny source block); after every step bpos, crc32(buf[0..bpos)), terminator, bpos<=size<=real block size and the return value are compared with a byte-array model. "
                "evaluations = operations; distinct = distinct histories")
    chk.assumptions = ["growth policy is not asserted (any capacity >= need)", "printbuf_memset is not required to NUL-terminate (the statement speaks of appended text)"]
    return chk.finish(min_evaluations=50000)

"""C06 — a JSON object behaves as an insertion-ordered map under any operation history."""
import os
import random
import re
import subprocess

from vflib import core, build

PID = "C06"
KEY_IS_NEW, CONST_KEY = 2, 4


def lhenum_job(shard, nshards, exe, jobs):
    sh = core.Shard()
    for ji, (size, hk, ln, sub, nsub) in enumerate(jobs):
        if ji % nshards != shard:
            continue
        e = dict(os.environ)
        e.update(core.ASAN_ENV)
        r = None
        for attempt in range(2):  # a watchdog expiry is re-run once before it is reported as a hang
            try:
                r = subprocess.run([exe, str(size), str(hk), str(ln), str(sub), str(nsub)], stdout=subprocess.PIPE, stderr=subprocess.PIPE, text=True, env=e, timeout=240 if ln <= 6 else 2400)
                break
            except subprocess.TimeoutExpired:
                r = None
        if r is None:
            sh.violation("C06/enum/hang", "small-scope enumeration did not terminate twice (size=%d hash=%d len<=%d): an lh_table operation does not return" % (size, hk, ln),
                         {"cmd": "%s %d %d %d %d %d" % (exe, size, hk, ln, sub, nsub)})
            continue
        if r.returncode == 4:
            w = re.search(r"WITNESS hang after step \d+: (.*)", r.stdout)
            sh.violation("C06/enum/hang", "lh_table(size=%d, hash kind %d): an operation does not return: %s" % (size, hk, w.group(0) if w else r.stdout[-200:]),
                         {"cmd": "%s %d %d %d %d %d" % (exe, size, hk, ln, sub, nsub), "stdout": r.stdout[-500:]})
            continue
        if r.returncode != 0:
            kind = "asan" if "AddressSanitizer" in r.stderr else "ubsan" if "runtime error" in r.stderr else "exit%d" % r.returncode
            sh.violation("C06/lhenum-crash/%s" % kind, "small-scope enumeration died (size=%d hash=%d): %s" % (size, hk, r.stderr[-400:]),
                         {"cmd": "%s %d %d %d %d %d" % (exe, size, hk, ln, sub, nsub), "stderr": r.stderr[-3000:]})
            continue
        m = re.search(r"histories=(\d+) steps=(\d+) resizes=(\d+) tombreuse=(\d+) wrap=(\d+) maxprobe=(\d+) full=(\d+) states=(\d+) mism=(\d+)", r.stdout)
        if not m:
            raise core.Inconclusive("lhenum output not understood: " + r.stdout[:200])
        h, st, rz, tr, wr, mp, fl, ns, mm = map(int, m.groups())
        sh.evaluations += st
        sh.count("enum.histories", h)
        sh.count("enum.steps_checked", st)
        sh.count("enum.resizes", rz)
        sh.count("enum.tombstone_reuse_inserts", tr)
        sh.count("enum.wraparound_probes", wr)
        sh.cmax("max_enum_probe_length", mp)
        sh.count("enum.steps_on_tables_without_EMPTY_slot", fl)
        sh.nontrivial("enum/%d/%d/%d/%d" % (size, hk, ln, sub))
        if mm:
            w = re.search(r"WITNESS (\S+) after step \d+: (.*)", r.stdout)
            facet = w.group(1) if w else "?"
            sh.violation("C06/enum/%s" % facet, "lh_table(size=%d, hash kind %d): %s" % (size, hk, w.group(0) if w else r.stdout[:200]),
                         {"cmd": "%s %d %d %d %d %d" % (exe, size, hk, ln, sub, nsub), "stdout": r.stdout[-500:]})
    return sh


def pick_universe(rng, buckets, allkeys):
    r = rng.random()
    n = rng.choice([3, 5, 8, 12, 20, 40])
    if rng.random() < 0.04:
        n = rng.choice([120, 400, 1200])  # many resizes, long tombstone runs
    if r < 0.2:
        # a few keys in each of two or three ADJACENT buckets plus filler, enough keys to grow the table during the churn:
        # displaced entries, tombstone reuse and re-insertion in list order on resize all interact here
        b0 = rng.randrange(64)
        ks = []
        for d in range(rng.choice([2, 3])):
            bk = buckets.get((b0 + d) % 64, [])
            ks += rng.sample(bk, min(len(bk), rng.choice([2, 3, 4])))
        fill = rng.choice([6, 10, 14, 20])
        ks += rng.sample(allkeys, fill)
        rng.shuffle(ks)
        n = len(ks)
    elif r < 0.45:
        # keys that collide modulo 64 (hence modulo 16 and 32 too): one or two buckets
        bs = [b for b in buckets.values() if len(b) >= 4]
        ks = []
        for b in rng.sample(bs, min(len(bs), rng.choice([1, 1, 2]))):
            ks += rng.sample(b, min(len(b), n))
        ks = ks[:n]
    else:
        ks = rng.sample(allkeys, n)
    if rng.random() < 0.3:
        ks[0] = b""
    if rng.random() < 0.2:
        ks[-1] = bytes(rng.choice(b"abcdefgh/~ \xc3\xa9") for _ in range(200))
    if rng.random() < 0.25 and len(ks) > 2:
        ks[1] = rng.choice([b'q"uote', b"back\\slash", b"ctl\x01\n", b"sl/ash", b"\xc3\xa9\"\t"])  # names that must be escaped when serialized
    return list(dict.fromkeys(ks))


def kv_list(s):
    if s in ("", "-"):
        return []
    out = []
    for it in s.split(","):
        k, _, u = it.partition(":")
        out.append((bytes.fromhex(k), None if u in ("-1", "") else int(u)))
    return out


def churn_shard(shard, nshards, seed, tier, exe, nhist):
    rng = random.Random("%d/%d/c06" % (seed, shard))
    sh = core.Shard()
    for rnd in range(2):
        hseed = (seed * 7919 + shard * 2 + rnd) & 0x7fffffff
        hashfn = rnd  # both string hash functions
        env = {"VF_HASH_SEED": str(hseed)}
        # phase 1: ask the library for the hashes of candidate keys under this seed/function
        cands = [("k%d" % i).encode() for i in range(1500)] + [bytes([97 + i % 26, 97 + i // 26 % 26, 48 + i % 10]) for i in range(1500)]
        # every name length 1..48 (hash functions work on 12-/4-byte blocks with a tail switch; callers' name pointers come at every alignment: the driver rotates it)
        cands += [bytes(97 + (i * 7 + j) % 26 for j in range(L)) for L in range(1, 49) for i in range(8)]
        # names with bytes >= 0x80 (UTF-8 and arbitrary): a hash that reads them through a signed char type must not depend on where the name sits in memory
        cands += [bytes(0x80 + (i * 37 + j * 11) % 128 if (j + i) % 3 else 97 + j % 26 for j in range(L)) for L in (1, 2, 3, 4, 5, 7, 9, 11, 12, 13, 17, 23, 24, 25) for i in range(6)]
        cands += ["é%d" .encode() % i for i in range(20)] + ["日本語%d".encode() % i for i in range(20)]
        cands = list(dict.fromkeys(cands))
        res, cr = core.run_script(exe, [("h", ["HASHFN %d" % hashfn, "HASH " + " ".join("x" + c.hex() for c in cands)])], env=env, tag="c06")
        if cr:
            # computing the hash of a plain key hung or crashed: that is a lookup that does not answer
            kind_, frame = cr[0].summary()
            if shard == 0:
                sh.violation("C06/%s/%s/hash-of-key" % ("hang" if cr[0].kind == "hang" else kind_, frame), "hashing candidate keys with string hash function %d %s" % (hashfn, "hung" if cr[0].kind == "hang" else "crashed (%s)" % kind_),
                             {"driver": "jcdrv", "variant": "asan", "env": env, "script": ["HASHFN %d" % hashfn, "HASH x6b31 x6b32"], "stderr": cr[0].stderr[-2000:]})
            continue
        if "h" not in res:
            raise core.Inconclusive("hash probe failed")
        # long runs: a table with n consecutively occupied slots (every key at home) plus one key whose home is the first of them -- a member n slots away from where its hash
        # points, under this hash function and seed (the driver picks the keys by asking the library for their hashes, see OLONGRUN)
        for nrun in ([rng.choice([130, 255, 256, 257, 300, 1000]), rng.choice([32767, 32768, 40000]), rng.choice([65535, 65536, 65537, 70000, 90000])] if shard % 4 == rnd else [rng.choice([2, 17, 128, 300, 5000])]):
            lres, lcr = core.run_script(exe, [("lr", ["HASHFN %d" % hashfn, "OLONGRUN %d" % nrun])], env=env, tag="c06", timeout=600)
            rep = {"driver": "jcdrv", "variant": "asan", "env": env, "script": ["HASHFN %d" % hashfn, "OLONGRUN %d" % nrun]}
            sh.evaluations += 8
            for c in lcr:
                kind_, frame = c.summary()
                sh.violation("C06/long-run/%s/%s" % ("hang" if c.kind == "hang" else kind_, frame), "object with a run of %d occupied slots: %s" % (nrun, kind_), dict(rep, stderr=c.stderr[-2000:]))
            for ln in lres.get("lr", [])[1:2]:
                if ln.startswith("= ok"):
                    sh.count("long_runs.held")
                    sh.cmax("max_displacement_of_a_live_key_in_long_runs", int(ln.split("disp=")[1]))
                elif ln.startswith("= skip"):
                    sh.count("long_runs.construction_not_applicable." + ln.split()[2])
                else:
                    sh.violation("C06/long-run/" + "-".join(ln[6:].split()[:4]), "object with a run of %d occupied slots (hash function %d): %s" % (nrun, hashfn, ln[2:]), rep)
        hv = [int(x) for x in res["h"][1].split()[1:]]
        buckets = {}
        for c, h in zip(cands, hv):
            buckets.setdefault(h & 63, []).append(c)
        cases, meta = [], {}
        for i in range(nhist // nshards // 2):
            uni = pick_universe(rng, buckets, cands)
            nops = rng.choice([30, 100, 300, 1000 if tier == "quick" else 5000])
            if len(uni) > 100:
                nops = len(uni) * rng.choice([3, 6])
            cmds = ["HASHFN %d" % hashfn, "NEW 0 1 obj"]
            plan = []
            model = {}
            uid = 10
            every = 1 if nops <= 100 else 7 if nops <= 1000 else 97
            switch_at = rng.randrange(nops) if rng.random() < 0.25 else -1
            resize_at = rng.randrange(nops) if rng.random() < 0.2 else -1
            for j in range(nops):
                k = rng.choice(uni)
                r = rng.random()
                if r < 0.5:
                    uid += 1
                    isnull = rng.random() < 0.1
                    cmds.append("NEW 1 - null" if isnull else "NEW 1 %d int %d" % (uid, uid))
                    opts = 0
                    if k not in model and rng.random() < 0.3:
                        opts |= KEY_IS_NEW
                    if rng.random() < 0.15 and len(k) < 50:
                        opts |= CONST_KEY
                    if k not in model and not (opts & CONST_KEY) and not isnull and rng.random() < 0.06:
                        # the insert's first allocation (the copy of the name) fails: the add must fail, the object must be unchanged (checked by the
                        # lookups/snapshots that follow) and the value must still belong to the caller
                        cmds += ["FAILNEXT 1", "OADD %d x%s 1 %d" % (0, k.hex(), opts), "FAILNEXT 0", "PUT 1"]
                        plan.append(("addfail", k, uid))
                        continue_after = True
                    else:
                        continue_after = False
                        if k not in model and not (opts & CONST_KEY) and rng.random() < 0.15:
                            # the same object through its lower-level handle: lh_table_insert on json_object_get_object(obj) with a name of the caller's making
                            cmds.append("OLADD 0 x%s 1" % k.hex())
                            sh.count("op.table_level.insert")
                        else:
                            cmds.append("OADD %d x%s 1 %d" % (0, k.hex(), opts))
                        old = model.get(k)
                        plan.append(("add", k, opts, [old] if (k in model and old is not None) else []))
                        model[k] = None if isnull else uid
                elif r < 0.8:
                    tl = rng.random() < 0.2
                    cmds.append(("OLDEL 0 x%s" if tl else "ODEL 0 x%s") % k.hex())
                    present = k in model
                    old = model.pop(k, None)
                    plan.append(("del", k, 0, [old] if old is not None else [], (0 if present else -1) if tl else None))
                else:
                    cmds.append(("OLGET 0 x%s" if rng.random() < 0.3 else "OGET 0 x%s") % k.hex())
                    plan.append(("get", k, k in model, model.get(k)))
                if resize_at == j:
                    # the object's table is resized by hand to a size that is not a power of two (lh_table_resize is public): nothing observable may change
                    cmds.append("ORESIZE 0 %d" % rng.choice([37, 50, 100, 1000, 24, 17]))
                    plan.append(("hashfn",))
                if switch_at == j:
                    # the process-wide string hash is switched while the object is alive: existing objects must keep answering (new ones use the new function)
                    cmds.append("HASHFN %d" % (1 - hashfn))
                    plan.append(("hashfn",))
                    if rng.random() < 0.5:
                        # ... and back: re-selecting the function the live object was built under is a configuration call like any other (no new seed, no new anything)
                        cmds.append("HASHFN %d" % hashfn)
                        plan.append(("hashfn",))
                        sh.count("string_hash_reselected_while_objects_alive")
                if j % every == 0 or j == nops - 1:
                    cmds += ["OKEYS 0", "OLEN 0", "OSER 0"]
                    plan.append(("snap", list(model.items())))
            # delete-current-while-iterating at chosen positions
            mask = rng.getrandbits(min(len(model), 60)) if model else 0
            cmds.append("OITDEL 0 %d%s" % (mask, rng.choice([" v", " v", " i", "", ""])))   # (v: through the visitor; i: through a consumer compiled as strict ISO C99)
            items = list(model.items())
            plan.append(("itdel", items, mask))
            for pos, (k, v) in enumerate(items):
                if pos < 64 and (mask >> pos) & 1:
                    del model[k]
            cmds += ["OKEYS 0", "OLEN 0", "OSER 0", "PUT 0"]
            plan.append(("snap", list(model.items())))
            plan.append(("final", list(model.items())))
            cid = "%d.%d.%d" % (shard, rnd, i)
            cases.append((cid, cmds))
            meta[cid] = (plan, uni)
        results, crashes = core.run_script(exe, cases, env=dict(env, **core.ambient_env(sh, shard)), tag="c06", timeout=300 if tier == "quick" else 3000)
        cmdmap = dict(cases)
        for cr in crashes:
            kind, frame = cr.summary()
            if cr.kind == "hang":
                i = min(len(cr.partial), len(cmdmap[cr.cid]) - 1)
                sh.violation("C06/hang/%s" % cmdmap[cr.cid][i].split()[0], "object operation did not return (re-run once in isolation): command #%d %s" % (i, cmdmap[cr.cid][i][:80]),
                             {"driver": "jcdrv", "variant": "asan", "env": env, "script": cmdmap[cr.cid][:i + 1]})
                continue
            sh.violation("C06/%s/%s" % (kind, frame), "memory error in an object operation (%s)" % kind, {"driver": "jcdrv", "variant": "asan", "env": env, "script": cmdmap[cr.cid], "stderr": cr.stderr[-2500:]})
        for cid, lines in results.items():
            plan, uni = meta[cid]
            cmds = cmdmap[cid]
            rep = {"driver": "jcdrv", "variant": "asan", "env": env, "script": cmds}
            li = 2
            key = None
            for st in plan:
                k = st[0]
                sh.evaluations += 1
                if k in ("add", "del"):
                    if k == "add":
                        li += 1
                    ln = lines[li]
                    li += 1
                    dels = [] if "del=-" in ln else [int(x) for x in ln.split("del=")[1].split(",")]
                    if k == "add" and int(ln.split()[1]) != 0:
                        key, what = "add-failed", "object_add returned %s" % ln.split()[1]
                    elif k == "del" and len(st) > 4 and st[4] is not None and (sh.count("op.table_level.delete") or True) and int(ln.split()[1]) != st[4]:
                        key, what = "table-level-delete-return", "lh_table_delete of %r on the object's table returned %s, model says %d" % (st[1][:20], ln.split()[1], st[4])
                    elif dels != st[3]:
                        key, what = "release/" + k, "%s of key %r released %s, model says %s" % (k, st[1][:20], dels, st[3])
                    sh.count("op." + k + (".replace" if k == "add" and st[3] else ""))
                elif k == "addfail":
                    ret, fired = int(lines[li + 2].split()[1]), int(lines[li + 3].split("=")[2])
                    pl = lines[li + 4]
                    li += 5
                    if ret == 0:
                        # the implementation did not need (or tolerated the failure of) that allocation: the static model no longer applies to this history
                        sh.count("histories_abandoned.injected_fault_did_not_fail_the_add")
                        break
                    if not fired:
                        key, what = "add-failed", "object_add of a new key returned %d although no allocation failed" % ret
                    elif "del=-" not in lines[li - 3]:
                        key, what = "release/addfail", "a failed add released something: %s" % lines[li - 3]
                    elif int(pl.split()[1]) != 1 or "del=%d" % st[2] not in pl:
                        key, what = "failed-add-consumed-value", "after a failed add the caller's reference is not the only one left: put -> %s" % pl
                    sh.count("op.add.failed_by_injected_fault")
                elif k == "get":
                    f = lines[li].split()
                    li += 1
                    found, uid, isnull = int(f[1]), int(f[2]), int(f[3])
                    if bool(found) != st[2] or (st[2] and ((st[3] is None) != bool(isnull) or (st[3] is not None and uid != st[3]))) or f[4] != "same=1":
                        key, what = "lookup", "lookup of %r gave %s, model says present=%s value=%s" % (st[1][:20], f[1:], st[2], st[3])
                    elif f[5] != "exists=%d" % found or f[6] != "noobj=0,1" or f[7] != "notobj=0,1,0":
                        key, what = "lookup-corner-form", "get_ex without result pointer / without object: %s (found=%d)" % (f[5:], found)
                    sh.count("op.get")
                elif k == "snap":
                    d = dict(x.split("=", 1) for x in lines[li].split()[1:])
                    olen = int(lines[li + 1].split()[1])
                    oser = lines[li + 2].split()[1]
                    li += 3
                    want = st[1]
                    for form in ("fe", "fc", "it", "lh", "ls", "bk", "vi"):
                        got = kv_list(d[form])
                        if got != want:
                            key, what = "iteration/" + form, "iteration form %s yields %s, model says %s" % (form, got[:8], want[:8])
                            break
                    if not key:
                        ser = [] if oser == "-" else [bytes.fromhex(x[1:]) for x in oser.split(",")]
                        if ser != [k2 for k2, _ in want]:
                            key, what = "iteration/serialization", "serialized key order %s, model says %s" % (ser[:8], [k2 for k2, _ in want][:8])
                        elif olen != len(want):
                            key, what = "length", "length %d, model says %d" % (olen, len(want))
                        elif d["chain"] != "1" or int(d["count"]) != len(want):
                            key, what = "table-fields", "public lh_table fields inconsistent: " + lines[li - 3][-80:]
                    sh.cmax("max_table_size", int(d["size"]))
                    sh.cmax("max_tombstones", int(d["tomb"]))
                    if int(d["live"]) + int(d["tomb"]) == int(d["size"]):
                        sh.count("snapshots_with_no_EMPTY_slot")
                elif k == "hashfn":
                    li += 1
                    sh.count("op.hash_function_switched_on_live_object")
                elif k == "itdel":
                    ln = lines[li]
                    li += 1
                    seq = kv_list(ln.split()[1])
                    if seq != st[1]:
                        key, what = "delete-current-while-iterating", "visit sequence %s while deleting current keys (mask %x), expected %s" % (seq[:8], st[2], st[1][:8])
                    sh.count("op.iterate_delete_current")
                elif k == "final":
                    ln = lines[li]
                    dels = [] if "del=-" in ln else [int(x) for x in ln.split("del=")[1].split(",")]
                    want = [v for _, v in st[1] if v is not None] + [1]
                    if sorted(dels) != sorted(want):
                        key, what = "final-release", "destroying the object released %s, model says %s" % (dels[:20], want[:20])
                    elif lines[-1].split()[1] != "live=0":
                        key, what = "leak", "blocks left: " + lines[-1]
                if key:
                    sh.violation("C06/" + key, what + " [hashfn %d seed %d universe %d keys]" % (hashfn, hseed, len(uni)), rep)
                    break
            sh.nontrivial("\n".join(cmds))
            if len(sh.samples) < 1 and len(cmds) < 200:
                sh.samples.append({"hash_function": hashfn, "hash_seed": hseed, "history": cmds[:12], "replies": lines[:12]})
        sh.count("hash_seeds")
    return sh


def run(tier, seed):
    bdir = build.build("asan")
    chk = core.Check(PID, tier, seed)
    maxlen = 6 if tier == "quick" else 7
    jobs = []
    for size in (1, 2, 3, 4, 5):
        for hk in (0, 1, 2, 3, 4, 5, 6):
            nsub = 1 if tier == "quick" else 8
            for sub in range(nsub):
                jobs.append((size, hk, maxlen, sub, nsub))
    if tier == "thorough":
        for size in (2, 3, 4):
            for hk in (1, 3, 4):
                for sub in range(32):
                    jobs.append((size, hk, 8, sub, 32))
    sh = core.parallel(lhenum_job, exe=bdir + "/lhenum", jobs=jobs)
    chk.absorb(sh)
    os.environ["VF_RECORD_SKIP"] = r"OLONGRUN \d{5,}"   # (not in the memcheck sample: 10^5 members and 10^6 hash probes under valgrind)
    rd = core.record_dir(PID) if tier == "thorough" else None
    sh = core.parallel(churn_shard, seed=seed, tier=tier, exe=bdir + "/jcdrv", nhist=3840 if tier == "quick" else 16000)
    chk.absorb(sh)
    if rd:
        os.environ.pop("VF_RECORD_DIR", None)
        core.memcheck_recorded(chk, build.build("plain"), rd)
    chk.extra["enumerated_completely"] = "all sequences of length <= %d over {add,delete,lookup} x 4 keys on lh_table_new(size 1..5) x 7 caller-supplied hash functions (identity, constant, last slot, colliding pairs, three keys + neighbour, adjacent pairs, 64-bit values differing only above bit 31)" % maxlen
    chk.exhaustive = False
    chk.rule = ("(a) small-scope exhaustive: every operation sequence up to the stated length on tiny tables with identity/constant/last-slot/pairwise-colliding hashes, every step checked against an "
                "ordered-map model (lookups of all keys, length, lh_foreach order+values, head/tail/prev/next chain). (b) churn at json_object level: universes of 3-40 keys incl. empty, 200-byte and "
                "keys chosen to collide modulo 64 (hashes obtained from the library itself), add / add_ex(KEY_IS_NEW when absent, CONSTANT_KEY) / replace / delete / get, 30-5000 ops, both string hash functions, "
                "32 hash seeds; after steps: foreach, foreachC, iterator API, lh_foreach, visitor and serialized key order, length, public table fields; delete-current-while-iterating; release sets. "
                "evaluations = checked steps; distinct = distinct histories/configurations")
    chk.assumptions = ["slot-level facts (tombstones, probe lengths) are recorded as evidence only; behaviour is what is asserted"]
    return chk.finish(min_evaluations=100000)

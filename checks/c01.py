"""C01 — parsing a valid JSON text yields exactly the value the text denotes."""
import os
import random
import zlib

from vflib import core, build
from gen.docs import DocGen, hex4
from oracle import refjson
from oracle.refjson import FFFD, utf8

PID = "C01"
STRICT = 1


def trunc_keys(v):
    """model of the listed known finding: member names are cut at the first U+0000"""
    if isinstance(v, list):
        return [trunc_keys(x) for x in v]
    if isinstance(v, dict):
        out = {}
        for k, x in v.items():
            out[k.split(b"\0")[0]] = trunc_keys(x)
        return out
    return v


def first_diff(a, b):
    ta, tb = a.split(), b.split()
    for i, (x, y) in enumerate(zip(ta, tb)):
        if x != y:
            return "%s-vs-%s" % (x[0], y[0])
    return "length"


def check_doc(sh, cid, text, value, lines, cmds, origin, beyond, modes=None):
    """lines: result lines for the P commands of this doc, in the order default(NUL incl.), strict, default(len=-1)"""
    exp_default = refjson.dump(value, saturate=True)
    nulkey = refjson.has_nul_key(value)
    modes = modes or [("default", 0), ("strict", 1), ("default-strlen", 0)]
    for (mname, strict), ln in zip(modes, lines):
        f = ln.split(" ", 4)
        if f[0] != "=" or len(f) < 5:
            raise core.Inconclusive("bad driver line: " + ln[:200])
        err, end, nonnull, dump = int(f[1]), int(f[2]), int(f[3]), f[4]
        sh.evaluations += 1
        what = None
        if strict and beyond:
            if err == 0:
                key, what = "C01/strict/accepts-integer-beyond-64-bits", "strict mode accepted an integer beyond 64 bits"
        elif err != 0:
            key, what = "C01/%s/valid-text-rejected" % mname, "valid text rejected with error %d at %d" % (err, end)
        elif dump != exp_default:
            # the listed finding, modelled exactly: every member name is cut at its first NUL *as the members arrive*
            if nulkey and dump == refjson.dump(refjson.parse(text, key_hook=lambda k: k.split(b"\0")[0]), saturate=True):
                key = "C01/member-name-contains-U+0000"
                what = "member name containing U+0000 is truncated at the NUL"
            else:
                key = "C01/%s/value-mismatch/%s" % (mname, first_diff(exp_default, dump))
                what = "parsed value differs from denoted value"
        if end > len(text) + 1:
            key, what = "C01/%s/end-beyond-input" % mname, "parse end %d > length %d" % (end, len(text) + 1)
        if what:
            sh.violation(key, what + " (%s, %s)" % (origin, mname), {
                "driver": "jcdrv", "variant": "asan", "script": cmds, "text_hex": text.hex(), "text": text[:300].decode("utf-8", "replace"),
                "expected_dump": exp_default[:2000], "observed": ln[:2000], "mode": mname})


def doc_cmds(text):
    """default-mode, strict-mode and default-mode/strlen parses.  The orthogonal flags (ALLOW_TRAILING_CHARS 2, VALIDATE_UTF8 0x10 on valid UTF-8) are
    switched on in three quarters of the documents (chosen by a digest of the text): they must not change what a complete valid text parses to."""
    h = text.hex()
    d = zlib.crc32(text)
    try:
        text.decode("utf-8")
        u8 = True
    except UnicodeDecodeError:
        u8 = False
    sf = [1, 3, 0x11, 0x13][d % 4] if u8 else [1, 3][d % 2]
    df = [0, 2, 0x10, 0x12][(d >> 2) % 4] if u8 else [0, 2][(d >> 2) % 2]
    cmds = ["P %d 0 1 x%s" % (df, h), "P %d 0 1 x%s" % (sf, h), "P %d 0 2 x%s" % ([0, 2][(d >> 4) % 2], h)]
    if (d >> 6) % 8 == 0 and len(text) < 4000:
        # the same text twice through ONE parser, the first result being changed in place (every scalar, through the setters) before it is released:
        # what the second call returns is again exactly the denoted value, built from nodes of its own
        cmds.append("PM %d 0 %d x%s x%s" % (df, [6, 5][(d >> 9) % 2], h, h))
    return cmds


def batch_strings(items):
    """items: list of (text-of-string-token, value bytes) -> one array document"""
    return b"[" + b",".join(t for t, _ in items) + b"]", [v for _, v in items]


def exhaustive_docs(shard, nshards, tier, rng):
    """enumerated finite sub-spaces, batched as arrays of 4096 strings"""
    docs = []
    B = 4096
    # (a) all 65536 \uXXXX units as single-escape strings
    units = list(range(0x10000))
    for bi, st in enumerate(range(0, 0x10000, B)):
        if bi % nshards != shard:
            continue
        items = []
        for cu in range(st, st + B):
            v = FFFD if 0xD800 <= cu <= 0xDFFF else utf8(cu)
            items.append((b'"' + hex4(rng, cu) + b'"', v))
        docs.append(("all-u-units", batch_strings(items)))
    # (b) scalar values raw and escaped: sampled (quick) or all 1,112,064 (thorough)
    if tier == "thorough":
        scalars = [c for c in range(0x20, 0x110000) if not 0xD800 <= c <= 0xDFFF and c not in (0x22, 0x5C)]
    else:
        r2 = random.Random(rng.random())
        scalars = sorted(set(r2.randrange(0x20, 0x110000) for _ in range(24000)) | set(range(0x20, 0x100)) |
                         {0x7FF, 0x800, 0xFFFF, 0x10000, 0x10FFFF, 0xD7FF, 0xE000})
        scalars = [c for c in scalars if not 0xD800 <= c <= 0xDFFF and c not in (0x22, 0x5C)]
    for bi, st in enumerate(range(0, len(scalars), B)):
        if bi % nshards != shard:
            continue
        raw, esc = [], []
        for cp in scalars[st:st + B]:
            u = utf8(cp)
            raw.append((b'"' + u + b'"', u))
            if cp > 0xFFFF:
                c = cp - 0x10000
                esc.append((b'"' + hex4(rng, 0xD800 + (c >> 10)) + hex4(rng, 0xDC00 + (c & 0x3FF)) + b'"', u))
            else:
                esc.append((b'"' + hex4(rng, cp) + b'"', u))
        docs.append(("scalars-raw", batch_strings(raw)))
        docs.append(("scalars-escaped", batch_strings(esc)))
    # (c) ordered pairs of surrogate code units: all 2048x2048 (thorough) or a 2048x24 + boundary sample (quick)
    firsts = list(range(0xD800, 0xE000))
    if tier == "thorough":
        seconds_for = lambda a: range(0xD800, 0xE000)
    else:
        r2 = random.Random(rng.random())
        pick = sorted(set([0xD800, 0xDBFF, 0xDC00, 0xDFFF] + [r2.randrange(0xD800, 0xE000) for _ in range(20)]))
        seconds_for = lambda a: pick
    items = []
    bi = 0
    for a in firsts:
        if (a - 0xD800) % nshards != shard:
            continue
        for b in seconds_for(a):
            t = b'"' + hex4(rng, a) + hex4(rng, b) + b'"'
            if a < 0xDC00 and b >= 0xDC00:
                v = utf8(0x10000 + ((a & 0x3FF) << 10) + (b & 0x3FF))
            else:
                v = FFFD + FFFD
            items.append((t, v))
            if len(items) == B:
                docs.append(("surrogate-unit-pairs", batch_strings(items)))
                items = []
    if items:
        docs.append(("surrogate-unit-pairs", batch_strings(items)))
    return docs


def shard_fn(shard, nshards, seed, tier, exe, ndocs):
    rng = random.Random("%d/%d/c01" % (seed, shard))
    sh = core.Shard()
    gen = DocGen(rng, max_depth=31, budget=60, nul_keys=0.02, big=True)
    cases, meta = [], {}
    per = ndocs // nshards
    for i in range(per):
        text, value = gen.document()
        if len(text) > 200000:
            continue
        cid = "%d.%d" % (shard, i)
        cases.append((cid, doc_cmds(text)))
        meta[cid] = (text, value, "generated", gen.text_has_beyond64)
    if shard == 0:
        # listed findings (known and fixed) are re-executed on every run: a known one prints KNOWN-FINDING while it
        # still reproduces, a fixed one is an ordinary regression case
        for j, k in enumerate(core.load_known()):
            if k["property"] == PID and k.get("witness"):
                text = k["witness"].encode()
                cid = "0.k%d" % j
                cases.append((cid, doc_cmds(text)))
                meta[cid] = (text, refjson.parse(text), "listed-witness", False)
    for j, (origin, (text, value)) in enumerate(exhaustive_docs(shard, nshards, tier, rng)):
        cid = "%d.x%d" % (shard, j)
        cases.append((cid, doc_cmds(text)))
        meta[cid] = (text, value, origin, False)
        sh.count("exhaustive." + origin + ".strings", len(value))
    results, crashes = core.run_script(exe, cases, tag="c01", env=core.ambient_env(sh, shard))
    cmdmap = dict(cases)
    for cr in crashes:
        kind, frame = cr.summary()
        text, value, origin, beyond = meta[cr.cid]
        sh.violation("C01/crash/%s/%s" % (kind, frame), "driver died while parsing a valid text (%s)" % kind,
                     {"driver": "jcdrv", "variant": "asan", "script": cmdmap[cr.cid], "stderr": cr.stderr[-3000:], "text_hex": text.hex()})
    nref = 0
    for cid, lines in results.items():
        text, value, origin, beyond = meta[cid]
        # cross-check the generator's expectation with the independent reference parser
        if origin == "generated" or (core.h64(cid) & 15) == 0:
            try:
                rv = refjson.parse(text)
            except refjson.JSONError as e:
                raise core.Inconclusive("generator emitted a text the reference parser rejects: %r (%s)" % (text[:200], e))
            if refjson.dump(rv) != refjson.dump(value):
                raise core.Inconclusive("generator expectation and reference parser disagree on %r" % text[:200])
            nref += 1
        check_doc(sh, cid, text, value, lines[:3], cmdmap[cid], origin, beyond)
        if len(cmdmap[cid]) > 3 and cmdmap[cid][3].startswith("PM "):
            parts = lines[3][2:].split(" || ")
            if len(parts) == 2:
                check_doc(sh, cid, text, value, ["= " + x for x in parts], cmdmap[cid], origin, beyond, modes=[("reused-parser/first", 0), ("reused-parser/second-after-first-result-changed-in-place", 0)])
                sh.count("texts_parsed_twice_by_one_parser_with_the_first_result_changed_in_place")
        if lines[-1].split()[1] != "live=0":
            sh.violation("C01/leak", "blocks still allocated after parse+put+free: " + lines[-1],
                         {"driver": "jcdrv", "variant": "asan", "script": cmdmap[cid]})
        sh.nontrivial(text)
        if origin == "generated" and len(sh.samples) < 2 and 20 < len(text) < 160:
            sh.samples.append({"text": text.decode("utf-8", "replace"), "expected_dump": refjson.dump(value, True)})
    sh.count("docs_crosschecked_by_refjson", nref)
    for k, v in gen.stats.items():
        sh.count("gen." + k, v)
    return sh


def run(tier, seed):
    bdir = build.build("asan")
    exe = bdir + "/jcdrv"
    chk = core.Check(PID, tier, seed)
    ndocs = 200000 if tier == "quick" else 6000000
    rd = core.record_dir(PID) if tier == "thorough" else None
    sh = core.parallel(shard_fn, seed=seed, tier=tier, exe=exe, ndocs=ndocs)
    chk.absorb(sh)
    if rd:
        os.environ.pop("VF_RECORD_DIR", None)
        core.memcheck_recorded(chk, build.build("plain"), rd)
    chk.rule = ("documents drawn value-first by gen/docs.py (random surface form: whitespace, escape forms, raw vs escaped, "
                "surrogate combinations, number spellings incl. half-way decimals) and parsed in default mode (len incl. NUL), "
                "strict mode, and default with len=-1; plus enumerated sub-spaces batched 4096 strings per document. "
                "distinct = distinct texts; every text is non-trivial (a parse whose typed dump is compared with the denoted value)")
    chk.exhaustive = False
    chk.extra["enumerated_completely"] = (["all 65536 \\uXXXX code units"] +
                                          (["all 1112062 scalar values raw+escaped", "all 2048x2048 surrogate unit pairs"] if tier == "thorough" else []))
    chk.assumptions = ["CPython float() is correctly rounded (reference for non-integers)",
                       "a text is handed to the parser with its terminating NUL (len+1) or with len=-1, the library's complete-text interfaces"]
    return chk.finish(min_evaluations=1000)

"""C18 — threaded build: shared reference counts are atomic; the hash seed is set once."""
import glob
import os
import re
import subprocess

from vflib import core, build

PID = "C18"
FRAME = re.compile(r"#(\d+) (\S+) (\S+?):(\d+)")


def parse_tsan(text):
    """-> list of reports: {kind, frames: [[(fn,file,line)...] per access], location}"""
    reports = []
    for blk in re.split(r"={10,}\n", text):
        m = re.search(r"WARNING: ThreadSanitizer: ([^\n(]+)", blk)
        if not m:
            continue
        kind = m.group(1).strip()
        accesses = []
        for part in re.split(r"\n\s*\n", blk):
            if re.search(r"(Write|Read|Previous (atomic )?(write|read)|Atomic (write|read)) of size", part, re.I):
                fr = [(f.group(2), os.path.basename(f.group(3)), int(f.group(4))) for f in FRAME.finditer(part)]
                accesses.append((part.strip().split("\n")[0].strip(), fr))
        loc = re.search(r"Location is ([^\n]+)", blk)
        reports.append({"kind": kind, "accesses": accesses, "location": loc.group(1) if loc else "", "text": blk[:3000]})
    return reports


def classify(rep):
    """-> (class, key detail).  Policy fixed in DESIGN.md: reports located on the global random_seed are recorded, not verdicts."""
    loc = rep["location"]
    fns = [fr[0][0] for _, fr in rep["accesses"] if fr]
    lib = [fr[0] for _, fr in rep["accesses"] if fr and fr[0][1].endswith(".c") and not fr[0][1].startswith(("thrdrv", "tsan_"))]
    if "random_seed" in loc or any(f == "lh_char_hash" for f in fns):
        return "seed-publication", "lh_char_hash"
    if any(f in ("json_object_get", "json_object_put") for f in fns):
        lines = sorted({"%s:%d" % (f[1], f[2]) for f in lib})
        plain = [a for a, fr in rep["accesses"] if "tomic" not in a]
        return "refcount", "+".join(sorted(set(fns))) + ("/plain-access" if plain else "")
    if rep["kind"] != "data race":
        return "other-" + rep["kind"].replace(" ", "-"), "+".join(sorted(set(fns)))[:80]
    return "other-race", "+".join(sorted(set(fns)))[:80]


def run_thr(exe, args, env=None, timeout=900, tsan_log=None):
    e = dict(os.environ)
    if env:
        e.update(env)
    if tsan_log:
        for f in glob.glob(tsan_log + "*"):
            os.unlink(f)
        e["TSAN_OPTIONS"] = "halt_on_error=0:log_path=%s:report_signal_unsafe=0:second_deadlock_stack=1:history_size=4" % tsan_log
    try:
        r = subprocess.run([exe] + [str(a) for a in args], stdout=subprocess.PIPE, stderr=subprocess.PIPE, text=True, env=e, timeout=timeout)
    except subprocess.TimeoutExpired:
        return None, "", "timeout"
    logs = ""
    if tsan_log:
        for f in glob.glob(tsan_log + "*"):
            logs += open(f, errors="replace").read()
            os.unlink(f)
    m = re.search(r"RESULT (.*)", r.stdout)
    res = dict(x.split("=", 1) for x in m.group(1).split()) if m else None
    return res, logs + r.stderr, r.returncode


def job(shard, nshards, seed, tier, exes, plan):
    sh = core.Shard()
    d = core.scratch_dir("c18")
    for ji, (variant, args, env, what) in enumerate(plan):
        if ji % nshards != shard:
            continue
        exe = exes[variant]
        res, logs, rc = run_thr(exe, args, env=env, tsan_log=os.path.join(d, "tsan") if variant.startswith("tsan") else None)
        cmd = "%s %s" % (exe, " ".join(str(a) for a in args))
        rep0 = {"cmd": cmd, "env": env or {}, "variant": variant}
        sh.evaluations += 1
        sh.nontrivial("%s/%s/%s/run%d" % (variant, args, env, ji))  # every process run is a different schedule
        if res is None:
            if rc == "timeout":
                sh.notes.append("watchdog: %s did not finish (inconclusive, not a verdict)" % cmd)
                sh.count("inconclusive_timeouts")
                continue
            kind = "asan" if "AddressSanitizer" in logs else "signal-or-abort"
            m = re.search(r"Assertion `([^']+)' failed", logs)
            if m:
                kind = "assertion-" + re.sub(r"\W+", "-", m.group(1))[:40]
            sh.violation("C18/%s/crash/%s" % (args[0], kind), "threaded driver died (rc %s): %s" % (rc, logs[-400:]), dict(rep0, stderr=logs[-3000:]))
            continue
        sc = res["scenario"]
        sh.count("runs.%s.%s" % (variant, sc))
        # ---- behavioural monitors ----
        if sc == "refcount":
            for f, facet in (("lost_decrement", "lost-decrement"), ("destroyed_early", "destroyed-before-last-release"), ("premature_seen", "destroyed-before-last-release"),
                             ("worker_freed", "worker-put-reported-freed"), ("callback_not_once", "destroy-callback-not-exactly-once")):
                if int(res[f]):
                    sh.violation("C18/refcount/" + facet, "%s=%s after %s threads x %s net-zero get/put pairs (%s)" % (f, res[f], res["threads"], res["iters"], variant), dict(rep0, result=res))
            sh.count("refcount_ops", int(res["threads"]) * int(res["iters"]) * 2)
        elif sc == "release":
            if int(res["multi_freed"]) or int(res["none_freed"]) or int(res["callback_not_once"]):
                sh.violation("C18/release/not-exactly-one-freeing-put", "concurrent release by %s holders: rounds with >1 freeing put %s, with none %s, callback not once %s (%s)" % (res["threads"], res["multi_freed"], res["none_freed"], res["callback_not_once"], variant), dict(rep0, result=res))
            sh.cmax("max_distinct_winner_threads", int(res["distinct_winners"]))
            sh.count("release_rounds", int(res["rounds"]))
        elif sc == "fmtglobal":
            if int(res["mismatches"]):
                sh.violation("C18/disjoint/own-format-lost-when-the-global-one-changed", "threads that had given themselves a double format (equal to the process-wide one at that moment) printed %s wrong results after another thread changed the process-wide format" % res["mismatches"], dict(rep0, result=res))
            sh.count("fmtglobal_runs")
        elif sc == "disjoint":
            if int(res["mismatches"]):
                sh.violation("C18/disjoint/interference", "threads working on disjoint trees saw %s wrong results" % res["mismatches"], dict(rep0, result=res))
        elif sc == "mutate":
            if int(res["worker_freed"]) or int(res["final_put"]) != 1 or int(res["callbacks_before"]) != int(res["expected_before"]) or int(res["callbacks_at_final_put"]) != 1:
                sh.violation("C18/mutate/destructor-accounting", "owner re-registers the destructor while others get/put: %s" % res, dict(rep0, result=res))
        elif sc == "readers":
            if int(res["read_mismatches"]) or int(res["worker_freed"]) or int(res["final_put"]) != 1 or int(res["callbacks"]) != 1:
                sh.violation("C18/readers/shared-tree", "readers/holders of a shared tree: %s" % res, dict(rep0, result=res))
        elif sc == "seed":
            if int(res["hashes_differing_from_late"]):
                sh.violation("C18/seed/not-fixed-once", "%s of %s threads hashed the fixed key differently (at their first or second use) from the later value (simultaneous entrants %s)" % (res["hashes_differing_from_late"], res["threads"], res["simultaneous_entrants"]), dict(rep0, result=res))
            if int(res["keys_lost"]):
                sh.violation("C18/seed/key-inserted-during-race-lost", "%s key(s) inserted during the first use of the hash cannot be found/deleted afterwards" % res["keys_lost"], dict(rep0, result=res))
            if int(res["simultaneous_entrants"]) == 0:
                sh.violation("C18/seed/never-drawn", "%s threads hashed keys but the seed source was never consulted: the default key hash is not seeded" % res["threads"], dict(rep0, result=res))
            sh.count("seed_trials")
            if int(res["simultaneous_entrants"]) >= 2:
                sh.count("seed_trials_with_simultaneous_entrants")
            sh.cmax("max_simultaneous_seed_entrants", int(res["simultaneous_entrants"]))
        # ---- TSan reports ----
        if variant.startswith("tsan"):
            for rep in parse_tsan(logs):
                cls, detail = classify(rep)
                sh.count("tsan.%s.%s" % (variant, cls))
                if cls == "seed-publication":
                    continue  # recorded, decided by the behavioural seed monitor (policy in DESIGN.md C18)
                if sc == "disjoint" or cls in ("refcount",) or cls.startswith("other"):
                    sh.violation("C18/tsan/%s/%s/%s" % (cls, "asserts-on" if variant == "tsan" else "ndebug", detail), "ThreadSanitizer %s in scenario %s (%s): %s" % (rep["kind"], sc, variant, rep["accesses"][0][0] if rep["accesses"] else ""),
                                 dict(rep0, tsan_report=rep["text"]))
        if len(sh.samples) < 2:
            sh.samples.append({"cmd": cmd, "env": env or {}, "result": res})
    return sh


def run(tier, seed):
    exes = {v: build.build(v) + "/thrdrv" for v in ("tsan", "tsan_ndebug", "thr")}
    chk = core.Check(PID, tier, seed)
    plan = []
    q = tier == "quick"
    for v in ("tsan", "tsan_ndebug"):
        plan += [(v, ["refcount", 8, 20000 if q else 200000, 2], None, ""), (v, ["refcount", 3, 30000 if q else 300000, 1], None, ""), (v, ["release", 8, 1500 if q else 20000], None, ""), (v, ["release", 2, 3000 if q else 40000], None, ""),
                 (v, ["disjoint", 6, 150 if q else 2000], None, ""), (v, ["readers", 8, 15000 if q else 200000], None, ""), (v, ["seed", 8, 1], {"VF_SEED_MODE": "barrier:8"}, "")]
    reps = 20 if q else 200
    for i in range(reps):
        nt = [2, 4, 8, 16, 32][i % 5] if not q else [4, 8, 16][i % 3]
        plan.append(("thr", ["refcount", nt, 1000000 // max(1, nt // 4) if q else 4000000, 1 + i % 4], None, ""))
    for i in range(10 if q else 60):
        plan.append(("thr", ["release", [2, 3, 4, 8, 16][i % 5], 20000 if q else 200000], None, ""))
    for i in range(8 if q else 40):
        # container mode (4th argument 2): all holders but one keep their reference inside an array / object of their own and release the container
        plan.append(("thr", ["release", [2, 3, 4, 8][i % 4], 20000 if q else 200000, 2], None, ""))
    plan += [("tsan", ["release", 2, 3000 if q else 40000, 2], None, ""), ("tsan_ndebug", ["release", 4, 2000 if q else 30000, 2], None, "")]
    # slot mode (4th argument 3): the holders overwrite the element / replace or delete the member that holds their reference, then drop the container
    plan += [("tsan", ["release", 3, 3000 if q else 40000, 3], None, ""), ("tsan_ndebug", ["release", 5, 2000 if q else 30000, 3], None, "")]
    for i in range(8 if q else 40):
        plan.append(("thr", ["release", [2, 3, 4, 8][i % 4], 20000 if q else 200000, 3], None, ""))
    plan += [("tsan", ["fmtglobal", 4, 1], None, ""), ("thr", ["fmtglobal", 8, 1], None, ""), ("thr", ["fmtglobal", 3, 1], None, "")]
    plan += [("tsan", ["mutate", 4, 20000 if q else 200000], None, ""), ("tsan_ndebug", ["mutate", 3, 20000 if q else 200000], None, ""), ("thr", ["mutate", 8, 200000 if q else 2000000], None, "")]
    plan.append(("thr", ["readers", 12, 300000], None, ""))
    for i in range(300 if q else 20000):
        nt = [2, 4, 8, 16][i % 4]
        plan.append(("thr", ["seed", nt, 1 + (i // 4) % 2], {"VF_SEED_MODE": "barrier:%d" % nt}, ""))   # (every other group of trials re-selects the default string hash before the late look)
    for i in range(24 if q else 400):
        plan.append(("thr", ["seed", [1, 2, 4, 8][i % 4], 1 + (i // 4) % 2], {"VF_SEED_MODE": "minus1"}, ""))
    plan.append(("tsan", ["seed", 4, 1], {"VF_SEED_MODE": "minus1"}, ""))
    sh = core.parallel(job, seed=seed, tier=tier, exes=exes, plan=plan)
    chk.absorb(sh)
    chk.rule = ("ENABLE_THREADING builds: (1) ThreadSanitizer (asserts on, and -DNDEBUG) over 6 scenarios: net-zero get/put by 3-8 threads on shared nodes, concurrent final release, disjoint trees, "
                "readers+holders of a shared tree, seed race; reports are counted from the log and classified (refcount / seed-publication / other). (2) -O2 stress: 2-32 threads x ~10^6 get/put pairs on 1-4 nodes, "
                "final put must free, callback exactly once and never early; concurrent release: exactly one freeing put per round (winner histogram = distinct schedules observed). (3) seed trials, one process each: "
                "all threads held inside json_c_get_random_seed() until everyone entered, each handed a different value; every thread's hash of a fixed key must equal the late value. "
                "evaluations = process runs; distinct = distinct (variant, scenario, parameters)")
    chk.assumptions = ["TSan reports located on the global random_seed (volatile double-checked read vs CAS) are recorded, not verdicts: the seed clause is decided behaviourally",
                       "lost-update detection by stress is probabilistic; TSan sees only executed accesses"]
    if chk.merged.counters.get("inconclusive_timeouts"):
        chk.extra["inconclusive_runs"] = chk.merged.counters["inconclusive_timeouts"]
    return chk.finish(min_evaluations=50)

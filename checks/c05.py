"""C05 — every node is destroyed exactly once, exactly when its last owner releases it."""
import random

from vflib import core, build

PID = "C05"
NHANDLES = 24
KEYS = [b"a", b"b", b"c", b"", b"k/1", b"x~y", b"long" * 20]


class Node:
    __slots__ = ("uid", "kind", "kids", "rc", "alive", "cb0")

    def __init__(self, uid, kind):
        self.uid, self.kind, self.rc, self.alive = uid, kind, 1, True
        self.cb0 = False   # a delete callback is registered although the userdata pointer is NULL (the callback then reports 0)
        self.kids = {} if kind == "obj" else [] if kind == "arr" else None

    def children(self):
        if self.kind == "obj":
            return [c for c in self.kids.values() if c is not None]
        if self.kind == "arr":
            return [c for c in self.kids if c is not None]
        return []


def contains(a, b):
    """is b reachable from a (including a itself)"""
    if a is b:
        return True
    return any(contains(c, b) for c in a.children())


def has_cb0(n):
    return n is not None and (n.cb0 or any(has_cb0(c) for c in n.children()))


def decref(n, dead):
    n.rc -= 1
    if n.rc == 0:
        n.alive = False
        if n.uid:
            dead.append(n.uid)  # anonymous nodes (created by json_patch from the patch's values) carry no callback
        elif n.cb0:
            dead.append(0)
        for c in n.children():
            decref(c, dead)


def struct(n):
    if n is None:
        return " n"
    s = " %d" % n.uid
    if n.kind == "arr":
        s += "[" + "".join(struct(c) for c in n.kids) + " ]"
    elif n.kind == "obj":
        s += "{" + "".join(" k" + k.hex() + struct(c) for k, c in n.kids.items()) + " }"
    return s


def copy_tree(n, nextuid):
    if n is None:
        return None
    if n.uid:
        m = Node(nextuid[0], n.kind)
        nextuid[0] += 1
    else:
        m = Node(0, n.kind)  # the tracking shallow copy only tags copies of tagged nodes
    if n.kind == "obj":
        for k, c in n.kids.items():
            m.kids[k] = copy_tree(c, nextuid)
    elif n.kind == "arr":
        m.kids = [copy_tree(c, nextuid) for c in n.kids]
    return m




def esc_tok(k):
    return k.replace(b"~", b"~0").replace(b"/", b"~1")


def pick_location(rng, root, for_existing=False):
    """walk 0-1 levels below root; returns (parent node, pointer bytes up to parent, last token bytes, existing child or 'absent')"""
    parent, prefix = root, b""
    subs = []
    if root.kind == "obj":
        subs = [(esc_tok(k), c) for k, c in root.kids.items() if c is not None and c.kind in ("obj", "arr")]
    elif root.kind == "arr":
        subs = [(str(i).encode(), c) for i, c in enumerate(root.kids) if c is not None and c.kind in ("obj", "arr")]
    if subs and rng.random() < 0.5:
        t, parent = rng.choice(subs)
        prefix = b"/" + t
    if parent.kind == "obj":
        keys = list(parent.kids)
        if for_existing:
            if not keys:
                return None
            k = rng.choice(keys)
        else:
            k = rng.choice(keys + KEYS) if keys else rng.choice(KEYS)
        return parent, prefix, esc_tok(k), k
    L = len(parent.kids)
    if for_existing:
        if not L:
            return None
        i = rng.randrange(L)
        return parent, prefix, str(i).encode(), i
    i = rng.choice([L, L, "-", rng.randrange(L + 1)])
    return parent, prefix, (b"-" if i == "-" else str(i).encode()), i


def model_set(parent, where, v, dead, insert=False):
    """place v (a Node or None) at `where` in parent: member name / index / '-' ; returns False if illegal"""
    if parent.kind == "obj":
        old = parent.kids.get(where)
        if where in parent.kids and old is not None:
            decref(old, dead)
        parent.kids[where] = v
        return True
    L = len(parent.kids)
    if where == "-":
        parent.kids.append(v)
        return True
    if where > L:
        return False
    if insert or where == L:
        parent.kids.insert(where, v)
    else:
        if parent.kids[where] is not None:
            decref(parent.kids[where], dead)
        parent.kids[where] = v
    return True


def model_remove(parent, where, dead, release=True):
    if parent.kind == "obj":
        old = parent.kids.pop(where)
    else:
        old = parent.kids.pop(where)
    if release and old is not None:
        decref(old, dead)
    return old


def gen_history(rng, nops):
    """online generation against the ownership model: returns (cmds, expectations)"""
    H = {}          # handle -> [node, owns]
    cmds, exp = [], []
    uid = [100]

    def free_handle():
        fs = [h for h in range(NHANDLES) if h not in H]
        return rng.choice(fs) if fs else None

    def owned():
        return [h for h, (n, o) in H.items() if o and n is not None]

    def alive_handles(kind=None):
        return [h for h, (n, o) in H.items() if n is not None and n.alive and (kind is None or n.kind == kind)]

    def purge():
        for h in [h for h, (n, o) in H.items() if n is not None and not n.alive]:
            del H[h]

    def emit(cmd, **e):
        cmds.append(cmd)
        exp.append(e)

    for _ in range(nops):
        purge()
        r = rng.random()
        if r < 0.22 or not H:
            h = free_handle()
            if h is None:
                continue
            uid[0] += 1
            kind = rng.choice(["obj", "arr", "leaf", "leaf"])
            spec = {"obj": "obj", "arr": "arr", "leaf": rng.choice(["int %d" % uid[0], "str " + b"leaf".hex(), "bool 1", "strz " + b"z".hex()])}[kind]
            H[h] = [Node(uid[0], kind), True]
            emit("NEW %d %d %s" % (h, uid[0], spec), new=True)
        elif r < 0.30:
            hs = alive_handles()
            h2 = free_handle()
            if not hs or h2 is None:
                continue
            h = rng.choice(hs)
            n = H[h][0]
            n.rc += 1
            H[h2] = [n, True]
            emit("GET %d %d" % (h, h2), plain=True)
        elif r < 0.45:
            hs = owned()
            if not hs:
                continue
            h = rng.choice(hs)
            n = H.pop(h)[0]
            dead = []
            decref(n, dead)
            emit("PUT %d" % h, ret=1 if not n.alive else 0, dels=dead)
        elif r < 0.62:
            # object add / replace (ownership of the value is transferred on success)
            cs = alive_handles("obj")
            vs = [h for h in owned()]
            if not cs:
                continue
            hc = rng.choice(cs)
            c = H[hc][0]
            k = rng.choice(KEYS)
            if rng.random() < 0.08:
                # self-add must fail and leave ownership with the caller
                emit("OADD %d x%s %d 0" % (hc, k.hex(), hc), ret=-1, dels=[])
                continue
            usenull = rng.random() < 0.1 or not vs
            if usenull:
                hn = free_handle()
                if hn is None:
                    continue
                cmds.append("NEW %d - null" % hn)
                exp.append({"new": True})
                v = None
                hv = hn
            else:
                hv = rng.choice(vs)
                # a value the caller holds its own reference to and that already IS a member of this object is stored back under its own name half of the
                # time: the member's old reference is released, the caller's is taken over -- nothing is destroyed, nothing leaks
                same = [(h, kk) for h in vs for kk, vv in c.kids.items() if vv is H[h][0]]
                if same and rng.random() < 0.5:
                    hv, k = rng.choice(same)
                v = H[hv][0]
                if contains(v, c):
                    continue  # would create a cycle
            dead = []
            old = c.kids.get(k)
            if k in c.kids and old is not None:
                decref(old, dead)
            c.kids[k] = v
            if v is not None:
                H[hv][1] = False  # reference transferred; the handle is now a borrowed pointer
            emit("OADD %d x%s %d %d" % (hc, k.hex(), hv, 4 if rng.random() < 0.2 else 0), ret=0, dels=dead, **({"tag": "member_stored_back_under_its_own_name"} if (v is not None and old is v) else {}))  # 4 = JSON_C_OBJECT_ADD_CONSTANT_KEY (interned key)
        elif r < 0.70:
            cs = [h for h in alive_handles("obj") if H[h][0].kids]
            if not cs:
                continue
            hc = rng.choice(cs)
            c = H[hc][0]
            k = rng.choice(list(c.kids) + [b"absent"])
            dead = []
            if k in c.kids:
                old = c.kids.pop(k)
                if old is not None:
                    decref(old, dead)
            emit("ODEL %d x%s" % (hc, k.hex()), dels=dead)
        elif r < 0.86:
            cs = alive_handles("arr")
            vs = owned()
            if not cs:
                continue
            hc = rng.choice(cs)
            c = H[hc][0]
            op = rng.choice(["add", "put", "put", "ins", "del", "del", "putfail"])
            L = len(c.kids)
            if op == "del":
                if not L:
                    continue
                i = rng.randrange(L)
                cnt = rng.choice([1, 1, 2, L - i])
                cnt = min(cnt, L - i)
                dead = []
                for x in c.kids[i:i + cnt]:
                    if x is not None:
                        decref(x, dead)
                del c.kids[i:i + cnt]
                emit("ADEL %d %d %d" % (hc, i, cnt), ret=0, dels=dead)
                continue
            if not vs:
                continue
            hv = rng.choice(vs)
            inside = [h for h in vs if any(x is H[h][0] for x in c.kids)]
            if inside and op == "put" and rng.random() < 0.5:
                hv = rng.choice(inside)
            v = H[hv][0]
            if contains(v, c):
                continue
            if op == "putfail":
                emit("APUT %d max %d" % (hc, hv), ret=-1, dels=[])
                continue
            dead = []
            tagged = False
            if op == "add":
                c.kids.append(v)
                cmd = "AADD %d %d" % (hc, hv)
            elif op == "put":
                i = rng.choice([0, L, L + 2, max(0, L - 1), rng.randrange(L + 1)])
                same = [j for j, x in enumerate(c.kids) if x is v]
                if same and rng.random() < 0.6:
                    i = rng.choice(same)   # the element is stored back into its own slot (the caller holds a reference of its own)
                if i < L:
                    if c.kids[i] is not None:
                        if c.kids[i] is v and v.rc == 1:
                            continue
                        if c.kids[i] is v:
                            tagged = True
                        decref(c.kids[i], dead)
                    c.kids[i] = v
                else:
                    c.kids += [None] * (i - L) + [v]
                cmd = "APUT %d %d %d" % (hc, i, hv)
            else:
                i = rng.randrange(L + 1)
                c.kids.insert(i, v)
                cmd = "AINS %d %d %d" % (hc, i, hv)
            if not v.alive:
                # the value itself died because it was (transitively) inside the overwritten element: not a legal history
                raise AssertionError("generator bug")
            H[hv][1] = False
            emit(cmd, ret=0, dels=dead, **({"tag": "element_stored_back_into_its_own_slot"} if tagged else {}))
        elif r < 0.89:
            hs = alive_handles()
            if not hs:
                continue
            h = rng.choice(hs)
            n = H[h][0]
            uid[0] += 1
            old = [n.uid] if n.uid else ([0] if n.cb0 else [])
            if rng.random() < 0.08:
                # a callback registered with a NULL userdata pointer: it is still a registration, released like any other
                n.uid, n.cb0 = 0, True
                emit("UD %d 0" % h, dels=old, tag="callback_registered_with_NULL_userdata")
                continue
            if n.uid and rng.random() < 0.12:
                # registered again with the very same (userdata, callback) pair: a new registration all the same -- the old one is released now, this one when the node dies
                emit(("UD %d %d" if rng.random() < 0.4 else "SS %d %d 0") % (h, n.uid), dels=old, tag="same_userdata_and_callback_registered_again")
                continue
            n.uid, n.cb0 = uid[0], False
            if rng.random() < 0.5:
                emit("UD %d %d" % (h, uid[0]), dels=old)
            else:
                emit("SS %d %d %d" % (h, uid[0], rng.randrange(2)), dels=old)
        elif r < 0.905:
            # json_pointer_set: the value's reference is transferred on success (exact model: RFC 6901 location, put_idx semantics)
            cs = alive_handles("obj") + alive_handles("arr")
            vs = owned()
            if not cs or not vs:
                continue
            hc = rng.choice(cs)
            roots = [h_ for h_ in vs if H[h_][0] is H[hc][0] and h_ != hc] if H[hc][1] else []   # (the root handle must itself own a reference)
            if roots and rng.random() < 0.5:
                # the whole document is "replaced" by itself: json_pointer_set(&root, "", root) with a reference of the caller's own -- the old reference is released,
                # the caller's is taken over, the node lives on
                hv = rng.choice(roots)
                H[hv][0].rc -= 1
                H[hv][1] = False
                emit("PSET %d x %d" % (hc, hv), ret=0, dels=[], tag="pointer_set_of_the_root_onto_itself")
                continue
            hv = rng.choice(vs)
            v = H[hv][0]
            loc = pick_location(rng, H[hc][0])
            # a value the caller holds its own reference to may be set at the very location where it already is (same node, same pointer)
            occ = []
            for h_ in vs:
                root_ = H[hc][0]
                for par, pre in [(root_, b"")] + [(c_, b"/" + (esc_tok(k_) if root_.kind == "obj" else str(k_).encode())) for k_, c_ in (root_.kids.items() if root_.kind == "obj" else enumerate(root_.kids)) if c_ is not None and c_.kind in ("obj", "arr")]:
                    for w_, x_ in (par.kids.items() if par.kind == "obj" else enumerate(par.kids)):
                        if x_ is H[h_][0]:
                            occ.append((h_, (par, pre, esc_tok(w_) if par.kind == "obj" else str(w_).encode(), w_)))
            same_loc = False
            if occ and rng.random() < 0.5:
                hv, loc = rng.choice(occ)
                v = H[hv][0]
                same_loc = True
            if loc is None:
                continue
            parent, prefix, last, where = loc
            if contains(v, parent):
                continue
            dead = []
            if not model_set(parent, where, v, dead):
                continue
            if not v.alive:
                raise AssertionError("generator bug (pset)")
            H[hv][1] = False
            emit("PSET %d x%s %d" % (hc, (prefix + b"/" + last).hex(), hv), ret=0, dels=dead, **({"tag": "pointer_set_of_a_node_at_its_own_location"} if same_loc else {}))
        elif r < 0.92:
            # json_patch_apply in place with remove / move / add-scalar / replace-scalar operations (exactly modelled);
            # the patch document stays the caller's and must be freed by the caller's put
            rs = [h for h in owned() if H[h][0].kind in ("obj", "arr") and H[h][0].rc == 1]
            hp = free_handle()
            if not rs or hp is None:
                continue
            hr = rng.choice(rs)
            root = H[hr][0]
            ops, dead, ok = [], [], True
            for _ in range(rng.choice([1, 2, 3])):
                k = rng.random()
                if k < 0.35:
                    loc = pick_location(rng, root, for_existing=True)
                    if loc is None:
                        continue
                    parent, prefix, last, where = loc
                    model_remove(parent, where, dead)
                    ops.append(["{", "k" + b"op".hex(), "s" + b"remove".hex(), "k" + b"path".hex(), "s" + (prefix + b"/" + last).hex(), "}"])
                elif k < 0.6:
                    src = pick_location(rng, root, for_existing=True)
                    if src is None:
                        continue
                    sp, spre, slast, swhere = src
                    node = sp.kids[swhere]
                    frm = spre + b"/" + slast
                    saved_items = list(sp.kids.items()) if sp.kind == "obj" else None
                    moved = model_remove(sp, swhere, dead, release=False)
                    dst = pick_location(rng, root)
                    if dst is None or (moved is not None and contains(moved, dst[0])) or (dst[1] + b"/" + dst[2] + b"/").startswith(frm + b"/"):
                        # (RFC 6902: 'from' must not be a proper prefix of 'path' -- textually, even if the index would denote another node after the removal)
                        # cannot move a container below itself: put it back where it was
                        if sp.kind == "obj":
                            sp.kids[swhere] = moved
                            sp.kids = {k: sp.kids[k] for k, _ in saved_items}
                        else:
                            sp.kids.insert(swhere, moved)
                        continue
                    dp, dpre, dlast, dwhere = dst
                    if dpre + b"/" + dlast == frm:
                        # moving a value onto itself changes nothing (and keeps its position)
                        if sp.kind == "obj":
                            sp.kids[swhere] = moved
                            sp.kids = {k: sp.kids[k] for k, _ in saved_items}
                        else:
                            sp.kids.insert(swhere, moved)
                        ops.append(["{", "k" + b"op".hex(), "s" + b"move".hex(), "k" + b"from".hex(), "s" + frm.hex(), "k" + b"path".hex(), "s" + frm.hex(), "}"])
                        continue
                    if dp.kind == "arr" and dwhere != "-" and dwhere > len(dp.kids):
                        dwhere, dlast = len(dp.kids), str(len(dp.kids)).encode()
                    model_set(dp, dwhere, moved, dead, insert=True)
                    ops.append(["{", "k" + b"op".hex(), "s" + b"move".hex(), "k" + b"from".hex(), "s" + frm.hex(), "k" + b"path".hex(), "s" + (dpre + b"/" + dlast).hex(), "}"])
                else:
                    loc = pick_location(rng, root, for_existing=(k > 0.85))
                    if loc is None:
                        continue
                    parent, prefix, last, where = loc
                    anon = Node(0, "leaf")
                    anon.rc = 1
                    opname = b"replace" if k > 0.85 else b"add"
                    model_set(parent, where, anon, dead, insert=(opname == b"add"))
                    ops.append(["{", "k" + b"op".hex(), "s" + opname.hex(), "k" + b"path".hex(), "s" + (prefix + b"/" + last).hex(), "k" + b"value".hex(), rng.choice(["i777", "s" + b"leaf".hex(), "t", "s" + b"z".hex()]), "}"])   # (a third of the string/boolean leaves get replaced by an EQUAL value: still a different node)
            if not ops:
                continue
            if not root.alive:
                raise AssertionError("generator bug (patch root died)")
            toks = ["["] + [t for o in ops for t in o] + ["]"]
            cmds.append("B %d %s" % (hp, " ".join(toks)))
            exp.append({"new": True})
            emit("PATCH %d %d 0" % (hr, hp), ret=0, dels=dead)
            emit("PUT %d" % hp, ret=1, dels=[])
        elif r < 0.93:
            # deep copy with the DEFAULT shallow copy: every node of the script carries userdata without a known serializer, so the
            # copy must fail (-1), build nothing, destroy nothing and leave the source untouched (a half-built copy must be released)
            hs = alive_handles()
            h2 = free_handle()
            if not hs or h2 is None:
                continue
            h = rng.choice(hs)
            emit("DCOPY %d %d 0" % (h, h2), failcopy=True, dels=[])
        elif r < 0.96:
            hs = alive_handles()
            h2 = free_handle()
            if not hs or h2 is None:
                continue
            h = rng.choice(hs)
            if has_cb0(H[h][0]):
                continue   # (a node with a callback but NULL userdata cannot be copied by the default shallow copy the tracking copy builds on: not modelled)
            nu = [uid[0] + 1]
            cp = copy_tree(H[h][0], nu)
            first = uid[0] + 1
            uid[0] = nu[0]
            H[h2] = [cp, True]
            emit("DCOPY %d %d 1 %d" % (h, h2, first), copy=True, dels=[])
        else:
            hs = alive_handles()
            if not hs:
                continue
            h = rng.choice(hs)
            emit("UIDS %d" % h, struct=struct(H[h][0]))
    # release everything that is still owned; every node must be gone afterwards
    purge()
    for h in sorted(owned()):
        if h not in H:
            continue
        n = H.pop(h)[0]
        dead = []
        decref(n, dead)
        emit("PUT %d" % h, ret=1 if not n.alive else 0, dels=dead)
        purge()
    return cmds, exp


def parse_del(ln):
    d = ln.split("del=")[1].split()[0]
    return [] if d == "-" else [int(x) for x in d.split(",")]


def shard_fn(shard, nshards, seed, tier, exe, nhist):
    rng = random.Random("%d/%d/c05" % (seed, shard))
    sh = core.Shard()
    cases, meta = [], {}
    for i in range(nhist // nshards):
        cmds, exp = gen_history(rng, rng.choice([30, 100, 300]))
        cid = "%d.%d" % (shard, i)
        cases.append((cid, cmds))
        meta[cid] = exp
    if shard == 0:
        # one node with 2^31 + 1 owners (the counter is 32 bits wide: every value up to UINT32_MAX-1 is a legitimate count): a release that is not the
        # last one must not destroy it, the last one must.  Also 65537 and 2^24+1 owners.
        for k, n in enumerate([65536, 1 << 24, 1 << 31]):
            cmds = ["NEW 0 %d str x6f776e6564" % (900 + k), "GETN 0 %d" % n, "PUTN 0 1", "PUTN 0 %d" % (n - 1), "PUT 0"]
            exp = [{}, {}, {"ret": 0, "dels": []}, {"ret": 0, "dels": []}, {"ret": 1, "dels": [900 + k]}]
            cid = "0.owners%d" % k
            cases.append((cid, cmds))
            meta[cid] = exp
            sh.count("many_owner_histories")
    results, crashes = core.run_script(exe, cases, tag="c05", env=core.ambient_env(sh, shard))
    cmdmap = dict(cases)
    for cr in crashes:
        kind, frame = cr.summary()
        i = min(len(cr.partial), len(cmdmap[cr.cid]) - 1)
        sh.violation("C05/%s/%s/%s" % (kind, frame, cmdmap[cr.cid][i].split()[0]), "memory error (%s) at command #%d %s" % (kind, i, cmdmap[cr.cid][i][:80]),
                     {"driver": "jcdrv", "variant": "asan", "script": cmdmap[cr.cid], "stderr": cr.stderr[-2500:]})
    for cid, lines in results.items():
        cmds, exp = cmdmap[cid], meta[cid]
        rep = {"driver": "jcdrv", "variant": "asan", "script": cmds}
        seen = set()
        key = None
        for ci, (c, e, ln) in enumerate(zip(cmds, exp, lines)):
            sh.evaluations += 1
            op = c.split()[0]
            if ln.startswith("!"):
                raise core.Inconclusive("driver rejected %r: %s" % (c, ln))
            if "dels" in e:
                dels = parse_del(ln)
                dup = [d for d in dels if d in seen and d != 0]   # 0 = a callback registered with NULL userdata; several nodes may have one
                seen.update(dels)
                if e.get("tag") == "same_userdata_and_callback_registered_again":
                    # the same pair was registered a second time by this very command: the release seen now is that of the FIRST registration, one more is due later
                    seen.difference_update(e["dels"])
                if dup:
                    key, what = "destroyed-twice", "uid(s) %s destroyed a second time at %r" % (dup, c)
                elif sorted(dels) != sorted(e["dels"]):
                    early = [d for d in dels if d not in e["dels"]]
                    late = [d for d in e["dels"] if d not in dels]
                    key = "destroyed-too-early/" + op if early else "not-destroyed-at-last-release/" + op
                    what = "%r destroyed %s, ownership model says %s" % (c, dels, e["dels"])
            if not key and "ret" in e:
                ret = int(ln.split()[1])
                if ret != e["ret"]:
                    key, what = "return/" + op, "%r returned %d, model says %d" % (c, ret, e["ret"])
            if not key and "struct" in e:
                if ln[1:] != e["struct"]:
                    key, what = "structure", "tree under handle differs from the model: %s vs %s" % (ln[1:120], e["struct"][:120])
                sh.count("structure_probes")
            if not key and e.get("copy"):
                if int(ln.split()[1]) != 0:
                    key, what = "copy-failed", "deep copy returned %s" % ln.split()[1]
            if not key and e.get("failcopy"):
                if int(ln.split()[1]) != -1:
                    key, what = "copy-of-uncopyable-userdata-succeeded", "deep copy with the default shallow copy of nodes carrying foreign userdata returned %s" % ln.split()[1]
                sh.count("op.DCOPY_failing")
            if key:
                sh.violation("C05/" + key, what + " (command #%d)" % ci, dict(rep, failing_command=ci))
                break
            sh.count("op." + op)
            if e.get("tag"):
                sh.count("op." + e["tag"])
        if not key and lines[-1].split()[1] != "live=0":
            sh.violation("C05/leak", "memory still allocated after every reference was released: " + lines[-1], rep)
        sh.nontrivial("\n".join(cmds))
        if len(sh.samples) < 1:
            sh.samples.append({"history": cmds[:14], "replies": lines[:14]})
    return sh


def run(tier, seed):
    bdir = build.build("asan")
    chk = core.Check(PID, tier, seed)
    sh = core.parallel(shard_fn, seed=seed, tier=tier, exe=bdir + "/jcdrv", nhist=24000 if tier == "quick" else 200000)
    chk.absorb(sh)
    if tier == "thorough":
        import random as _r
        pdir = build.build("plain")
        rng = _r.Random("%d/mc" % seed)
        cases = []
        for i in range(400):
            cmds, _e = gen_history(rng, 100)
            cases.append(("mc%d" % i, cmds))
        chk.absorb(core.run_memcheck(pdir + "/jcdrv", cases, PID))
        chk.extra["memcheck"] = "valgrind memcheck over 400 histories on the uninstrumented build"
    chk.rule = ("histories of 30-300 API calls over a pool of 24 handles generated ONLINE against an ownership model (owner multisets: external handles + container slots; no cycles; the caller owns what it "
                "transfers): constructors, get, put, object add/replace/delete, array add/put_idx/insert_idx/del_idx, set_userdata/set_serializer replacing a callback, deep copy with a tracking shallow-copy "
                "function, deliberately failing calls (self-add, SIZE_MAX index); shared sub-trees (DAGs) included. After every call: put's return value, the set of destruction callbacks (uids) and, on probes, "
                "the whole uid structure are compared with the model; nothing may be destroyed twice; at the end everything must be destroyed and the ledger must be zero. "
                "evaluations = calls; distinct = distinct histories")
    chk.assumptions = ["destruction is observed through json_object_set_userdata delete callbacks on every node the script creates and through the allocation ledger"]
    return chk.finish(min_evaluations=50000)

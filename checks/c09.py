"""C09 — equality is a structural equivalence and deep copy gives an equal, disjoint tree."""
import math
import os
import random

from vflib import core, build
from gen.trees import TreeGen
from oracle.refjson import from_bits, dbits

PID = "C09"
NAN_TOK = "d7ff8000000000000"


def toks_to_value(toks):
    pos = [0]

    def node():
        t = toks[pos[0]]
        pos[0] += 1
        c = t[0]
        if c == "n":
            return None
        if c == "t":
            return True
        if c == "f":
            return False
        if c in "iu":
            return int(t[1:])
        if c == "d":
            return from_bits(int(t[1:], 16))
        if c == "D":
            return from_bits(int(t[1:].split(":")[0], 16))
        if c == "s":
            return bytes.fromhex(t[1:])
        if c == "[":
            out = []
            while toks[pos[0]] != "]":
                out.append(node())
            pos[0] += 1
            return out
        if c == "{":
            out = {}
            while toks[pos[0]] != "}":
                k = bytes.fromhex(toks[pos[0]][1:])
                pos[0] += 1
                out[k] = node()
            pos[0] += 1
            return out
        raise ValueError(t)

    return node()


def kind(v):
    if v is None:
        return "null"
    if isinstance(v, bool):
        return "bool"
    if isinstance(v, int):
        return "int"
    if isinstance(v, float):
        return "double"
    if isinstance(v, bytes):
        return "string"
    if isinstance(v, list):
        return "array"
    return "object"


def veq(a, b):
    """equality of denoted values per the property (different nodes: a NaN is equal to nothing)"""
    ka, kb = kind(a), kind(b)
    if ka != kb:
        return False
    if ka == "double":
        return a == b  # IEEE: NaN != NaN, 0.0 == -0.0
    if ka == "array":
        return len(a) == len(b) and all(veq(x, y) for x, y in zip(a, b))
    if ka == "object":
        return a.keys() == b.keys() and all(veq(a[k], b[k]) for k in a)
    return a == b


def has_nan(v):
    if isinstance(v, float):
        return v != v
    if isinstance(v, list):
        return any(has_nan(x) for x in v)
    if isinstance(v, dict):
        return any(has_nan(x) for x in v.values())
    return False


def permute(rng, toks):
    """same value, members of every object in a different order (and ints in the other representation)"""
    v = toks_to_structure(toks)

    def emit(n):
        k, p = n
        if k == "obj":
            items = list(p)
            rng.shuffle(items)
            out = ["{"]
            for key, child in items:
                out += [key] + emit(child)
            return out + ["}"]
        if k == "arr":
            out = ["["]
            for child in p:
                out += emit(child)
            return out + ["]"]
        t = p
        if t[0] == "i" and int(t[1:]) >= 0 and rng.random() < 0.5:
            t = "u" + t[1:]
        elif t[0] == "u" and int(t[1:]) < (1 << 63) and rng.random() < 0.5:
            t = "i" + t[1:]
        elif t[0] == "d" and t in ("d0000000000000000", "d8000000000000000") and rng.random() < 0.5:
            t = "d8000000000000000" if t == "d0000000000000000" else "d0000000000000000"
        return [t]

    return emit(v)


def toks_to_structure(toks):
    pos = [0]

    def node():
        t = toks[pos[0]]
        pos[0] += 1
        if t == "[":
            out = []
            while toks[pos[0]] != "]":
                out.append(node())
            pos[0] += 1
            return ("arr", out)
        if t == "{":
            out = []
            while toks[pos[0]] != "}":
                k = toks[pos[0]]
                pos[0] += 1
                out.append((k, node()))
            pos[0] += 1
            return ("obj", out)
        return ("leaf", t)

    return node()


def mutate_tokens(rng, toks):
    """one deep change: replace a scalar, drop/add a member or element, change a key, null<->absent, truncate after NUL ..."""
    toks = list(toks)
    scal = [i for i, t in enumerate(toks) if t[0] in "iudDsntf"]
    r = rng.random()
    if scal and r < 0.7:
        i = rng.choice(scal)
        t = toks[i]
        c = t[0]
        if c in "iu":
            v = int(t[1:])
            w = v + 1 if v < (1 << 64) - 1 else v - 1
            nt = rng.choice([("u%d" if w > (1 << 63) - 1 else "i%d") % w, "d%016x" % dbits(float(v)) if abs(v) < (1 << 53) else "i0", "s" + str(v).encode().hex()])
        elif c in "dD":
            f = from_bits(int(t[1:].split(":")[0], 16))
            nt = rng.choice(["d%016x" % (int(t[1:].split(":")[0], 16) ^ 1), "i%d" % int(f) if abs(f) < 1e15 and f == f else "n"])
        elif c == "s":
            b = bytes.fromhex(t[1:])
            nt = rng.choice(["s" + (b + b"\0").hex(), "s" + (b[:-1] if b else b"x").hex(), "s" + (b.split(b"\0")[0] + b"\0zz").hex() if b"\0" in b else "s" + (b + b"x").hex(), "n"])
        elif c == "n":
            nt = rng.choice(["f", "i0", "s", "[ ]".split()[0] if False else "s6e756c6c"])
        else:
            nt = {"t": "f", "f": "t"}[c] if rng.random() < 0.6 else "i%d" % (c == "t")
        if nt == t:
            nt = "s" + b"other".hex()
        toks[i] = nt
        return toks
    opens = [i for i, t in enumerate(toks) if t in ("[", "{")]
    if not opens:
        return ["[", *toks, "]"]
    i = rng.choice(opens)
    if toks[i] == "[":
        toks.insert(i + 1, "n")
    else:
        toks[i + 1:i + 1] = ["k" + b"\x01extra".hex(), "n"]
    return toks


def paths(v, pre=()):
    yield pre, v
    if isinstance(v, list):
        for i, x in enumerate(v):
            yield from paths(x, pre + ("i%d" % i,))
    elif isinstance(v, dict):
        for k, x in v.items():
            yield from paths(x, pre + ("k" + k.hex(),))


def mutation_cmds(rng, v, h):
    """commands mutating the node in handle h (whose model value is v) in place"""
    k = kind(v)
    if k == "int":
        return ["SET %d i64 %d" % (h, (v + 7) % (1 << 62))]
    if k == "double":
        return ["SET %d dbl %016x" % (h, dbits(1234.5 if v != 1234.5 else 2.5))]
    if k == "bool":
        return ["SET %d bool %d" % (h, 0 if v else 1)]
    if k == "string":
        return ["SSTR %d x%s" % (h, (v + b"-changed-so-that-it-must-reallocate-------").hex())]
    if k == "array":
        r = rng.random()
        if v and r < 0.4:
            return ["ADEL %d 0 1" % h]
        return ["NEW 9 - int 424242", "AADD %d 9" % h]
    if k == "object":
        if v and rng.random() < 0.4:
            return ["ODEL %d x%s" % (h, next(iter(v)).hex())]
        return ["NEW 9 - int 424242", "OADD %d x%s 9 0" % (h, b"\x02added".hex())]
    return None


def a_null(bcmd):
    return [t for t in bcmd.split()[2:] if t == "n"]


def history_cmds(rng, toks, h):
    """commands that grow and then shrink containers of the tree in handle h back to the same VALUE (equality and copies must not depend on how a tree
    came to hold its value: table sizes, array capacities, tombstones)"""
    v = toks_to_value(toks)
    cand = [(p, x) for p, x in paths(v) if isinstance(x, (dict, list))]
    out = []
    strs = [(p, x) for p, x in paths(v) if isinstance(x, bytes)]
    if strs and rng.random() < 0.5:
        # a string that was longer for a while (separately allocated storage from then on) and is set back to its bytes
        for p, x in rng.sample(strs, min(len(strs), rng.choice([1, 2]))):
            out += ["NAV %d 5 %s" % (h, " ".join(p)), "SSTR 5 x" + (x + b"-grown-for-a-while-" * rng.choice([1, 3, 20])).hex(), "SSTR 5 x" + x.hex()]
    dbls = [p for p, x in paths(v) if isinstance(x, float) and x == x]
    if dbls and rng.random() < 0.5:
        # a double set (in place) to the value it already has: if it carried its source text, it no longer does; the value is the same
        for p in rng.sample(dbls, min(len(dbls), 2)):
            x = v
            for st in p:
                x = x[int(st[1:])] if st[0] == "i" else x[bytes.fromhex(st[1:])]
            out += ["NAV %d 5 %s" % (h, " ".join(p)), "SET 5 dbl %016x" % dbits(x)]
    if not cand:
        return out
    for p, x in rng.sample(cand, min(len(cand), rng.choice([1, 1, 2]))):
        k = rng.choice([1, 5, 12, 13, 24, 30, 50, 90, 180])
        out.append("NAV %d 5 %s" % (h, " ".join(p)))
        if isinstance(x, dict):
            keys = [(b"\x03fill%d" % j).hex() for j in range(k)]
            for j, kk in enumerate(keys):
                out += ["NEW 9 - int %d" % j, "OADD 5 x%s 9 0" % kk]
            order = list(keys)
            if rng.random() < 0.5:
                rng.shuffle(order)
            out += ["ODEL 5 x%s" % kk for kk in order]
        else:
            n0 = len(x)
            for j in range(k):
                out += ["NEW 9 - int %d" % j, "AADD 5 9"]
            out.append("ADEL 5 %d %d" % (n0, k))
            if rng.random() < 0.3:
                out.append("ASHRINK 5 %d" % rng.choice([0, 1, 5]))
    return out


def shard_fn(shard, nshards, seed, tier, exe, npairs, ncopies):
    rng = random.Random("%d/%d/c09" % (seed, shard))
    sh = core.Shard()
    tg = TreeGen(rng, max_depth=5, budget=20)
    cases, meta = [], {}

    def tree(nan=0.0):
        tg.big = rng.random() < 0.25  # large containers / long strings in a quarter of the trees only (64-flag serialization of copies is costly)
        toks, _ = tg.tree()
        if nan and rng.random() < nan:
            sc = [i for i, t in enumerate(toks) if t[0] in "dD"]
            if sc:
                toks = list(toks)
                toks[rng.choice(sc)] = NAN_TOK
        return toks

    n = 0
    for _ in range(npairs // nshards):
        a = tree(0.1)
        r = rng.random()
        if r < 0.3:
            b, rel = tree(), "independent"
        elif r < 0.6:
            b, rel = mutate_tokens(rng, a), "mutated"
        elif r < 0.9:
            b, rel = permute(rng, a), "permuted"
        else:
            b, rel = list(a), "rebuilt"
        c = permute(rng, b) if rng.random() < 0.7 else (mutate_tokens(rng, b) if rng.random() < 0.5 else tree())
        cid = "%d.p%d" % (shard, n)
        n += 1
        hist = []
        if rng.random() < 0.25:
            hh = rng.randrange(3)
            hist = history_cmds(rng, (a, b, c)[hh], hh)
            if hist:
                rel += "+history"
        if rng.random() < 0.1:
            # the second tree is built again after the process-wide string hash has been switched: two objects that hash their member names differently must compare like any others
            hist = hist + ["HASHFN 1", "PUT 1", "B 1 " + " ".join(b), "HASHFN 0"]
            sh.count("triples.one_tree_built_under_the_other_string_hash")
        nh = len(hist)
        cmds = ["B 0 " + " ".join(a), "B 1 " + " ".join(b), "B 2 " + " ".join(c)] + hist + [
                "EQ 0 1", "EQ 1 0", "EQ 1 2", "EQ 2 1", "EQ 0 2", "EQ 2 0", "EQ 0 0", "EQ 1 1", "EQ 2 2", "PUT 0", "PUT 1", "PUT 2"]
        cases.append((cid, cmds))
        meta[cid] = ("triple", rel, a, b, c, nh)
    for _ in range(ncopies // nshards):
        a = tree(0.05)
        va = toks_to_value(a)
        while va is None:
            a = tree(0.05)
            va = toks_to_value(a)
        cid = "%d.c%d" % (shard, n)
        n += 1
        hist = history_cmds(rng, a, 0) if rng.random() < 0.25 else []
        nh = len(hist)
        # (a fifth of the copies go through a shallow-copy callback of the caller's that answers "serializer data handled" (2) for every node that has none; and in a tenth the
        #  process-wide string hash is switched between building the source and copying it, so that source and copy hash their member names differently)
        cm = 3 if rng.random() < 0.2 else 0
        sw = rng.random() < 0.1
        cmds = ["HASHFN 0", "B 0 " + " ".join(a)] + hist + (["HASHFN 1"] if sw else []) + ["DCOPY 0 1 %d" % cm, "EQ 0 1", "EQ 1 0", "S64 0", "S64 1", "PTRS 0", "PTRS 1", "D 0", "D 1"]
        nhist = nh
        nh += 1 + int(sw)
        sh.count("copies.through_callback_returning_2" if cm else "copies.default_callback")
        if sw:
            sh.count("copies.string_hash_switched_between_source_and_copy")
        # mutate one side at a random node, then the other side must be unchanged
        side = rng.randrange(2)
        cand = [(p, v) for p, v in paths(va) if v is not None]
        p, v = rng.choice(cand)
        mc = mutation_cmds(rng, v, 5)
        if mc:
            cmds += ["NAV %d 5 %s" % (side, " ".join(p))] + mc
        cmds += ["D 0", "D 1"]
        # destroy the mutated side, the other must still be intact and usable
        # when the SOURCE is the side destroyed, the caller may recycle the storage of the names it lent to it (constant-key members): the copy must not notice
        scr = side == 0 and any(t[0] == "K" for t in a)
        cmds += ["PUT %d" % side] + (["KSCR 1"] if scr else []) + ["D %d" % (1 - side), "S %d 0" % (1 - side)] + (["KSCR 0"] if scr else []) + ["PUT %d" % (1 - side)]
        cases.append((cid, cmds))
        if sw:
            cmds.append("HASHFN 0")
        meta[cid] = ("copy", side, a, bool(mc), len(mc or []), nh, int(scr), nhist)
    # copies of nodes that use the library's userdata serializer with a deleter of the caller's: the copy gets its own string and the SAME deleter
    udmeta = {}
    for j in range(max(8, ncopies // nshards // 40)):
        a = tree(0.0)
        va = toks_to_value(a)
        cand = [p for p, x in paths(va) if x is not None]
        if va is None or not cand:
            continue
        p = rng.choice(cand)
        cid = "%d.u%d" % (shard, j)
        cmds = ["B 0 " + " ".join(a), "NAV 0 5 " + " ".join(p), "SS 5 0 4", "S 0 0", "DCOPY 0 1 0", "S 1 0", "PUT 1", "S 0 0", "PUT 0"]
        cases.append((cid, cmds))
        udmeta[cid] = True
        # ... and of nodes that carry a serializer FUNCTION of the caller's and no userdata at all (json_object_set_serializer(node, fn, NULL, NULL)): the default
        # shallow copy accepts those, and the copy must serialize through the same function, under every flag set
        p2 = rng.choice(cand)
        cid = "%d.v%d" % (shard, j)
        cmds = ["B 0 " + " ".join(a), "NAV 0 5 " + " ".join(p2), "SS 5 0 1", "S64 0", "DCOPY 0 1 0", "S64 1", "PUT 0", "S64 1", "PUT 1"]
        cases.append((cid, cmds))
        udmeta[cid] = ("serfn",)
    # one NaN node sitting in two containers (shared through json_object_get): "a NaN equals only the identical node" -- and it IS the identical node, at any depth;
    # the control pair holds two different NaN nodes at the same place
    for j in range(6):
        wrap = rng.choice([0, 1, 2, 5])
        obj = rng.random() < 0.5
        NANB = "7ff8000000000000"
        cmds = ["NEW 1 - dbl " + NANB, "GET 1 2", "NEW 4 - dbl " + NANB]
        for (h, src) in ((0, 1), (3, 2), (6, 4)):
            cmds.append("NEW %d - %s" % (h, "obj" if obj else "arr"))
            cmds.append(("OADD %d x%s %d 0" % (h, b"n".hex(), src)) if obj else "AADD %d %d" % (h, src))
            for w in range(wrap):
                # one more container around it: the shared node sits deeper
                cmds += ["NEW 7 - arr", "AADD 7 %d" % h, "ALIAS 7 %d" % h]
        cmds += ["EQ 0 3", "EQ 3 0", "EQ 0 6", "EQ 6 0", "EQ 0 0", "PUT 0", "PUT 3", "PUT 6"]
        cid = "%d.nan%d" % (shard, j)
        cases.append((cid, cmds))
        udmeta[cid] = ("nanshare", wrap)
    # very deep trees (thousands of levels): equality, deep copy and the copy's independence are recursive in the implementation and must not tire
    for j in range(2 if shard < 8 else 0):
        K = rng.choice([300, 1000, 1023, 1024, 1025, 2047, 2048, 2049, 3000, 4096, 4097, 5000])
        leaf = rng.choice(["i7", "s" + b"leaf".hex(), "t"])
        toks = [leaf]
        for lvl in range(K):
            toks = (["["] + toks + ["]"]) if (lvl + j) % 3 else (["{", "k" + b"c".hex()] + toks + ["}"])
        cid = "%d.deep%d" % (shard, j)
        cmds = ["B 0 " + " ".join(toks), "B 1 " + " ".join(toks), "EQ 0 1", "EQ 1 0", "DCOPY 0 2 0", "EQ 0 2", "EQ 2 0", "S 0 0", "S 2 0", "NAV 2 5 " + " ".join("i0" if (lvl + j) % 3 else "k" + b"c".hex() for lvl in reversed(range(K))),
                "SET 5 i64 99" if leaf == "i7" else "SSTR 5 x" + b"other".hex() if leaf[0] == "s" else "SET 5 bool 0", "EQ 0 2", "EQ 0 1", "PUT 0", "S 2 0", "PUT 1", "PUT 2"]
        cases.append((cid, cmds))
        udmeta[cid] = ("deep", K)
    # a shallow-copy callback that gives up on its k-th node (returns -1 without touching *dst): the copy fails, what was built so far is released exactly once,
    # the source is untouched
    for j in range(max(8, ncopies // nshards // 40)):
        a = tree(0.0)
        if toks_to_value(a) is None:
            continue
        nn = sum(1 for t in a if t[0] in "iudDsntf[{")
        cid = "%d.f%d" % (shard, j)
        k = rng.randrange(1, nn + 2)
        cmds = ["B 0 " + " ".join(a), "D 0", "DCOPY 0 1 2 5000 %d" % k, "D 0", "PUT 1", "PUT 0"]
        cases.append((cid, cmds))
        udmeta[cid] = ("failcopy", k, nn)
    results, crashes = core.run_script(exe, cases, tag="c09", env=core.ambient_env(sh, shard))
    cmdmap = dict(cases)
    for cr in crashes:
        kind_, frame = cr.summary()
        i = min(len(cr.partial), len(cmdmap[cr.cid]) - 1)
        sh.violation("C09/%s/%s/%s" % (kind_, frame, (meta[cr.cid][0] if cr.cid in meta else "copy-family")), "memory error (%s) at command #%d %s" % (kind_, i, cmdmap[cr.cid][i][:80]),
                     {"driver": "jcdrv", "variant": "asan", "script": cmdmap[cr.cid], "stderr": cr.stderr[-2500:]})
    for cid, lines in results.items():
        if cid in udmeta and isinstance(udmeta[cid], tuple) and udmeta[cid][0] == "nanshare":
            cmds = cmdmap[cid]
            rep = {"driver": "jcdrv", "variant": "asan", "script": cmds}
            eq = [l.split()[1] for c, l in zip(cmds, lines) if c.startswith("EQ ")]
            sh.evaluations += 5
            if any(l.startswith("!") for l in lines):
                raise core.Inconclusive("driver rejected a command in %s: %s" % (cid, [l for l in lines if l.startswith("!")][:2]))
            if eq[0] != "1" or eq[1] != "1":
                sh.violation("C09/nan/shared-node-compares-unequal", "two containers holding the SAME NaN node (%d levels down) compare as %s/%s" % (udmeta[cid][1], eq[0], eq[1]), rep)
            elif eq[2] != "0" or eq[3] != "0":
                sh.violation("C09/nan/different-nodes-compare-equal", "containers holding two different NaN nodes compare as %s/%s" % (eq[2], eq[3]), rep)
            elif eq[4] != "1":
                sh.violation("C09/not-reflexive", "equal(x,x) = %s for a container holding a NaN" % eq[4], rep)
            elif lines[-1].split()[1] != "live=0":
                sh.violation("C09/leak", "blocks left: " + lines[-1], rep)
            sh.count("nan_node_shared_between_two_containers")
            sh.nontrivial("\n".join(cmds))
            continue
        if cid in udmeta and isinstance(udmeta[cid], tuple) and udmeta[cid][0] == "deep":
            cmds = cmdmap[cid]
            K = udmeta[cid][1]
            rep = {"driver": "jcdrv", "variant": "asan", "script": [c[:300] for c in cmds], "levels": K}
            sh.evaluations += 8
            v = [l.split()[1] for l in lines]
            key = None
            if v[2] != "1" or v[3] != "1":
                key, what = "deep/equal-trees-compare-unequal", "two identical trees nested %d levels compare as %s/%s" % (K, v[2], v[3])
            elif v[4] != "0":
                key, what = "deep/copy-failed", "deep copy of a tree nested %d levels returned %s" % (K, v[4])
            elif v[5] != "1" or v[6] != "1":
                key, what = "deep/copy-not-equal", "the copy of a tree nested %d levels is not equal to its source" % K
            elif lines[7] != lines[8]:
                key, what = "deep/copy-serializes-differently", "source and copy of a tree nested %d levels serialize differently" % K
            elif v[11] != "0" or v[12] != "1":
                key, what = "deep/innermost-change", "after changing the innermost leaf of the copy: equal(source, copy) = %s (want 0), equal(source, twin) = %s (want 1)" % (v[11], v[12])
            elif lines[-1].split()[1] != "live=0":
                key, what = "leak", "blocks left: " + lines[-1]
            if key:
                sh.violation("C09/" + key, what, rep)
            sh.count("trees_nested_300_to_5000_levels")
            sh.nontrivial("deep/%d/%s" % (K, cmds[0][:40]))
            continue
        if cid in udmeta and udmeta[cid] == ("serfn",):
            cmds = cmdmap[cid]
            rep = {"driver": "jcdrv", "variant": "asan", "script": cmds}
            sh.evaluations += 3 * 64
            key = None
            if int(lines[4].split()[1]) != 0:
                key, what = "copy-failed", "deep copy of a tree holding a node with a caller's serializer function (no userdata) returned %s" % lines[4].split()[1]
            elif b"custom".hex() not in lines[3] and b'"n"'.hex() not in lines[3]:
                raise core.Inconclusive("the custom serializer left no trace in the source's text: %s" % lines[3][:200])
            elif lines[5] != lines[3]:
                key, what = "copy-serializes-differently", "the copy does not serialize like its source (64 flag sets): %s vs %s" % (lines[5][:160], lines[3][:160])
            elif lines[7] != lines[3]:
                key, what = "copy-serializes-differently-after-source-destroyed", "the copy serializes differently once the source is gone"
            elif lines[-1].split()[1] != "live=0":
                key, what = "leak", "blocks left: " + lines[-1]
            if key:
                sh.violation("C09/serializer-function-without-userdata/" + key, what, rep)
            sh.count("copies.of_nodes_with_serializer_function_only")
            sh.nontrivial("\n".join(cmds[:3]))
            continue
        if cid in udmeta and udmeta[cid] is not True:
            cmds = cmdmap[cid]
            rep = {"driver": "jcdrv", "variant": "asan", "script": cmds}
            _k, kk, nn = udmeta[cid]
            sh.evaluations += 3
            rc = int(lines[2].split()[1])
            key = None
            if lines[3] != lines[1]:
                key, what = "failed-copy-changed-the-source", "a deep copy whose callback gave up changed the source tree"
            elif lines[-1].split()[1] != "live=0":
                key, what = "leak", "blocks left after a failed deep copy: " + lines[-1]
            if rc != 0:
                sh.count("copies.callback_gave_up")
            if key:
                sh.violation("C09/failing-copy-callback/" + key, what, rep)
            sh.nontrivial("\n".join(cmds[:3]))
            continue
        if cid in udmeta:
            cmds = cmdmap[cid]
            rep = {"driver": "jcdrv", "variant": "asan", "script": cmds}
            sh.evaluations += 4
            key = None
            if int(lines[4].split()[1]) != 0:
                key, what = "copy-failed", "deep copy of a tree with a userdata-serialized node returned %s" % lines[4].split()[1]
            elif lines[5] != lines[3] or lines[7] != lines[3]:
                key, what = "copy-serializes-differently", "source / copy / source-after-copy-destroyed serialize differently"
            elif "del=4242" not in lines[6].replace("del=4242,", "del=4242 ") or lines[6].count("4242") != 1:
                key, what = "copy-deleter", "destroying the copy called the caller's userdata deleter %d time(s): %s" % (lines[6].count("4242"), lines[6][:80])
            elif lines[8].count("4242") != 1:
                key, what = "copy-deleter", "destroying the source called the caller's userdata deleter %d time(s)" % lines[8].count("4242")
            elif lines[-1].split()[1] != "live=0":
                key, what = "leak", "blocks left: " + lines[-1]
            if key:
                sh.violation("C09/userdata-serializer/" + key, what, rep)
            sh.count("copies.of_userdata_serialized_nodes")
            sh.nontrivial("\n".join(cmds[:3]))
            continue
        m = meta[cid]
        cmds = cmdmap[cid]
        rep = {"driver": "jcdrv", "variant": "asan", "script": cmds}
        if any(l.startswith("!") for l in lines):
            raise core.Inconclusive("driver rejected a command in %s: %s" % (cid, [l for l in lines if l.startswith("!")][:2]))
        if m[0] == "triple":
            _, rel, a, b, c, nh = m
            va, vb, vc = toks_to_value(a), toks_to_value(b), toks_to_value(c)
            got = [int(l.split()[1]) for l in lines[3 + nh:12 + nh]]
            ab, ba, bc, cb, ac, ca, aa, bb, cc = got
            sh.evaluations += 9
            exp = {"ab": veq(va, vb), "bc": veq(vb, vc), "ac": veq(va, vc)}
            key = None
            if (aa, bb, cc) != (1, 1, 1):
                key, what = "not-reflexive", "equal(x,x) = %s" % ((aa, bb, cc),)
            elif ab != ba or bc != cb or ac != ca:
                key, what = "not-symmetric", "equal(a,b),(b,a),(b,c),(c,b),(a,c),(c,a) = %s" % (got[:6],)
            elif ab and bc and not ac:
                key, what = "not-transitive", "equal(a,b)=equal(b,c)=1 but equal(a,c)=0"
            else:
                for nm, g in (("ab", ab), ("bc", bc), ("ac", ac)):
                    if bool(g) != exp[nm]:
                        x, y = {"ab": (a, b), "bc": (b, c), "ac": (a, c)}[nm]
                        kx = "/".join(sorted({kind(toks_to_value([t])) for t in set(x) ^ set(y) if t[0] in "iudDsntf"}))[:40]
                        key, what = "differs-from-value-equality/%s/%s" % ("model-equal" if exp[nm] else "model-unequal", kx or "structure"), \
                            "equal() = %d but the denoted values are %s: %s vs %s" % (g, "equal" if exp[nm] else "different", " ".join(x)[:150], " ".join(y)[:150])
                        break
            if key:
                sh.violation("C09/" + key, what, rep)
            sh.count("pairs." + rel + (".equal" if exp["ab"] else ".unequal"))
            if has_nan(va):
                sh.count("pairs.with_nan")
        else:
            _, side, a, mutated, nmc, nh, scr, nhist = m
            va = toks_to_value(a)
            sh.evaluations += 8
            if nhist:
                sh.count("copies.after_grow_shrink_history")
            if nh:
                lines = lines[:1] + lines[1 + nh:]
            rc = int(lines[1].split()[1])
            key = None
            if rc != 0:
                key, what = "copy-failed", "deep copy returned %d" % rc
            else:
                e1, e2 = int(lines[2].split()[1]), int(lines[3].split()[1])
                nan = has_nan(va)
                if not nan and (e1, e2) != (1, 1):
                    key, what = "copy-not-equal", "copy of a NaN-free tree is not equal to its source (%d,%d)" % (e1, e2)
                elif nan and (e1 or e2):
                    key, what = "nan-copy-equal", "a tree with a NaN leaf compares equal to its copy"
                s0, s1 = lines[4], lines[5]
                if not key and s0.split(" | ")[0] != s1.split(" | ")[0]:
                    key, what = "copy-serializes-differently", "source and copy serialize differently under some flag set"
                elif not key and [x.split("=")[1].split(",")[0] for x in s0.split(" | ")[1].split()] != [x.split("=")[1].split(",")[0] for x in s1.split(" | ")[1].split()]:
                    key, what = "copy-serializes-differently", "flag set -> text mapping differs between source and copy"
                p0, p1 = set(lines[6].split()[1:]), set(lines[7].split()[1:])
                if not key and p0 & p1:
                    key, what = "copy-shares-nodes", "source and copy share %d node(s)" % len(p0 & p1)
                d0, d1 = lines[8], lines[9]
                if not key and d0 != d1:
                    key, what = "copy-dump-differs", "typed dumps of source and copy differ"
                base = 10
                if mutated:
                    base += 1 + nmc
                a0, a1 = lines[base], lines[base + 1]
                if not key and mutated:
                    other_before, other_after = (d1, a1) if side == 0 else (d0, a0)
                    mut_before, mut_after = (d0, a0) if side == 0 else (d1, a1)
                    if other_after != other_before:
                        key, what = "mutation-leaks-to-other-side", "mutating the %s changed the %s" % (("source", "copy")[side], ("copy", "source")[side])
                    elif mut_after == mut_before:
                        sh.count("copies.mutation_was_noop")
                survivor = lines[base + 3 + scr]
                if scr:
                    sh.count("copies.survive_recycling_of_the_source's_constant_key_storage")
                if not key and survivor != (a1 if side == 0 else a0):
                    key, what = "destroy-affects-other-side", "destroying one side changed the other's dump"
            if key:
                sh.violation("C09/" + key, what, rep)
            sh.count("copies" + (".with_nan" if has_nan(va) else ""))
            if lines[-1].split()[1] != "live=0":
                sh.violation("C09/leak", "blocks left after both trees were destroyed: " + lines[-1], rep)
        sh.nontrivial("\n".join(cmds[:3]))
        if len(sh.samples) < 2 and sum(len(c) for c in cmds[:3]) < 300:
            sh.samples.append({"kind": m[0], "script": cmds[:4], "replies": [l[:80] for l in lines[3:12]]})
    return sh


def run(tier, seed):
    bdir = build.build("asan")
    chk = core.Check(PID, tier, seed)
    npairs, ncopies = (96000, 32000) if tier == "quick" else (1500000, 200000)
    rd = core.record_dir(PID) if tier == "thorough" else None
    sh = core.parallel(shard_fn, seed=seed, tier=tier, exe=bdir + "/jcdrv", npairs=npairs, ncopies=ncopies)
    chk.absorb(sh)
    if rd:
        os.environ.pop("VF_RECORD_DIR", None)
        core.memcheck_recorded(chk, build.build("plain"), rd)
    chk.rule = ("triples (a,b,c): b independent / one deep mutation of a (scalar replaced by a near value of the same or another kind, bytes after an embedded NUL, null vs absent member, added element) / "
                "member permutation of a with integer representation flipped (int64<->uint64, 0.0<->-0.0) / rebuilt; c likewise from b; all 9 equal() calls compared with value equality + reflexive, symmetric, "
                "transitive; NaN leaves; a quarter of the triples and copies first grow a container of one tree by 1..180 filler members/elements and delete them again (same value, different table size / capacity / tombstones). Copies: deep copy must be equal (NaN-free), serialize identically under all 64 flag sets, share no node pointer, survive mutation and destruction of the other side. "
                "evaluations = equal()/copy observations; distinct = distinct tree triples")
    chk.assumptions = ["value model: ints exact across signedness, doubles IEEE ==, strings bytes+length, objects unordered, kinds never mixed"]
    return chk.finish(min_evaluations=50000)

"""C20 — file-descriptor I/O is complete and exact under arbitrary short reads and writes."""
import os
import random

from vflib import core, build
from gen.trees import TreeGen
from gen.docs import DocGen
from gen.inputs import mutate

PID = "C20"
EIO, ENOSPC, EINTR, EAGAIN = 5, 28, 4, 11
SIZES = [1, 2, 100, 4095, 4096, 4097, 8191, 8192, 8193, 12289]


def big_tree_tokens(rng, target):
    """array of strings/numbers whose PLAIN serialization is about `target` bytes"""
    toks = ["["]
    size = 2
    while size < target:
        n = min(rng.choice([1, 5, 30, 200, 1000]), max(1, target - size - 4))
        toks.append("s" + bytes(rng.choice(b"abcdefgh /\\\"\n") for _ in range(n)).hex())
        size += n + 3
    return toks + ["]"]


def schedules(rng):
    r = rng.random()
    if r < 0.15:
        return "1"
    if r < 0.3:
        return "0"
    if r < 0.5:
        return ",".join(str(rng.choice([1, 2, 3, 7, 100, 1000, 4095, 4096, 4097])) for _ in range(rng.randrange(1, 8)))
    if r < 0.7:
        return "1,%d" % rng.choice([4096, 100000, 4095])
    if r < 0.85:
        return ",".join(["4096"] * rng.randrange(1, 4) + ["1", "4095", "2"])
    return str(rng.choice([2, 3, 5, 17, 4095, 4097, 9000]))


def shard_fn(shard, nshards, seed, tier, exe, ndocs, nenum):
    rng = random.Random("%d/%d/c20" % (seed, shard))
    sh = core.Shard()
    tg = TreeGen(rng, max_depth=5, budget=25, retained=True)
    dg = DocGen(rng, max_depth=20, budget=30)
    cases, meta = [], {}
    n = 0

    def add(cmds, m):
        nonlocal n
        cid = "%d.%d" % (shard, n)
        n += 1
        cases.append((cid, cmds))
        meta[cid] = m

    for i in range(ndocs // nshards):
        # ---- writing ----
        if rng.random() < 0.35:
            toks = big_tree_tokens(rng, rng.choice(SIZES + [100000 if rng.random() < 0.1 else 5000]))
        else:
            toks, _ = tg.tree()
            if toks == ["n"]:
                toks = ["[", "n", "]"]
        flags = rng.choice([0, 1, 2, 3, 4, 10, 16, 18, 31]) if rng.random() < 0.5 else rng.randrange(64)   # (bit 32 is COLOR: escape sequences in the text, which a file must carry like any other byte)
        cmds = ["B 0 " + " ".join(toks)]
        plan = []
        for _ in range(3):
            caps = schedules(rng)
            if rng.random() < 0.4:
                err_at, eno = rng.randrange(0, 6), rng.choice([EIO, ENOSPC, EINTR, EAGAIN])
            else:
                err_at, eno = -1, 0
            cmds.append("FDW 0 %d %s %d %d" % (flags, caps, err_at, eno))
            plan.append(("w", caps, err_at, eno))
        if rng.random() < 0.08:
            # serialization itself fails (a custom serializer of the root or of a nested node reports an error): nothing may be written, -1 must be returned
            from gen.trees import random_path
            path, t = random_path(rng, toks)
            if t[0] != "n":
                cmds += ["NAV 0 5 " + " ".join(path), "SS 5 0 2", "FDW 0 %d %s -1 0" % (flags, schedules(rng))]
                plan += [("skip",), ("skip",), ("wserfail",)]
                if rng.random() < 0.5:
                    cmds.append("FDF x%s 1 %d 0 %d" % (("/dev/shm/vf_c20_%d_%d_f.json" % (shard, n)).encode().hex(), flags, rng.randrange(2)))
                    plan.append(("filefail",))
                cmds.append("SS 5 0 0")
                plan.append(("skip",))
        if rng.random() < 0.15:
            # the path may already hold an older file (empty, shorter or much longer than what is written now)
            cf = rng.random() < 0.3
            if cf:
                # under a custom double format that prints trailing zeros: the file holds what the serializer gives for the flags that were asked for (PLAIN for json_object_to_file), nothing trimmed
                cmds.append("DFMT 0 x" + rng.choice([b"%.2f", b"%.6f", b"%.3e"]).hex())
                plan.append(("skip",))
            cmds.append("FDF x%s %d %d %d %d" % (("/dev/shm/vf_c20_%d_%d.json" % (shard, n)).encode().hex(), rng.choice([1, 1, 1, 4]), flags, rng.choice([0, 0, 1, 50, 5000, 100000]), rng.randrange(2)))
            plan.append(("file", cf))
            if cf:
                cmds.append("DFMT 0 -")
                plan.append(("skip",))
        cmds.append("PUT 0")
        add(cmds, plan)
        # ---- reading ----
        r = rng.random()
        if r < 0.5:
            text, _ = dg.document()
        elif r < 0.75:
            text = b"[" + b",".join(b'"' + bytes(rng.choice(b"abcdefgh ") for _ in range(rng.choice([1, 10, 100]))) + b'"' for _ in range(rng.choice([1, 10, 60, 130]))) + b"]"
            text = text + b" " * rng.choice([0, 0, 1, 5])
            k = rng.choice(SIZES)
            if len(text) < k and rng.random() < 0.7:
                text = b"[" + b'"' + b"x" * (k - 4) + b'"' + b"]"
        elif r < 0.9:
            text = mutate(rng, dg.document()[0])
        elif r < 0.95:
            text = b"[" * rng.choice([5, 31, 32, 33, 40]) + b"1" + b"]" * 40
        else:
            # a document that is too deep (or just not) EARLY, then goes on for several read blocks: an error found in one block is the result, whatever follows in later blocks
            d = rng.choice([2, 3, 5, 31, 32, 33])
            text = b"[" * d + b"1" + b"]" + b" " * rng.choice([4090, 4200, 8200, 13000]) + b"]" * (d - 1) + rng.choice([b"", b" ", b"x"])
            sh.count("read.early_nesting_then_several_blocks")
        cmds, plan = [], []
        for _ in range(3):
            caps = schedules(rng)
            depth = rng.choice([-1, -1, -1, 1, 2, 3, 4, 5, 31, 32, 33, 64, 0])
            if rng.random() < 0.35:
                err_at, eno = rng.randrange(0, 5), rng.choice([EIO, EINTR, EAGAIN])
            else:
                err_at, eno = -1, 0
            # (a third of the reads start in the middle of a file: the descriptor is handed over positioned behind bytes that are no JSON)
            cmds.append("FDR %d %s %d %d x%s" % (depth, caps, err_at, eno, text.hex()) + (" %d" % rng.choice([1, 7, 100, 4095, 4096, 4097, 9000]) if rng.random() < 0.33 else ""))
            plan.append(("r", caps, err_at, eno, depth))
        if rng.random() < 0.05:
            # writing "no object" must fail before anything is created; and a process without standard input (descriptor 0 free) must still be able to write and read files
            cmds.append("FDF x%s 3 %d" % (("/dev/shm/vf_c20_%d_%d_n.json" % (shard, n)).encode().hex(), rng.randrange(64)))
            plan.append(("nullobj",))
        if rng.random() < 0.1:
            # (also with a path long enough that path + message exceed any fixed message buffer: there must still be a message)
            cmds.append("FDF x%s 0" % rng.choice([b"/nonexistent/dir/file.json", b"/nonexistent/" + b"d" * rng.choice([150, 190, 240, 400, 1000]) + b"/file.json",
                                                      b"/dev/shm", b"/", b"/dev/shm/."]).hex())   # (a directory can be opened, reading it fails: the descriptor must be given back all the same)
            plan.append(("nofile",))
        add(cmds, plan)
    # ---- a FIFO whose writer is slower than the reader (json_object_from_file opens the path itself: the descriptor's mode is the library's choice) ----
    for _ in range(2):
        text, _v = dg.document()
        if len(text) > 2 and b"\0" not in text:
            add(["FIFO %d x%s" % (rng.choice([20, 60]), text.hex())], [("fifo",)])
    # ---- fault enumeration: one injected error at EVERY call index of small transfers ----
    for _ in range(max(1, nenum // nshards)):
        toks, _v = tg.tree()
        if toks == ["n"]:
            toks = ["[", "n", "]"]
        cmds, plan = ["B 0 " + " ".join(toks)], []
        caps = rng.choice(["1", "1", "3", "7,1"])
        for k in range(0, 48):
            eno = rng.choice([EIO, ENOSPC])
            cmds.append("FDW 0 0 %s %d %d" % (caps, k, eno))
            plan.append(("w", caps, k, eno))
        cmds.append("PUT 0")
        add(cmds, plan)
        sh.count("enumerated_single_error_positions", 48)
        text, _ = dg.document()
        text = text[:40]
        cmds, plan = [], []
        for k in range(0, len(text) + 3):
            cmds.append("FDR -1 1 %d %d x%s" % (k, EIO, text.hex()))
            plan.append(("r", "1", k, EIO, -1))
        add(cmds, plan)
        sh.count("enumerated_single_error_positions", len(text) + 3)
    results, crashes = core.run_script(exe, cases, tag="c20", env=core.ambient_env(sh, shard))
    cmdmap = dict(cases)
    for cr in crashes:
        kind, frame = cr.summary()
        sh.violation("C20/%s/%s" % (kind, frame), "crash during fd I/O (%s)" % kind, {"driver": "jcdrv", "variant": "asan", "script": [c[:3000] for c in cmdmap[cr.cid]], "stderr": cr.stderr[-2500:]})
    for cid, lines in results.items():
        plan, cmds = meta[cid], cmdmap[cid]
        off = 1 if cmds[0].startswith("B ") else 0
        for ci, (st, cmd, ln) in enumerate(zip(plan, cmds[off:], lines[off:])):
            rep = {"driver": "jcdrv", "variant": "asan", "script": ([cmds[0][:20000]] if off else []) + [cmd[:20000]]}
            if st[0] in ("wserfail", "filefail"):
                rep["script"] = [c[:20000] for c in cmds[:off + ci + 1]]
            f = dict(x.split("=", 1) for x in ln.split()[1:] if "=" in x)
            sh.evaluations += 1
            key = None
            if st[0] == "w":
                _, caps, err_at, eno = st
                rc, le, calls, inj = int(f["rc"]), int(f["lasterr"]), int(f["calls"]), int(f["inj"])
                ser, got = bytes.fromhex(f["ser"][1:]), bytes.fromhex(f["got"][1:])
                if inj == 0:
                    if rc != 0:
                        key, what = "write-fails-without-error", "json_object_to_fd returned %d although no write failed" % rc
                    elif got != ser:
                        cls = "missing" if ser.startswith(got) else "duplicated-or-reordered"
                        key, what = "write-bytes/" + cls, "descriptor received %d bytes, serialization has %d (caps %s)" % (len(got), len(ser), caps)
                    sh.count("write.ok")
                    sh.cmax("max_write_calls", calls)
                else:
                    retry_ok = eno in (EINTR, EAGAIN) and rc == 0 and got == ser
                    if retry_ok:
                        sh.count("write.error_retried")
                    elif rc != -1:
                        key, what = "write-error-not-reported", "write #%d failed with errno %d but json_object_to_fd returned %d" % (err_at, eno, rc)
                    elif not ser.startswith(got):
                        key, what = "write-bytes/not-a-prefix-after-error", "after a failed write the descriptor holds bytes that are not a prefix of the serialization"
                    elif not le:
                        key, what = "write-error-no-message", "json_util_get_last_err() is NULL after a failed write"
                    sh.count("write.error_injected")
            elif st[0] == "skip":
                continue
            elif st[0] == "nullobj":
                if f["rc"] != "-1" or f["rc2"] != "-1":
                    key, what = "null-object-written", "json_object_to_file[_ext](path, NULL) returned %s / %s" % (f["rc"], f["rc2"])
                elif f["created"] != "0" or f["opens"] != f["closes"]:
                    key, what = "null-object-touched-the-file-system", "json_object_to_file[_ext](path, NULL): %s" % ln
                sh.count("file.null_object")
            elif st[0] == "fifo":
                if f["obj"] != f["mem"] or f["eq"] != "1":
                    key, what = "read-from-slow-fifo", "json_object_from_file on a FIFO with a lagging writer: %s (the same bytes parse from memory: %s)" % (ln, f["mem"])
                sh.count("read.fifo_with_lagging_writer")
            elif st[0] == "wserfail":
                rc, le, got = int(f["rc"]), int(f["lasterr"]), bytes.fromhex(f["got"][1:])
                if rc != -1:
                    key, what = "serialization-failure-not-reported", "a serializer reported failure but json_object_to_fd returned %d" % rc
                elif got:
                    key, what = "serialization-failure-wrote-bytes", "a serializer reported failure but %d bytes reached the descriptor" % len(got)
                sh.count("write.serialization_failed")   # (no message is required here: the statement asks for one on the reading side only)
            elif st[0] == "filefail":
                if int(f["rc"]) != -1:
                    key, what = "serialization-failure-not-reported", "a serializer reported failure but json_object_to_file[_ext] returned %s" % f["rc"]
                elif f["opens"] != f["closes"]:
                    key, what = "file-roundtrip", "descriptor accounting after a failed json_object_to_file: %s" % ln
                sh.count("file.serialization_failed")
            elif st[0] == "r":
                _, caps, err_at, eno, depth = st
                if "mem" not in ln:
                    raise core.Inconclusive("bad FDR line " + ln[:200])
                fdnn, le, inj = int(f["fd"]), int(f["lasterr"]), int(f["inj"])
                fdd = f["fdd"]
                memf = ln.split(" | mem=")[1].split()
                if memf[0] == "notok":
                    if fdnn:
                        key, what = "read-bad-depth-accepted", "depth %d cannot create a parser but from_fd_ex returned a value" % depth
                    elif not le:
                        key, what = "read-error-no-message", "no message after failure to create the parser"
                    sh.count("read.bad_depth")
                elif inj:
                    retry_ok = eno in (EINTR, EAGAIN) and fdd == memf[1]
                    if retry_ok and fdnn:
                        sh.count("read.error_retried")
                    elif fdnn:
                        key, what = "read-error-not-reported", "read #%d failed with errno %d but a value was returned" % (err_at, eno)
                    elif not le:
                        key, what = "read-error-no-message", "json_util_get_last_err() is NULL after a failed read"
                    sh.count("read.error_injected")
                else:
                    merr, mdd = int(memf[0]), memf[1]
                    if (merr == 0) != bool(fdnn) and not (merr == 0 and mdd == "0000000000000000"):
                        key, what = "read-result/%s" % ("missing" if merr == 0 else "unexpected"), "from_fd returned %s but parsing the same %d bytes in one call gives error %d (depth %d, caps %s)" % ("a value" if fdnn else "NULL", len(cmd.split()[5]) // 2, merr, depth, caps)
                    elif fdnn and fdd != mdd:
                        key, what = "read-result/different-value", "value read from the descriptor differs from the one-shot parse (depth %d, caps %s)" % (depth, caps)
                    elif not fdnn and not le and merr != 0:
                        key, what = "read-error-no-message", "parse failed but json_util_get_last_err() is NULL"
                    sh.count("read.%s" % ("ok" if fdnn else "parse_error"))
                    sh.cmax("max_read_calls", int(f["calls"]))
            elif st[0] == "nofile":
                if int(f["obj"]) or not int(f["lasterr"]) or f["opens"] != f["closes"]:
                    key, what = "unopenable-file", "json_object_from_file(nonexistent) -> %s" % ln
                sh.count("file.unopenable" if b"nonexistent" in bytes.fromhex(cmd.split()[1][1:]) else "file.is_a_directory")
            elif st[0] == "file":
                # (reading back may legitimately fail: top-level scalars need a terminator, deep spines exceed the default depth)
                if int(f["rc"]) != 0 or f["opens"] != f["closes"] or f["opens"] != "2" or (int(f["obj"]) and not int(f["eq"]) and not (len(st) > 1 and st[1])):   # (a custom double format may round: no equality after reading back then)
                    key, what = "file-roundtrip", "to_file_ext/from_file round trip: %s" % ln
                elif f["raw_eq"] != "1":
                    key, what = "file-bytes", "the file does not hold exactly the serialization after json_object_to_file[_ext]: %s bytes in the file, %s expected (%s)" % (f["fsize"], f["want"], cmd.split()[4:])
                sh.count("file.roundtrip" + (".over_existing_file" if cmd.split()[4] != "0" else "") + (".without_stdin" if cmd.split()[2] == "4" else ""))
            if key:
                sh.violation("C20/" + key, what, rep)
            sh.nontrivial(cmd[:4000])
        if lines[-1].split()[1] != "live=0":
            sh.violation("C20/leak", "blocks left after fd I/O: " + lines[-1], {"driver": "jcdrv", "script": [c[:3000] for c in cmds]})
        if len(sh.samples) < 2 and len(cmds[-1]) < 300:
            sh.samples.append({"script": [c[:120] for c in cmds[:4]], "replies": [l[:160] for l in lines[:4]]})
    return sh


def run(tier, seed):
    bdir = build.build("asan")
    chk = core.Check(PID, tier, seed, level="fault_enumeration")
    rd = core.record_dir(PID) if tier == "thorough" else None
    sh = core.parallel(shard_fn, seed=seed, tier=tier, exe=bdir + "/jcdrv", ndocs=36000 if tier == "quick" else 300000, nenum=480 if tier == "quick" else 6000)
    chk.absorb(sh)
    if rd:
        os.environ.pop("VF_RECORD_DIR", None)
        core.memcheck_recorded(chk, build.build("plain"), rd)
    chk.rule = ("documents/trees with serializations around the 4096-byte buffer (1, 4095, 4096, 4097, 8192, 12289, 100k) and generated ones, 9 flag sets; per-call transfer schedules (all-1-byte, whole, random caps, "
                "alternating 1/large, switching at buffer boundaries) imposed by the shim on a REAL memfd; one injected error (EIO/ENOSPC/EINTR/EAGAIN) at call index 0..5 in 40% of the transfers; depth limits "
                "-1,0,1,2,5,31..33,64. Oracle: bytes that arrived at the descriptor vs the serialization; value read vs one-shot in-memory parse with the same depth; message retrievable on every failure; "
                "ledger and open/close counts. evaluations = transfers; distinct = distinct transfer commands")
    chk.assumptions = ["a write() returning 0 for a non-empty request is never produced", "whether EINTR/EAGAIN are retried is not asserted (retry-and-complete or clean failure are both accepted)"]
    return chk.finish(min_evaluations=3000)

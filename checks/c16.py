"""C16 — strict mode rejects every documented extension anywhere; default mode accepts it."""
import os
import random

from vflib import core, build
from gen.docs import DocGen
from gen.tokens import tokenize
from oracle import refjson

PID = "C16"
VALUE_STARTS = ("string", "number", "literal", "[", "{")


def _is_utf8(b):
    try:
        b.decode("utf-8")
        return True
    except UnicodeDecodeError:
        return False


def context_of(t):
    return "%s@depth%d" % (t.ctx, min(t.open, 3))


def variants(rng, text, toks, full):
    """yield (kind, context, variant_text, value_neutral, extra) for every admissible position (full) or a sample"""
    n = len(toks)
    # 1. comments in every inter-token gap (before first, between, after last)
    for gi in range(n + 1):
        pos = toks[gi].start if gi < n else len(text)
        ctx = "before-first" if gi == 0 else "after-last" if gi == n else "after-%s-before-%s" % (toks[gi - 1].kind, toks[gi].kind)
        for c in (b"/*c*/", b"//c\n", b"/* * / ** */", b"/**/", b"/***/", b"/* c **/", b"//\n"):
            if full or rng.random() < 0.5:
                yield "comment", ctx, text[:pos] + c + text[pos:], True, None
        if gi == n:
            # a line comment that runs to the end of the text (no newline) after the complete value
            for c in (b"//c", b" // done", b"//"):
                if full or rng.random() < 0.5:
                    yield "comment", "after-last-to-end-of-text", text + c, True, None
    for ti, t in enumerate(toks):
        raw = text[t.start:t.end]
        ctx = context_of(t)
        if t.kind == "string":
            body = raw[1:-1]
            # 2. single quotes (content must not contain a raw single quote)
            if b"'" not in body:
                yield "single-quote" + ("-name" if t.is_name else ""), ctx, text[:t.start] + b"'" + body + b"'" + text[t.end:], True, None
            # 5. raw control bytes
            ctrls = list(range(1, 0x20)) if full else rng.sample(range(1, 0x20), 4)
            for c in ctrls:
                p = t.start + 1 if rng.random() < 0.5 else t.end - 1
                yield "control-char" + ("-name" if t.is_name else ""), ctx, text[:p] + bytes([c]) + text[p:], "ctrl", None
        elif t.kind == "literal":
            # 4. non-lowercase spellings
            forms = {raw.upper(), raw.capitalize(), raw[:1] + raw[1:].upper(), raw[:-1] + raw[-1:].upper()}
            for f in sorted(forms):
                yield "uppercase-literal", ctx, text[:t.start] + f + text[t.end:], True, None
        elif t.kind == "number":
            neg = raw.startswith(b"-")
            digits = raw[1:] if neg else raw
            # 6. superfluous leading zero(s)
            # (one, two, or a whole run of them: the token then gets longer than any integer or double text needs to be, its value stays what it was)
            for z in (b"0", b"00", b"0" * rng.choice([3, 17, 18, 19, 20, 31, 32, 33, 40, 64, 130, 300])):
                yield "leading-zero" + ("-neg" if neg else "") + ("-frac" if (b"." in raw or b"e" in raw.lower()) else "") + ("-zero" if digits.split(b".")[0].split(b"e")[0].split(b"E")[0] == b"0" else ""), \
                    ctx, text[:t.start] + (b"-" if neg else b"") + z + digits + text[t.end:], True, None
            # 7. exponent without digits
            if b"e" not in raw.lower():
                for e in (b"e", b"E", b"e+", b"E-"):
                    yield "exponent-without-digits", ctx, text[:t.start] + raw + e + text[t.end:], ("same" if b"." in raw else "success-only"), None
        elif t.kind in ("]", "}"):
            # 3. trailing comma in a non-empty container
            prev = toks[ti - 1]
            if prev.kind not in ("[", "{"):
                yield "trailing-comma-" + ("array" if t.kind == "]" else "object"), ctx, text[:t.start] + b"," + text[t.start:], True, None
    # 8. trailing non-whitespace after the top-level value
    vend = toks[-1].end
    anybyte = bytes([rng.choice([b for b in range(1, 256) if b not in (9, 10, 13, 32, 0x2F)])])  # '/' would start a (malformed) comment: two extensions at once
    for junk in (b"x", b"]", b"}", b",", b"1", b'"', b"null", b"\x01", b":", b"\x0b", b"\x0c", anybyte):
        for ws in (b"", b" ", b"\n\t "):
            if full or rng.random() < 0.4:
                last = toks[-1]
                if ws == b"" and last.kind in ("number", "literal") and last.open == 0 and junk[:1] in b"0123456789.eE+-x1nul":
                    continue  # would change the value token itself rather than follow it
                yield "trailing-garbage", "top", text[:vend] + ws + junk, True, (vend, vend + len(ws))
    # ... and trailing bytes that begin with a slash: in default mode that starts a comment (which may be malformed: not asserted there), but for a STRICT parser there are
    # no comments -- the slash is a trailing byte like any other: refused without ALLOW_TRAILING_CHARS, left alone (and the end reported) with it
    if toks[-1].kind not in ("number", "literal") or toks[-1].open != 0:
        for junk in (b"/", b"/x", b"//c", b"/*c*/", b"/ 1"):
            for ws in (b"", b" "):
                if full or rng.random() < 0.3:
                    yield "trailing-slash", "top", text[:vend] + ws + junk, "strict-only", (vend, vend + len(ws))


def shard_fn(shard, nshards, seed, tier, exe, ndocs):
    rng = random.Random("%d/%d/c16" % (seed, shard))
    sh = core.Shard()
    gen = DocGen(rng, max_depth=12, budget=14, nul_keys=0.0, big_ints=False)
    cases, meta = [], {}
    n = 0
    docs = []
    if shard == 0:
        for k in core.load_known():
            if k["property"] == PID and k.get("witness"):
                docs.append(k["witness"].encode())
    while len(docs) < ndocs // nshards:
        text, value = gen.document()
        text = text.strip(b" \t\n\r")
        if 0 < len(text) <= 300:
            docs.append(text)
    for text in docs:
        value = refjson.parse(text)
        toks = tokenize(text)
        expd = refjson.dump(value)
        for kind, ctx, vt, neutral, extra in variants(rng, text, toks, full=(tier == "thorough" or rng.random() < 0.25)):
            cid = "%d.%d" % (shard, n)
            n += 1
            h = vt.hex()
            # VALIDATE_UTF8 is orthogonal (the documents are valid UTF-8 apart from injected control bytes, which are ASCII): it must not change any outcome
            u8 = 0x10 if rng.random() < 0.35 and all(b < 0x80 or True for b in vt[:0]) and _is_utf8(vt) else 0
            cmds = ["P %d 0 1 x%s" % (1 | u8, h), "P %d 0 1 x%s" % (u8, h)]
            if kind in ("trailing-garbage", "trailing-slash"):
                cmds.append("P %d 0 1 x%s" % (3 | u8, h))
            # (not for forms that FOLLOW the complete value: the call that completes the value rightly reports success before the rest is fed)
            chunked = rng.random() < 0.5 and kind not in ("trailing-garbage", "trailing-slash") and not ctx.startswith("after-last")
            if chunked:
                # the same strict parse fed in pieces of 1..7 bytes: where the calls are cut must not let an extension through
                cmds.append("LPC %d 0 %d x%s" % (1 | u8, rng.choice([1, 1, 2, 3, 5, 7]), h))
            inside = kind not in ("trailing-garbage", "trailing-slash") and not ctx.startswith("after-last")
            xt = dchunk = None
            if inside and rng.random() < 0.5:
                # strict mode with ALLOW_TRAILING_CHARS on top: that flag is about what FOLLOWS the value; an extension inside the value is refused as before
                xt = len(cmds)
                cmds.append("P %d 0 1 x%s" % (3 | u8, h))
            if inside and rng.random() < 0.3:
                # default mode fed in pieces: the extension is accepted wherever the calls are cut, with the same value
                dchunk = len(cmds)
                # (without VALIDATE_UTF8 unless the text is ASCII: a call that ends inside a multi-byte character is an error under that flag, by design)
                cmds.append("LPC %d 0 %d x%s" % (u8 if all(b < 0x80 for b in vt) else 0, rng.choice([1, 1, 2, 3, 5, 7]), h))
            reuse = None
            if kind not in ("trailing-garbage", "trailing-slash") and rng.random() < 0.2:
                # a strict parser that has been used before: the ORIGINAL document first (accepted), a reset (always / only as the API requires), then the variant --
                # strictness is configuration of the parser, not state of one document
                reuse = len(cmds)
                cmds.append("PM %d 0 %d x%s x%s" % (1 | u8, rng.choice([1, 2]), text.hex(), h))
            cases.append((cid, cmds))
            meta[cid] = (kind, ctx, vt, neutral, extra, expd, text, chunked, xt, dchunk, reuse)
    results, crashes = core.run_script(exe, cases, tag="c16", env=core.ambient_env(sh, shard))
    cmdmap = dict(cases)
    for cr in crashes:
        k, frame = cr.summary()
        sh.violation("C16/crash/%s/%s" % (k, frame), "crash on variant %r" % (meta[cr.cid][2][:80],), {"driver": "jcdrv", "script": cmdmap[cr.cid], "stderr": cr.stderr[-2000:]})
    for cid, lines in results.items():
        kind, ctx, vt, neutral, extra, expd, text, chunked, xt, dchunk, reuse = meta[cid]
        rep = {"driver": "jcdrv", "variant": "asan", "script": cmdmap[cid], "original": text.decode("utf-8", "replace"), "variant_text": vt.decode("utf-8", "replace"), "kind": kind}
        parsed = []
        for li, ln in enumerate(lines[:len(cmdmap[cid])]):
            if li == reuse:
                first, _, second = ln.partition(" || ")
                sh.count("strict_parser_reused_after_the_original_document")
                if first.split()[1] != "0":
                    sh.violation("C16/strict-rejects-original", "strict mode rejected the ORIGINAL document (error %s): %r" % (first.split()[1], text[:100]), rep)
                elif second.split()[0] == "0":
                    sh.violation("C16/strict-accepts-on-reused-parser/%s" % kind, "a strict parser that had parsed the original document before accepted %s at %s: %r" % (kind, ctx, vt[:100]), rep)
                parsed.append((None, None, None))
                continue
            f = ln.split(" ", 4)
            if f[0] != "=" or len(f) < 5:
                raise core.Inconclusive("bad driver line " + ln[:100])
            parsed.append((int(f[1]), int(f[2]), f[4]))
        sh.evaluations += len(parsed)
        (serr, send, sdump), (derr, dend, ddump) = parsed[0], parsed[1]
        if serr == 0:
            sh.violation("C16/strict-accepts/%s" % kind, "strict mode accepted %s at %s: %r" % (kind, ctx, vt[:100]), rep)
        if chunked:
            sh.count("strict_parses_fed_in_chunks")
            if parsed[3 if kind in ("trailing-garbage", "trailing-slash") else 2][0] == 0:
                sh.violation("C16/strict-accepts-when-chunked/%s" % kind, "strict mode accepted %s at %s when the text was fed in chunks (%s): %r" % (kind, ctx, cmdmap[cid][-1].split()[3], vt[:100]), rep)
        if xt is not None:
            sh.count("strict_with_allow_trailing_on_extensions_inside_the_value")
            if parsed[xt][0] == 0:
                sh.violation("C16/strict-allow-trailing-accepts/%s" % kind, "STRICT|ALLOW_TRAILING_CHARS accepted %s at %s (inside the value): %r" % (kind, ctx, vt[:100]), rep)
        if dchunk is not None and derr == 0:
            sh.count("default_parses_fed_in_chunks")
            cerr, cend, cdump = parsed[dchunk]
            if cerr != 0:
                sh.violation("C16/default-rejects-when-chunked/%s" % kind, "default mode rejected %s at %s (error %d) when the text was fed in chunks (%s): %r" % (kind, ctx, cerr, cmdmap[cid][dchunk].split()[3], vt[:100]), rep)
            elif cdump.split(" | ")[0] != ddump:
                sh.violation("C16/default-value-changed-when-chunked/%s" % kind, "default mode gives another value for %s at %s when fed in chunks: %r" % (kind, ctx, vt[:100]), dict(rep, one_shot=ddump[:300], chunked=cdump[:300]))
        if neutral == "strict-only":
            pass   # (default mode: a comment, possibly malformed -- two things at once, not asserted)
        elif derr != 0:
            sh.violation("C16/default-rejects/%s" % kind, "default mode rejected %s at %s with error %d: %r" % (kind, ctx, derr, vt[:100]), rep)
        else:
            want = None
            if neutral is True or neutral == "same":
                want = expd
            elif neutral == "ctrl":
                want = refjson.dump(refjson.parse(vt, allow_ctrl=True))
            if want is not None and ddump != want:
                sh.violation("C16/default-value-changed/%s" % kind, "default mode value differs from the original document's for %s at %s: %r" % (kind, ctx, vt[:100]), dict(rep, expected_dump=want[:500], observed=ddump[:500]))
        if kind in ("trailing-garbage", "trailing-slash"):
            terr, tend, tdump = parsed[2]
            lo, hi = extra
            if terr != 0:
                sh.violation("C16/strict-allow-trailing-rejects", "STRICT|ALLOW_TRAILING_CHARS failed (err %d) on %r" % (terr, vt[:100]), rep)
            elif tdump != expd:
                sh.violation("C16/strict-allow-trailing-value", "STRICT|ALLOW_TRAILING_CHARS value differs on %r" % (vt[:100],), rep)
            elif not lo <= tend <= hi:
                sh.violation("C16/strict-allow-trailing-end", "reported end %d is not where the value ended (%d..%d) for %r" % (tend, lo, hi, vt[:100]), rep)
            if not lo <= dend <= hi and derr == 0 and kind == "trailing-garbage":
                sh.violation("C16/default-trailing-end", "default mode reported end %d, value ended at %d..%d for %r" % (dend, lo, hi, vt[:100]), rep)
        sh.count("kind.%s" % kind)
        sh.count("position.%s.%s" % (kind.split("-")[0], ctx))
        sh.nontrivial(vt)
        if len(sh.samples) < 2 and len(vt) < 70 and rng.random() < 0.01:
            sh.samples.append({"original": text.decode("utf-8", "replace"), "kind": kind, "context": ctx, "variant": vt.decode("utf-8", "replace"), "strict": "error %d" % serr, "default": "ok" if derr == 0 else "error %d" % derr})
    return sh


def run(tier, seed):
    bdir = build.build("asan")
    chk = core.Check(PID, tier, seed)
    rd = core.record_dir(PID) if tier == "thorough" else None
    sh = core.parallel(shard_fn, seed=seed, tier=tier, exe=bdir + "/jcdrv", ndocs=12000 if tier == "quick" else 80000)
    chk.absorb(sh)
    if rd:
        os.environ.pop("VF_RECORD_DIR", None)
        core.memcheck_recorded(chk, build.build("plain"), rd)
    chk.rule = ("metamorphic: each generated valid document is tokenised and ONE extension is injected at each admissible position (comment in every inter-token gap; single quotes on every "
                "string/name; trailing comma in every non-empty container; every literal in non-lowercase spellings; each raw control byte in every string/name; leading zero(s) on every number; "
                "digit-less exponent on every exponent-free number; trailing non-whitespace incl. VT, FF and a random byte). Strict must fail (also when the text is fed in 1-7 byte chunks, half of the variants), default must succeed with the original value (value-neutral kinds), "
                "STRICT|ALLOW_TRAILING_CHARS must succeed and report where the value ended. distinct = distinct variant texts")
    chk.assumptions = ["for digit-less exponents on integers default mode is only required to succeed (the value changes kind int->double by design)"]
    return chk.finish(min_evaluations=5000)

"""C12 — JSON Pointer get/set resolve exactly per RFC 6901."""
import copy
import os
import random

from vflib import core, build
from oracle import refptr
from oracle.refptr import PNode, PtrError, ENOENT, EINVAL

PID = "C12"
LONGKEYS = [b"k" * 300, b"a/" * 150, b"~0~1" * 64 + b"x", b"e\xc3\xa9" * 100]
def boundary_key(rng):
    """a member name whose ESCAPED length sits on / next to a power of two"""
    target = rng.choice([8, 15, 16, 17, 31, 32, 33, 63, 64, 64, 65, 127, 128, 129, 255, 256, 257, 300])
    nsp = rng.choice([0, 1, 1, 2, 3])
    raw = [bytes([rng.choice(b"abcdefgxyz0189 ")]) for _ in range(max(1, target - 2 * nsp))]
    for _ in range(nsp):
        raw.insert(rng.randrange(len(raw) + 1), rng.choice([b"~", b"/"]))
    return b"".join(raw)


KEYS = [b"", b"/", b"~", b"~0", b"~1", b"~01", b"a/b", b"m~n", b"0", b"01", b"1", b"-", b"12", b"a", b"b", b"foo", b" ", b"k" * 40, b"~~", b"//", b"e\xc3\xa9", b"%s", b"%d"]


def gen_tree(rng, depth=0, budget=None):
    """tokens for B; adversarial keys, null members and null elements"""
    budget = budget if budget is not None else [rng.choice([3, 8, 16])]
    r = rng.random()
    if depth < 5 and budget[0] > 0 and r < (0.9 if depth == 0 else 0.45):
        n = rng.choice([0, 1, 2, 3, 4])
        if rng.random() < 0.03:
            n = rng.choice([11, 12, 101, 130])  # multi-digit indices
            budget[0] = max(budget[0], n)
        if rng.random() < 0.5:
            out = ["["]
            for _ in range(n):
                out += gen_tree(rng, depth + 1, budget)
            return out + ["]"]
        out = ["{"]
        seen = set()
        for _ in range(n):
            r_ = rng.random()
            k = rng.choice(KEYS) if r_ > 0.06 else (rng.choice(LONGKEYS) if r_ < 0.03 else boundary_key(rng))
            if k in seen:
                k = b"m%d" % len(seen)
            seen.add(k)
            out += ["k" + k.hex()] + gen_tree(rng, depth + 1, budget)
        return out + ["}"]
    budget[0] -= 1
    return [rng.choice(["n", "n", "t", "f", "i%d" % rng.randrange(100), "s" + rng.choice(KEYS).hex(), "d3ff8000000000000"])]


def all_paths(node, pre=()):
    yield pre, node
    if node.kind == "array":
        for i, c in enumerate(node.val):
            yield from all_paths(c, pre + (i,))
    elif node.kind == "object":
        for k, c in node.val.items():
            yield from all_paths(c, pre + (k,))


def toks_paths(toks):
    """canonical paths to every node, from the B tokens (before anything ran)"""
    from checks.c09 import toks_to_structure
    st = toks_to_structure(toks)
    out = []

    def walk(n, pre):
        out.append(pre)
        k, p = n
        if k == "arr":
            for i, c in enumerate(p):
                walk(c, pre + (i,))
        elif k == "obj":
            for key, c in p:
                walk(c, pre + (bytes.fromhex(key[1:]),))

    walk(st, ())
    return out


BAD_POINTERS = [b"a", b"a/b", b" /a", b"/nonexistent", b"/a/nonexistent", b"/0/x", b"/01", b"/+1", b"/ 1", b"/1e0", b"/-", b"/-1", b"/999999999999999999999999999999", b"/1x", b"/0x0",
                b"//", b"/a/", b"/0/", b"/00", b"/1.0", b"/\xef\xbc\x91", b"0", b"#/a", b"/a//b", b"/~", b"/~2", b"/18446744073709551616", b"/4294967296", b"/:", b"/1:", b"/:1", b"/0:", b"/1/", b"/2305843009213693953", b"/9223372036854775808"]


def pointers_for(rng, toks):
    ps = []
    paths = toks_paths(toks)
    for p in paths:
        ps.append(refptr.pointer_to(list(p)))
    for p in rng.sample(paths, min(len(paths), 6)):
        base = refptr.pointer_to(list(p))
        ps.append(base + rng.choice([b"/", b"/0", b"/-", b"/x", b"/01", b"/1", b"/99", b"/~0", b"/~1", b"/%s"]))
        # an index that would land on an existing element if it were reduced modulo 2^32 or 2^64 somewhere on the way
        ps.append(base + b"/" + str(rng.choice([1 << 64, 1 << 32, 1 << 61, 1 << 63, (1 << 64) + (1 << 32), 10 ** 20, 3 << 32]) + rng.choice([0, 0, 1, 2])).encode())
        if base:
            ps.append(base[1:])  # no leading slash
    ps += rng.sample(BAD_POINTERS, 8)
    return list(dict.fromkeys(ps))


def apply_set(root, p, val):
    """returns (new root, outcome) ; outcome 'ok' or 'either' (index beyond the end: extension with nulls or clean failure)"""
    toks = refptr.split_pointer(p)
    if not toks:
        return val, "ok"
    parent = root
    for t in toks[:-1]:
        parent = refptr.step(parent, t)
    last = toks[-1]
    if parent.kind == "object":
        parent.val[refptr.unescape(last)] = val
        return root, "ok"
    if parent.kind == "array":
        if last == b"-":
            parent.val.append(val)
            return root, "ok"
        if not refptr.IDX.match(last):
            raise PtrError({EINVAL, ENOENT}, "bad index")
        i = int(last)
        if i > 10 ** 6:
            raise PtrError({EINVAL, ENOENT, 12}, "absurd index")
        if i < len(parent.val):
            parent.val[i] = val
            return root, "ok"
        gap = i - len(parent.val)
        parent.val += [refptr.NULL] * gap + [val]
        return root, ("ok" if gap == 0 else "either")
    raise PtrError({ENOENT, EINVAL}, "parent is a %s" % parent.kind)


def dump_ann(n):
    """PNode -> pointer-annotated dump string (same format as the driver's D h 1)"""
    def sfx(n):
        return "@%x" % n.ptr if n.ptr is not None else ""
    if n.kind == "null":
        return "n"
    if n.kind == "bool":
        return ("t" if n.val else "f") + sfx(n)
    if n.kind == "int":
        return "i%d%s" % (n.val, sfx(n))
    if n.kind == "double":
        return "d" + n.val + sfx(n)
    if n.kind == "string":
        return "s" + n.val.hex() + sfx(n)
    if n.kind == "array":
        return " ".join(["[" + sfx(n)] + [dump_ann(c) for c in n.val] + ["]"])
    return " ".join(["{" + sfx(n)] + [x for k, c in n.val.items() for x in ("k" + k.hex(), dump_ann(c))] + ["}"])


def shard_fn(shard, nshards, seed, tier, exe, ntrees):
    import sys
    sys.setrecursionlimit(50000)
    rng = random.Random("%d/%d/c12" % (seed, shard))
    sh = core.Shard()
    cases, meta = [], {}
    extra = []
    if shard == 0:
        for k in core.load_known():
            if k["property"] == PID and k.get("witness_ptr"):
                extra.append(k["witness_ptr"])
    # pointer-length sweep: every total pointer length 1..1100 and around 4096 (formatted variants go through
    # fixed-size / growing buffers whose boundaries nobody should have to guess)
    sweep = [L for L in list(range(1, 1101)) + list(range(4088, 4104)) if L % nshards == shard]
    for L in sweep:
        k1 = (b"k" * (L - 1)) if L > 1 else b""
        k2 = k1[:-1] if len(k1) > 1 else b"zz"           # the name one character shorter: what a dropped last byte would hit
        k3 = k1 + b"x"
        extra.append({"tree": "{ k%s i1 k%s i2 k%s i3 }" % (k1.hex(), k2.hex(), k3.hex()), "get": ("/" + k1.decode()), "set": ("/" + k1.decode()), "sweep": True})
    for i in range(ntrees // nshards + len(extra)):
        if i < len(extra):
            toks = extra[i]["tree"].split()
            ptrs = [extra[i]["get"].encode()] if "get" in extra[i] else []
            sets = [(extra[i]["set"].encode(), ["i7"])] if "set" in extra[i] else []
            if extra[i].get("sweep"):
                ptrs = ptrs * 2          # once through get, once through getf (forced below)
                sets = sets * 2
        else:
            toks = gen_tree(rng)
            while toks == ["n"]:
                toks = gen_tree(rng)  # a NULL json_object* is not "an instance/tree" for the pointer API
            if rng.random() < 0.03:
                # the same tree 30..150 containers further down: every pointer into it runs through that many more reference tokens (a pointer is as long as the tree is deep)
                for _ in range(rng.choice([30, 31, 32, 33, 34, 40, 64, 100, 150])):
                    toks = (["["] + toks + ["]"]) if rng.random() < 0.5 else (["{", "k" + b"w".hex()] + toks + ["}"])
                sh.count("trees.wrapped_in_30_to_150_more_levels")
            ptrs = pointers_for(rng, toks)
            # set targets
            sets = []
            paths = toks_paths(toks)
            for _ in range(rng.choice([1, 2, 3])):
                p = rng.choice(paths)
                base = refptr.pointer_to(list(p))
                m = rng.random()
                if m < 0.3:
                    sp = base                                   # replace an existing node (or the root)
                elif m < 0.6:
                    sp = base + b"/" + refptr.escape(rng.choice(KEYS) if rng.random() > 0.05 else boundary_key(rng))  # new/existing member whose name needs unescaping, or index-like
                elif m < 0.8:
                    sp = base + b"/" + rng.choice([b"-", b"0", b"1", b"2", b"3", b"5", b"01", b"x", b""])
                else:
                    sp = rng.choice(BAD_POINTERS)
                vt = rng.choice([["i4242"], ["s" + b"new".hex()], ["n"], ["[", "t", "]"], ["{", "k" + b"q".hex(), "n", "}"]])
                if sp == b"" and vt == ["n"]:
                    vt = ["i1"]
                sets.append((sp, vt))
        cmds = ["B 0 " + " ".join(toks), "D 0 1"]
        plan = [("build",), ("dump",)]
        for pi, p in enumerate(ptrs):
            mode = 1 if (b"%" not in p or True) and rng.random() < 0.25 else 0
            if i < len(extra) and extra[i].get("sweep"):
                mode = pi % 2
            cmds.append("PGET 0 x%s %d" % (p.hex(), mode))
            plan.append(("get", p, mode))
        if ptrs and rng.random() < 0.3:
            cmds.append("PGET 0 x%s 2" % ptrs[0].hex())
            plan.append(("get", ptrs[0], 2))
        for si, (sp, vt) in enumerate(sets):
            usef = rng.random() < 0.25
            if i < len(extra) and extra[i].get("sweep"):
                usef = bool(si % 2)
            cmds += ["B 5 " + " ".join(vt), "D 5 1", ("PSETF" if usef else "PSET") + " 0 x%s 5" % sp.hex(), "D 0 1", "PGET 0 x%s 0" % sp.hex(), "PUT5?"]
            plan += [("vbuild",), ("vdump",), ("set", sp, usef), ("dump2",), ("getafter", sp), ("putval",)]
        cmds.append("PUT 0")
        plan.append(("end",))
        cid = "%d.%d" % (shard, i)
        cases.append((cid, cmds))
        meta[cid] = plan
    # "PUT5?" depends on the outcome of the set, which is only known at run time: the driver cannot branch, so release through a
    # probe instead: ALIAS keeps the pointer, and after a failed set the check issues PUT 5; after a successful one the handle is
    # dropped.  Batch mode cannot branch either -- so always emit "PUTIFOWNED 5" which the check resolves in a second pass.
    # Simplest sound scheme: run every case twice; pass 1 learns the outcomes, pass 2 contains the right PUTs.
    pass1 = [(cid, [c for c in cmds if c != "PUT5?"]) for cid, cmds in cases]
    res1, cr1 = core.run_script(exe, pass1, tag="c12a", env=core.ambient_env(sh, shard))
    final = []
    for cid, cmds in cases:
        if cid not in res1:
            continue
        lines = iter(res1[cid])
        out = []
        last_set_rc = None
        for c in cmds:
            if c == "PUT5?":
                if last_set_rc != 0:
                    out.append("PUT 5")
                else:
                    out.append("ALIAS 5 6")
                continue
            ln = next(lines)
            if c.startswith("PSET"):
                last_set_rc = int(ln.split()[1])
            out.append(c)
        final.append((cid, out))
    results, crashes = core.run_script(exe, final, tag="c12", env=core.ambient_env(sh, shard))

    if shard == 0:
        # the whole-document forms on a document that does not exist yet: json_pointer_set(&doc, "", v) / json_pointer_setf(&doc, v, "%s", "") with doc == NULL
        # install v (both variants alike), and lookups in a NULL document fail cleanly
        nr = [("nullroot.%s" % c, ["NEW 0 - null", "NEW 5 77 int 4", "%s 0 x 5" % c, "D 0", "PGET 0 x 0", "PGET 0 x2f61 0", "PUT 0"]) for c in ("PSET", "PSETF")]
        r2, c2 = core.run_script(exe, nr, tag="c12n")
        for cr in c2:
            sh.violation("C12/%s/%s/null-document" % cr.summary(), "crash setting the whole-document pointer on a NULL document", {"driver": "jcdrv", "variant": "asan", "script": dict(nr)[cr.cid], "stderr": cr.stderr[-2000:]})
        outs = {}
        for cid, lines in r2.items():
            sh.evaluations += 4
            outs[cid] = lines[2:7]
            if lines[2].split()[1] != "0" or " i4" not in lines[3] or lines[4].split()[1] != "0" or lines[5].split()[1] == "0" or "del=77" not in lines[6]:
                sh.violation("C12/whole-document-set-on-null-document/" + cid.split(".")[1], "setting \"\" on a NULL document: %s" % lines[2:7], {"driver": "jcdrv", "variant": "asan", "script": dict(nr)[cid]})
        sh.count("whole_document_sets_on_a_NULL_document", len(r2))
    crashes += [c for c in cr1 if c.cid not in {x.cid for x in crashes}]
    cmdmap = dict(final)
    cmdmap.update({cid: cm for cid, cm in pass1 if cid not in cmdmap})
    for cr in crashes:
        kind, frame = cr.summary()
        i = min(len(cr.partial), len(cmdmap[cr.cid]) - 1)
        sh.violation("C12/%s/%s" % (kind, frame), "memory error (%s) at command #%d %s" % (kind, i, cmdmap[cr.cid][i][:100]),
                     {"driver": "jcdrv", "variant": "asan", "script": cmdmap[cr.cid], "stderr": cr.stderr[-2500:]})
    for cid, lines in results.items():
        cmds, plan = cmdmap[cid], meta[cid]
        rep = {"driver": "jcdrv", "variant": "asan", "script": cmds}
        root = None
        val = None
        key = None
        setinfo = None
        for ci, (c, st, ln) in enumerate(zip(cmds, plan, lines)):
            if ln.startswith("!"):
                raise core.Inconclusive("driver rejected %r: %s" % (c, ln))
            k = st[0]
            sh.evaluations += 1
            if k == "dump":
                root = refptr.parse_annotated(ln[2:])
            elif k == "get":
                p, mode = st[1], st[2]
                f = ln.split()
                rc, err, got = int(f[1]), int(f[2]), f[3]
                if rc not in (0, -1):
                    sh.violation("C12/undocumented-return-code/get", "json_pointer_get%s(%r) returned %d (documented: 0 or a negative value with errno set)" % ("f" if mode == 1 else "", p, rc), rep)
                    break
                odd = refptr.has_odd_tilde(p)
                if mode == 1 and b"%" in p:
                    continue
                try:
                    exp = refptr.evaluate(root, p)
                    if odd:
                        sh.count("get.odd_tilde_not_asserted")
                        continue
                    if rc != 0:
                        tgt = "null-" + ("element" if refptr.split_pointer(p) and refptr.IDX.match(refptr.split_pointer(p)[-1]) and exp.kind == "null" else "member") if exp.kind == "null" else exp.kind
                        key, what = "get-fails-on-valid-pointer/%s" % tgt, "lookup of %r failed (rc %d errno %d) but RFC 6901 evaluation reaches a %s" % (p, rc, err, exp.kind)
                    elif mode != 2 and int(got, 16) != (exp.ptr or 0):
                        key, what = "get-wrong-node", "lookup of %r returned node %s, the reference walk reaches %x" % (p, got, exp.ptr or 0)
                    sh.count("get.ok." + exp.kind)
                except PtrError as e:
                    if odd:
                        continue
                    if rc == 0:
                        toks = p[1:].split(b"/") if p.startswith(b"/") else [p]
                        cls = "empty-token-on-array" if b"" in toks else "non-canonical-index" if any(t[:1] in b"0123456789+- " and not refptr.IDX.match(t) for t in toks) else "other"
                        key, what = "get-succeeds-on-invalid-pointer/%s" % cls, "lookup of %r succeeded (node %s) but RFC 6901 evaluation fails: %s" % (p, got, e)
                    elif err not in (ENOENT, EINVAL):
                        key, what = "get-errno", "failed lookup of %r set errno %d (expected ENOENT or EINVAL)" % (p, err)
                    sh.count("get.fail")
            elif k == "vdump":
                val = refptr.parse_annotated(ln[2:])
            elif k == "set":
                sp = st[1]
                f = ln.split()
                rc, err = int(f[1]), int(f[2])
                if rc not in (0, -1):
                    sh.violation("C12/undocumented-return-code/set", "json_pointer_set%s(%r) returned %d (documented: 0 or a negative value with errno set)" % ("f" if st[2] else "", sp, rc), rep)
                    break
                before = dump_ann(root)
                odd = refptr.has_odd_tilde(sp)
                try:
                    trial = copy.deepcopy(root)
                    newroot, outcome = apply_set(trial, sp, val)
                    expect = ("ok", newroot) if outcome == "ok" else ("either", newroot)
                except PtrError as e:
                    expect = ("fail", None)
                setinfo = (sp, rc, expect, before, odd)
                if b"%" in sp and st[2]:
                    setinfo = None
                    root = None
                elif odd:
                    sh.count("set.odd_tilde_not_asserted")
                elif expect[0] == "ok" and rc != 0:
                    key, what = "set-fails-on-valid-target", "set at %r failed (rc %d errno %d) but the location is settable" % (sp, rc, err)
                elif expect[0] == "fail" and rc == 0:
                    cls = "empty-token-on-array" if sp.endswith(b"/") else "other"
                    key, what = "set-succeeds-on-invalid-target/" + cls, "set at %r succeeded but RFC 6901 says the location cannot be resolved" % (sp,)
                sh.count("set." + expect[0] + (".rc0" if rc == 0 else ".failed"))
            elif k == "dump2":
                if setinfo is None:
                    root = refptr.parse_annotated(ln[2:])
                    continue
                sp, rc, expect, before, odd = setinfo
                if odd:
                    root = refptr.parse_annotated(ln[2:])
                    continue
                if rc != 0:
                    if ln[2:] != before:
                        key, what = "failed-set-changed-tree", "set at %r failed but the tree changed" % (sp,)
                else:
                    want = dump_ann(expect[1])
                    if ln[2:] != want:
                        last = refptr.split_pointer(sp)[-1] if sp else b""
                        cls = "last-token-not-unescaped" if (b"~" in last) else "other"
                        key, what = "set-wrong-place/%s" % cls, "after set at %r the tree is %s, expected %s" % (sp, ln[2:200], want[:200])
                    root = expect[1]
            elif k == "getafter":
                if setinfo is None:
                    continue
                sp, rc, expect, before, odd = setinfo
                if rc == 0 and not odd and not key:
                    f = ln.split()
                    if int(f[1]) != 0 or int(f[3], 16) != (val.ptr or 0):
                        # "-" appends: looking "-" up again does not address the new element
                        if not (sp.endswith(b"/-") and expect[1] is not None):
                            key, what = "set-then-get", "lookup of %r right after setting it returned %s (value node is %x)" % (sp, ln, val.ptr or 0)
            elif k == "putval":
                if setinfo is not None and c.startswith("PUT"):
                    ret = int(ln.split()[1])
                    if val.kind != "null" and ret != 1:
                        key, what = "failed-set-took-ownership", "after a failed set the caller's put did not free the value (returned %d)" % ret
            if key:
                sh.violation("C12/" + key, what, dict(rep, failing_command=ci))
                break
        if not key and lines[-1].split()[1] != "live=0":
            sh.violation("C12/leak", "blocks left: " + lines[-1], rep)
        sh.nontrivial("\n".join(cmds))
        if len(sh.samples) < 1 and len(cmds) < 40:
            sh.samples.append({"script": [c[:90] for c in cmds[:14]], "replies": [l[:90] for l in lines[:14]]})
    return sh


def run(tier, seed):
    from oracle import selftest_more
    selftest_more.test_refptr()
    bdir = build.build("asan")
    chk = core.Check(PID, tier, seed)
    rd = core.record_dir(PID) if tier == "thorough" else None
    os.environ["VF_RECORD_SKIP"] = r"2f(3[0-9]){8,}"   # array indices of 8+ digits: a 2^32-slot array is refused under ASan's allocation cap only
    sh = core.parallel(shard_fn, seed=seed, tier=tier, exe=bdir + "/jcdrv", ntrees=64000 if tier == "quick" else 1200000)
    chk.absorb(sh)
    if rd:
        os.environ.pop("VF_RECORD_DIR", None)
        core.memcheck_recorded(chk, build.build("plain"), rd)
    chk.rule = ("trees with adversarial keys ('', '/', '~', '~0', '~1', '~01', 'a/b', 'm~n', '0', '01', '-', digits, '%s'), null members and null elements; for each tree the canonical pointer to EVERY node "
                "plus dangling/malformed pointers through get/getf; 1-3 set/setf operations (replace, new member needing unescaping, index, len, '-', beyond the end, root, malformed) each followed by a full "
                "pointer-annotated dump, a lookup of the same pointer and an ownership probe.  Oracle: RFC 6901 evaluator over the observed node identities. evaluations = commands; distinct = distinct scripts")
    chk.assumptions = ["'~' followed by something other than 0/1 is not asserted (RFC ABNF: malformed; json-c: literal)", "set at an index beyond the end may extend with nulls or fail cleanly",
                       "printf-style variants are exercised with the format \"%s\" on pointers that contain no '%'"]
    return chk.finish(min_evaluations=20000)

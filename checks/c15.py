"""C15 — the nesting limit is exact and enforced for every configured depth."""
import random

from vflib import core, build
from gen.docs import DocGen
from gen.tokens import first_too_deep
from oracle import refjson

PID = "C15"
E_DEPTH = 2


def nest(rng, m, shape, leaf, via):
    """a value enclosed by exactly m containers; shape: 'a' arrays, 'o' objects, 'x' alternating, 'r' random;
    via: 'first' | 'middle' | 'last' -- position of the nested child among its siblings"""
    pre, post = [], []
    for lvl in range(m):
        k = shape if shape in "ao" else ("ao"[lvl & 1] if shape == "x" else rng.choice("ao"))
        if k == "a":
            a, b = {"first": ("[", ",0]"), "middle": ("[1,", ",2]"), "last": ("[true,", "]"), "only": ("[", "]")}[via]
        else:
            a, b = {"first": ('{"a":', ',"z":0}'), "middle": ('{"p":1,"a":', ',"z":2}'), "last": ('{"p":null,"a":', "}"), "only": ('{"a":', "}")}[via]
        pre.append(a)
        post.append(b)
    return ("".join(pre) + leaf + "".join(reversed(post))).encode()


def shard_fn(shard, nshards, seed, tier, exe, npairs):
    rng = random.Random("%d/%d/c15" % (seed, shard))
    sh = core.Shard()
    cases, meta = [], {}
    n = 0

    def add(D, text, chunk, kind, group=None, flags=None):
        nonlocal n
        cid = "%d.%d" % (shard, n)
        n += 1
        cases.append((cid, ["PD %d %d %d x%s" % (rng.choice([0, 0, 1]) if flags is None else flags, D, chunk, text.hex())]))
        meta[cid] = (D, text, chunk, kind, group)

    Ds = [d for d in list(range(1, 65)) + [100, 1000] if d % nshards == shard % nshards or nshards == 1]
    if shard == 0:
        cases.append(("0.tn", ["TN 0", "TN -1", "TN -2147483648", "TN 1"]))
    big = [10 ** 5] + ([10 ** 6] if tier == "thorough" else [])
    for D in Ds:
        for shape in "aoxr":
            for via in ("only", "first", "middle", "last"):
                for m in list(range(max(0, D - 2), D + 3)) + [0, 1]:
                    for leaf in ("0", "[]", "{}", '"s"', "null"):
                        if rng.random() < (0.35 if tier == "quick" else 1.0):
                            add(D, nest(rng, m, shape, leaf, via), rng.choice([0, 0, 1, 3]), "boundary")
                    if rng.random() < (0.25 if tier == "quick" else 1.0):
                        # the same boundary with a leaf only the default (non-strict) mode knows: the limit applies to it exactly as to "0"
                        leaf = rng.choice(["Infinity", "infinity", "-Infinity", "NaN", "nan", "nUll", "TRUE", "'s'", "01"])
                        ref = nest(rng, m, shape if shape != "r" else "x", "0", via)
                        t = nest(rng, m, shape if shape != "r" else "x", leaf, via)
                        add(D, t, rng.choice([0, 0, 1, 3]), "boundary-ext", ("as", ref, leaf), flags=0)
                    if rng.random() < (0.25 if tier == "quick" else 1.0):
                        # an EMPTY container at the boundary that holds a comment (default mode): it encloses no value, so it counts exactly like "[]" / "{}"
                        leaf = rng.choice(["[/*c*/]", "{/*c*/}", "[//c\n]", "{ /**/ }", "[/*a*//*b*/]", "[\n//x\n//y\n]"])
                        ref = nest(rng, m, shape if shape != "r" else "x", leaf[0] + {"[": "]", "{": "}"}[leaf[0]], via)
                        t = nest(rng, m, shape if shape != "r" else "x", leaf, via)
                        add(D, t, rng.choice([0, 0, 1, 3]), "boundary-ext", ("as", ref, leaf), flags=0)
                        sh.count("empty_containers_holding_a_comment_at_the_boundary")
                    if m < D and rng.random() < (0.3 if tier == "quick" else 1.0):
                        # a document WITHIN the limit, cut short anywhere (the NUL follows): whatever the error is, it cannot be "nesting too deep"
                        t = nest(rng, m, shape, rng.choice(["0", '"s"', "null", "true"]), via)   # (a scalar leaf: a container leaf would be one level more)
                        add(D, t[:rng.randrange(1, max(2, len(t)))], rng.choice([0, 0, 1]), "boundary-truncated", ("truncated",))
                        if m == D - 1:
                            # ... in particular cut right after the innermost opener of a document whose D-th container is empty: D containers are open, nothing is too deep
                            t = nest(rng, m, shape, "[]", via)
                            add(D, t[:t.index(b"[]") + 1], rng.choice([0, 0, 1]), "boundary-truncated", ("truncated",))
                    if rng.random() < (0.25 if tier == "quick" else 1.0):
                        # malformed right at / beyond the limit (missing value, stray separator or closer): any error, but no memory error
                        leaf = rng.choice(["", ",", "}", "]", ":", "x", '"unterminated', "[,", '{"a":}', '{"a":,', '{"a"}', "{,", "[}"])
                        add(D, nest(rng, m, shape, "0", via).replace(b"0", leaf.encode(), 1) if leaf != "0" else b"", rng.choice([0, 0, 1]), "boundary-malformed", ("malformed",))
            # resource monotonicity: same D and shape, nesting D+1 vs far above D -- both stop at the same level
            g = "%d/%s" % (D, shape)
            if shape != "r":
                add(D, nest(rng, D + 1, shape, "0", "only"), 0, "peak-ref", g)
                add(D, nest(rng, 10 * D + 7, shape, "0", "only"), 0, "peak-far", g)
                if D in (1, 2, 32, 1000) or rng.random() < 0.1:
                    add(D, nest(rng, rng.choice(big), shape, "0", "only"), rng.choice([0, 0, 4096]), "peak-far", g)
    # very large limits: nothing in the tokener may assume that a configured depth is small
    if shard < 6:
        D = [10001, 10001, 10001, 10050, 10050, 12000][shard]   # (json_object_put and the driver's own dump recurse once per level: limits far beyond this need a bigger stack than the process has)
        for shape in ("o", "a", "x"):
            for m in (D - 1, D, 9999, 10000, 10001):
                if m <= D:
                    add(D, nest(rng, m, shape, "0", "only"), rng.choice([0, 0, 4096]), "boundary")
        sh.count("limits_of_10001_and_more")
    # limits whose level-stack size no longer fits 31 / 32 bits (2^26+1 and 2^27+1 records of 32 bytes; thorough: 2^28+1): the tokener either cannot be had (no memory: not asserted)
    # or honours its limit -- a document nested a few thousand deep is accepted, with nothing written outside the stack
    if 6 <= shard < (10 if tier == "thorough" else 9):
        D = [(1 << 26) + 1, (1 << 27) + 1, 1 << 27, (1 << 28) + 1][shard - 6]
        for shape, m in (("a", 3000), ("x", 7000), ("o", 40)):
            add(D, nest(rng, m, shape, "0", "only"), 0, "boundary", flags=0)
        sh.count("limits_of_2^26_and_more")
    gens = {}
    for _ in range(npairs // nshards):
        D = rng.choice(list(range(1, 41)) + [64])
        k = max(0, D - 1 + rng.choice([-2, -1, -1, 0, 0, 0, 1, 1, 2]))
        g = gens.get(k) or gens.setdefault(k, DocGen(rng, max_depth=k, budget=25, nul_keys=0.0, big_ints=False))
        text, _v = g.document()
        if len(text) < 3000:
            add(D, text, rng.choice([0, 0, 0, 1, 7]), "generated")
    # several documents through ONE tokener (reset after every document, or only after errors as the API requires): every outcome must be the one a
    # fresh tokener with the same limit gives; and json_tokener_parse_verbose against a default tokener on the same text (bracket-heavy, truncated)
    seqmeta = {}
    for i in range(npairs // nshards // 25):
        D = rng.choice([1, 2, 5, 31, 32, 33, 34, 40, 64, 100, 200])
        docs = []
        for _ in range(rng.choice([2, 3, 4])):
            m = max(0, rng.choice([D - 1, D, D, D + 1, D + 1, D + 5, 2 * D, 1, 33, 40]))
            t = nest(rng, m, rng.choice("aoxr"), rng.choice(["0", "[]", "{}", "null"]), rng.choice(["only", "first", "middle", "last"]))
            k = rng.random()
            if k < 0.15:
                t = t[:rng.randrange(1, len(t) + 1)]           # truncated: ends in "continue", the next document must not be affected after a reset
            elif k < 0.25:
                t = t[:len(t) // 2] + b"x" + t[len(t) // 2:]   # syntax error in the middle
            docs.append(t)
        flags = rng.choice([0, 0, 1])
        rm = rng.choice([0, 1, 1])
        cid = "%d.seq%d" % (shard, i)
        cases.append((cid, ["PM %d %d %d %s" % (flags, D, rm, " ".join("x" + d.hex() for d in docs))] + ["P %d %d 1 x%s" % (flags, D, d.hex()) for d in docs]))
        seqmeta[cid] = (D, docs, rm)
    for i in range(npairs // nshards // 10):
        k = rng.random()
        if k < 0.6:
            t = bytes(rng.choice(b'[[[{{]}1,:"a ') for _ in range(rng.randrange(1, 14)))
        else:
            full = nest(rng, rng.choice([1, 2, 5, 16, 31, 32, 33, 40]), rng.choice("aoxr"), rng.choice(["0", "[]", "{}", '"s"']), rng.choice(["only", "first", "last"]))
            t = full[:rng.randrange(1, len(full) + 1)] if rng.random() < 0.7 else full
        if b"\0" in t:
            continue
        cid = "%d.pv%d" % (shard, i)
        cases.append((cid, ["PV x" + t.hex(), "P 0 0 2 x" + t.hex()]))
        seqmeta[cid] = (None, [t], None)
    results, crashes = core.run_script(exe, cases, tag="c15", timeout=1800, env=core.ambient_env(sh, shard))
    cmdmap = dict(cases)
    for cr in crashes:
        kind, frame = cr.summary()
        D, text, chunk, k, g = meta.get(cr.cid, (seqmeta.get(cr.cid, (0,))[0] or 0, b" ".join(seqmeta.get(cr.cid, (0, [b""]))[1]), 0, "sequence", None))
        sh.violation("C15/crash/%s/%s" % (kind, frame), "crash/hang parsing %d bytes with depth limit %d (%s)" % (len(text), D, kind),
                     {"driver": "jcdrv", "variant": "asan", "script": [c[:200000] for c in cmdmap[cr.cid]], "stderr": cr.stderr[-3000:]})
    peaks = {}
    for cid, lines in results.items():
        if cid == "0.tn":
            got = [l.split()[1] for l in lines[:4]]
            sh.evaluations += 4
            if got != ["null", "null", "null", "ok"]:
                sh.violation("C15/new_ex-accepts-depth<1", "json_tokener_new_ex(0,-1,INT_MIN,1) returned %s" % got, {"driver": "jcdrv", "script": cmdmap[cid]})
            continue
        if cid in seqmeta:
            D, docs, rm = seqmeta[cid]
            rep = {"driver": "jcdrv", "variant": "asan", "script": cmdmap[cid], "depth_limit": D, "texts": [d[:200].decode("latin1") for d in docs]}
            if D is None:
                pv, pp = lines[0].split(" ", 3), lines[1].split(" ", 4)
                sh.evaluations += 1
                sh.count("parse_verbose_vs_default_tokener")
                if (pv[1], pv[2], pv[3]) != (pp[1], pp[3], pp[4]):
                    sh.violation("C15/parse_verbose-differs-from-default-tokener", "json_tokener_parse_verbose(%r): error %s, default tokener: error %s" % (docs[0][:60], pv[1], pp[1]), rep)
                sh.nontrivial(b"pv/" + docs[0])
                continue
            parts = lines[0][2:].split(" || ")
            for j, d in enumerate(docs):
                sh.evaluations += 1
                fresh = lines[1 + j][2:]
                if j >= len(parts) or parts[j] != fresh:
                    sh.violation("C15/reused-tokener-differs-from-fresh/doc%d" % min(j, 3), "document #%d through a reused tokener (limit %d, reset %s): %s ; fresh tokener: %s" % (
                        j, D, "always" if rm else "after errors", (parts[j] if j < len(parts) else "-")[:80], fresh[:80]), rep)
                    break
                exp = None
                try:
                    refjson.parse(d)
                    valid = True
                except refjson.JSONError:
                    valid = False
                if valid:
                    exp = first_too_deep(d, D)
                    err = int(fresh.split()[0])
                    if (exp is None) != (err == 0) or (exp is not None and (err != E_DEPTH or int(fresh.split()[1]) != exp)):
                        sh.violation("C15/sequence/wrong-outcome", "limit %d: document %r gave %s, expected %s" % (D, d[:60], fresh[:40], "accept" if exp is None else "error_depth at %d" % exp), rep)
                        break
            sh.count("documents_through_reused_tokeners", len(docs))
            sh.nontrivial(b"seq/%d/" % D + b" ".join(docs))
            continue
        D, text, chunk, kind, group = meta[cid]
        ln = lines[0]
        f = ln.split(" ", 7)
        if ln.startswith("= notok") and D > 10 ** 6:
            sh.count("huge_limit_not_granted_for_lack_of_memory")
            continue
        if f[0] != "=" or len(f) < 8:
            raise core.Inconclusive("bad driver line: " + ln[:200])
        err, end, nonnull = int(f[1]), int(f[2]), int(f[3])
        peak, stack = int(f[4].split("=")[1]), int(f[5].split("=")[1])
        sh.evaluations += 1
        if kind == "boundary-truncated":
            sh.count("kind." + kind)
            if err == E_DEPTH:
                sh.violation("C15/depth-error-within-limit", "a truncated document with at most %d open containers under limit %d was reported as nested too deep (end %d)" % (text.count(b"[") + text.count(b"{"), D, end),
                             {"driver": "jcdrv", "variant": "asan", "script": cmdmap[cid], "depth_limit": D, "text": text[:300].decode("latin1")})
            sh.nontrivial(b"%d/t/" % D + text)
            continue
        if kind == "boundary-malformed":
            sh.count("kind." + kind)
            if err == 0 and text.count(b"[") + text.count(b"{") >= D + 1:
                sh.violation("C15/accepts-beyond-limit", "malformed text nested beyond limit %d accepted" % D, {"driver": "jcdrv", "variant": "asan", "script": cmdmap[cid], "depth_limit": D})
            sh.nontrivial(b"%d/" % D + text)
            continue
        if kind == "boundary-ext":
            # expectation computed on the sibling text whose leaf is "0": same containers, same offsets up to the leaf
            exp = first_too_deep(group[1], D)
            group = None
        else:
            exp = first_too_deep(text, D)
        rep = {"driver": "jcdrv", "variant": "asan", "script": [c[:200000] for c in cmdmap[cid]], "depth_limit": D, "text": text[:300].decode("latin1"),
               "expected": "accept" if exp is None else "error_depth at %d" % exp, "observed": ln[:300]}
        ctx = "D=%d %s chunk=%d" % (D, kind, chunk)
        if exp is None:
            sh.count("accepted_expected")
            if err != 0:
                key = "C15/rejects-within-limit" if err == E_DEPTH else "C15/within-limit-other-error"
                sh.violation(key, "document with max enclosure %d rejected (err %d at %d) under limit %d" % (text.count(b"[") + text.count(b"{"), err, end, D), rep)
        else:
            sh.count("rejected_expected")
            if err == 0:
                sh.violation("C15/accepts-beyond-limit", "document exceeding limit %d accepted (%s)" % (D, ctx), rep)
            elif err != E_DEPTH:
                sh.violation("C15/wrong-error-code", "too-deep document failed with error %d instead of nesting-too-deep (%s)" % (err, ctx), rep)
            elif end != exp:
                sh.violation("C15/wrong-position", "nesting error reported at %d, first too-deep value is at %d (%s)" % (end, exp, ctx), rep)
        if group:
            peaks.setdefault(group, []).append((kind, peak, stack, len(text), cid))
        sh.cmax("max_peak_blocks", peak)
        sh.cmax("max_stack_bytes", stack)
        sh.count("kind." + kind)
        sh.count("limit.%d" % D)
        sh.nontrivial(b"%d/" % D + text)
        if len(sh.samples) < 2 and kind == "boundary" and 8 < len(text) < 90:
            sh.samples.append({"depth_limit": D, "text": text.decode(), "expected": rep["expected"], "observed": ln[:60]})
    for g, lst in peaks.items():
        ref = [x for x in lst if x[0] == "peak-ref"]
        if not ref:
            continue
        _, rp, rs, _, _ = ref[0]
        for kind, peak, stack, tl, cid in lst:
            if kind != "peak-far":
                continue
            sh.count("resource_comparisons")
            if peak > rp:
                sh.violation("C15/memory-grows-with-input-depth", "limit/shape %s: peak live blocks %d for %d-byte input nested far beyond the limit vs %d for nesting limit+1" % (g, peak, tl, rp),
                             {"driver": "jcdrv", "script": [c[:100000] for c in cmdmap[cid]]})
            if stack > rs + 4096:
                sh.violation("C15/stack-grows-with-input-depth", "limit/shape %s: stack use %d vs %d bytes" % (g, stack, rs), {"driver": "jcdrv", "script": [c[:100000] for c in cmdmap[cid]]})
    return sh


def run(tier, seed):
    bdir = build.build("asan")
    chk = core.Check(PID, tier, seed)
    sh = core.parallel(shard_fn, seed=seed, tier=tier, exe=bdir + "/jcdrv", npairs=60000 if tier == "quick" else 400000)
    chk.absorb(sh)
    chk.rule = ("(limit D, document) pairs: D in 1..64,100,1000 x shapes (arrays, objects, alternating, random) x boundary reached via only/first/middle/last child x enclosure m in D-2..D+2 "
                "x leaf kinds (scalar, empty containers), one-shot and chunked, plus generated documents with max enclosure around D-1, plus inputs nested 10D / 10^5 (/10^6) deep for the "
                "resource comparison (peak live blocks and stack high-water must not exceed those of nesting D+1). Expected outcome and error offset from an independent token scan. "
                "Parses run on a 256 KiB-stack thread. distinct = distinct (D, text)")
    chk.assumptions = ["documents are RFC-valid, so the reference scan is a plain tokenizer", "stack high-water is sampled at allocation time by the shim"]
    return chk.finish(min_evaluations=5000)

"""C07 — a JSON array behaves as a sequence with null gaps under any operation history."""
import os
import random

from vflib import core, build

PID = "C07"


def parse_del(ln):
    d = ln.split("del=")[1].split()[0]
    return [] if d == "-" else [int(x) for x in d.split(",")]


def gen_history(rng, nops):
    """returns list of (cmds, op descriptor).  Handle 0 = the array, handle 1 = scratch element."""
    n0 = rng.choice([0, 0, 1, 2, 3, 32])
    kinds = {}
    ops = [(["NEW 0 1 arrx %d" % n0], ("new", n0, kinds))]
    uid = [10]
    model_len = [0]  # only a rough guide for index choice (the oracle recomputes exactly)

    def newelem():
        if rng.random() < 0.12:
            return ["NEW 1 - null"], None
        uid[0] += 1
        kind = rng.choice(["int %d" % uid[0], "int %d" % uid[0], "str " + b"el".hex(), "arr", "obj", "bool 1", "dbl 3ff8000000000000"])
        kinds[uid[0]] = kind.split()[0]
        return ["NEW 1 %d %s" % (uid[0], kind)], uid[0]

    def lvl():
        # one operation in eight goes through the array's lower-level handle (array_list_* on json_object_get_array): the same array, the same model
        return " L" if rng.random() < 0.125 else ""

    def idx_choice(L):
        r = rng.random()
        if r < 0.45 and L:
            return rng.randrange(L)
        if r < 0.6:
            return L
        if r < 0.75:
            return L + rng.choice([1, 2, 3, 7, 31, 70] + ([500, 5000] if rng.random() < 0.05 else []))
        if r < 0.85:
            return max(0, L - 1)
        return rng.choice(["max", "max-1", 1 << 33, 1 << 33, 1 << 61, (1 << 61) + (1 << 60), (1 << 62) - 1, 1 << 63])

    if rng.random() < 0.02:
        # large-array phase: capacity beyond 8192 slots, then puts landing between 1x and 2.2x the capacity
        cap = rng.choice([8191, 8192, 9000, 16384])
        c, u = newelem()
        ops.append((c + ["APUT 0 %d 1" % cap], ("put", cap, u)))
        model_len[0] = cap + 1
        for _ in range(rng.choice([1, 2, 3])):
            tgt = int(model_len[0] * rng.choice([1.0, 1.3, 1.5, 1.51, 1.75, 1.99, 2.0, 2.2]))
            c, u = newelem()
            opk = rng.choice(["put", "ins"])
            ops.append((c + ["%s 0 %d 1" % ("APUT" if opk == "put" else "AINS", tgt)], (opk, tgt, u)))
            model_len[0] = max(model_len[0], tgt + 1)
        nops = 4
    for _ in range(nops):
        L = model_len[0]
        r = rng.random()
        if r < 0.25:
            c, u = newelem()
            ops.append((c + ["AADD 0 1" + lvl()], ("add", u)))
            model_len[0] += 1
        elif r < 0.45:
            c, u = newelem()
            i = idx_choice(L)
            ops.append((c + ["APUT 0 %s 1" % i + lvl()], ("put", i, u)))
            if isinstance(i, int) and i < (1 << 33):
                model_len[0] = max(L, i + 1)
        elif r < 0.62:
            c, u = newelem()
            i = idx_choice(L)
            ops.append((c + ["AINS 0 %s 1" % i + lvl()], ("ins", i, u)))
            if isinstance(i, int) and i < (1 << 33):
                model_len[0] = max(L + 1, i + 1) if i < L else max(L, i + 1)
        elif r < 0.8:
            i = rng.choice([0, 1, max(0, L - 1), L, L + 1, "max", rng.randrange(L + 1)])
            cnt = rng.choice([0, 1, 1, 2, 3, max(0, L - 1), L, L + 1, "max"])
            ops.append((["ADEL 0 %s %s" % (i, cnt) + lvl()], ("del", i, cnt)))
            if isinstance(i, int) and isinstance(cnt, int) and i < L and i + cnt <= L:
                model_len[0] -= cnt
        elif r < 0.86:
            if rng.random() < 0.15:
                # array_list_shrink on the handle with a slack that cannot be added to the length: refused, nothing changes
                ops.append((["ASHRINK 0 %s L" % rng.choice(["max", "max-1", str(1 << 61), str(1 << 63), str((1 << 64) - 1 - max(0, L - 1))])], ("shrinkx",)))
            else:
                ops.append((["ASHRINK 0 %d" % rng.randrange(4) + lvl()], ("shrink",)))
        elif r < 0.875:
            # the order by current value: sort, change one element in place (the array is not involved in that call), sort again with the same comparator;
            # or sort, append through the lower-level handle of the same array (json_object_get_array + array_list_add), sort again
            ops.append((["ASORT 0 v"], ("sortv",)))
            for _ in range(rng.choice([1, 1, 2])):
                if rng.random() < 0.7:
                    ops.append((["ASETV 0 %d %d" % (rng.randrange(L + 1), rng.randrange(-3, uid[0] + 6))], ("setv",)))
                else:
                    c, u = newelem()
                    ops.append((c + ["ALADD 0 1"], ("add", u)))
                    model_len[0] += 1
                ops.append((["ASORT 0 v"] if rng.random() < 0.8 else ["ASORT 0"], ("sortv",) ))
                if ops[-1][0] == ["ASORT 0"]:
                    ops[-1] = (["ASORT 0"], ("sort",))
        elif r < 0.94:
            ops.append((["ASORT 0" + lvl()], ("sort",)))
            if rng.random() < 0.8:
                ops.append((None, ("bsearch",)))  # resolved by the oracle pass: needs the sorted content
        else:
            i = rng.choice([0, L, L + 5, "max", rng.randrange(L + 1)])
            ops.append((["AGET 0 %s 2" % i], ("get", i)))
    return ops


def realize(ops, rng):
    """flatten to commands; bsearch steps pick their key from the model, so the model is run here as well"""
    cmds, plan = [], []
    model = []
    SM = (1 << 64) - 1

    BIG = 1 << 33   # 2^33 slots = 64 GiB: legal arithmetic, but no allocator here grants it (ASan caps single allocations at 4 GiB): the operation must fail cleanly

    def num(i):
        return SM if i == "max" else SM - 1 if i == "max-1" else i

    for c, d in ops:
        k = d[0]
        exp = {"op": d}
        if k == "new":
            model = []
            kinds, vals = d[2], {}
        elif k == "add":
            model.append(d[1])
            exp.update(ret=0, dels=[])
        elif k in ("put", "ins"):
            i, u = num(d[1]), d[2]
            if i >= SM - 1 or i >= BIG:
                exp.update(ret=-1, dels=[], failed_elem=u)
            elif k == "ins" and i < len(model):
                model.insert(i, u)
                exp.update(ret=0, dels=[])
            else:
                dels = []
                if i < len(model):
                    if model[i] is not None:
                        dels.append(model[i])
                    model[i] = u
                else:
                    model += [None] * (i - len(model)) + [u]
                exp.update(ret=0, dels=dels)
        elif k == "del":
            i, cnt = num(d[1]), num(d[2])
            if i >= len(model) or i + cnt > len(model):
                exp.update(ret=-1, dels=[])
            else:
                exp.update(ret=0, dels=[x for x in model[i:i + cnt] if x is not None])
                del model[i:i + cnt]
        elif k == "shrink":
            exp.update(ret=0, dels=[])
        elif k == "shrinkx":
            exp.update(ret=-1, dels=[])
        elif k == "sort":
            model.sort(key=lambda x: -1 if x is None else x)
            exp.update(dels=[])
        elif k == "sortv":
            model.sort(key=lambda x: (-1, -1) if x is None else (vals.get(x, x), x))
            exp.update(dels=[])
        elif k == "setv":
            i, v = int(c[0].split()[2]), int(c[0].split()[3])
            x = model[i] if i < len(model) else None
            if x is not None and kinds.get(x) == "int":
                vals[x] = v
                exp.update(ret=1, dels=[])
            else:
                exp.update(ret=-9, dels=[])
        elif k == "bsearch":
            present = [x for x in model if x is not None]
            if present and rng.random() < 0.7:
                target = rng.choice(present)
                c = ["AGET 0 %d 3" % model.index(target), "ABS 0 3"]
                exp.update(found=target)
            else:
                c = ["NEW 3 999999 int 1", "ABS 0 3", "PUT 3"]
                exp.update(found=-2, keydel=True)
        elif k == "get":
            i = num(d[1])
            exp.update(get=(model[i] if i < len(model) else None))
        exp["model"] = list(model)
        exp["ncmds"] = len(c) + 1
        cmds += c + ["ADUMP 0"]
        plan.append(exp)
        if exp.get("failed_elem") is not None or (k in ("put", "ins") and exp.get("ret") == -1):
            # ownership stays with the caller on failure: release it (a NULL element needs no release)
            cmds.append("PUT 1")
            exp["ncmds"] += 1
            exp["caller_put"] = True
    cmds.append("PUT 0")
    return cmds, plan, model


def shard_fn(shard, nshards, seed, tier, exe, nhist):
    rng = random.Random("%d/%d/c07" % (seed, shard))
    sh = core.Shard()
    cases, meta = [], {}
    if shard == 0:
        cases.append(("0.neg", ["NEW 0 - arrx -1", "NEW 0 - arrx -2147483648"]))
    for i in range(nhist // nshards):
        ops = gen_history(rng, rng.choice([20, 60, 100, 100]))
        cmds, plan, final = realize(ops, rng)
        cid = "%d.%d" % (shard, i)
        cases.append((cid, cmds))
        meta[cid] = (plan, final)
    # huge arrays (2^20 .. 2*10^7 slots): a sparse model (index -> uid) and whole-array digests instead of dumps; four histories per run
    hugemeta = {}
    if shard < 6:
        n0 = [0, 1 << 20, (1 << 24) + 5, 20000000, (1 << 22) + 1, 5000000][shard]
        cmds, sparse, L, uid, exp = ["NEW 0 1 arrx %d" % n0], {}, 0, 5000, []
        steps = [("put", 1 << 20), ("put", (1 << 20) + (1 << 19) + 10), ("put", 17000000 if shard == 3 else (1 << 21) + 3), ("ins", 5), ("put", (1 << 24) + 1 if shard >= 2 else (1 << 22)), ("del", 3, 1 << 19), ("add",), ("put", 7)]
        rng2 = random.Random("%d/%d/c07huge" % (seed, shard))
        rng2.shuffle(steps)
        if shard >= 4:
            # an array that already owns millions of slots, then single puts / inserts landing at 1.6x, 1.9x and 2.3x of what it owns at that moment (the capacity is at least
            # the length, so the targets are chosen from the lengths reached): whatever growth policy applies to big arrays, the slot written must exist
            c0 = n0
            steps = [("put", int(c0 * 1.6)), ("add",), ("ins", int(c0 * 1.6 * 1.9)), ("put", 7), ("put", int(c0 * 1.6 * 1.9 * 1.55)), ("del", 3, 1 << 19)]
        for st in steps:
            uid += 1
            if st[0] == "put":
                i = st[1]
                cmds += ["NEW 1 %d int %d" % (uid, uid), "APUT 0 %d 1" % i]
                old = sparse.get(i)
                sparse[i] = uid
                L = max(L, i + 1)
                exp.append((0, [old] if old else []))
            elif st[0] == "ins":
                i = st[1]
                cmds += ["NEW 1 %d int %d" % (uid, uid), "AINS 0 %d 1" % i]
                if i < L:
                    sparse = {(k + 1 if k >= i else k): v for k, v in sparse.items()}
                    L += 1
                else:
                    L = i + 1
                sparse[i] = uid
                exp.append((0, []))
            elif st[0] == "add":
                cmds += ["NEW 1 %d int %d" % (uid, uid), "AADD 0 1"]
                sparse[L] = uid
                L += 1
                exp.append((0, []))
            else:
                i, c = st[1], st[2]
                cmds.append("ADEL 0 %d %d" % (i, c))
                if i + c <= L:
                    dels = sorted(v for k, v in sparse.items() if i <= k < i + c)
                    sparse = {(k - c if k >= i + c else k): v for k, v in sparse.items() if not i <= k < i + c}
                    L -= c
                    exp.append((0, dels))
                else:
                    exp.append((-1, []))
            cmds.append("ASUM 0")
            exp[-1] = exp[-1] + (L, len(sparse), sum(sparse.values()), min(sparse) if sparse else -1, max(sparse) if sparse else -1)
        cmds.append("PUT 0")
        cid = "%d.huge" % shard
        cases.append((cid, cmds))
        hugemeta[cid] = exp
    results, crashes = core.run_script(exe, cases, tag="c07", env=core.ambient_env(sh, shard))
    cmdmap = dict(cases)
    for cr in crashes:
        kind, frame = cr.summary()
        i = min(len(cr.partial), len(cmdmap[cr.cid]) - 1)
        sh.violation("C07/%s/%s/%s" % (kind, frame, cmdmap[cr.cid][i].split()[0]), "memory error in an array operation (%s) at command #%d %s" % (kind, i, cmdmap[cr.cid][i]),
                     {"driver": "jcdrv", "variant": "asan", "script": cmdmap[cr.cid], "stderr": cr.stderr[-2500:]})
    for cid, lines in results.items():
        if cid == "0.neg":
            sh.evaluations += 2
            if lines[0] != "= null" or lines[1] != "= null":
                sh.violation("C07/negative-initial-size", "json_object_new_array_ext(n<0) did not return NULL: %s" % lines[:2], {"driver": "jcdrv", "script": cmdmap[cid]})
            continue
        if cid in hugemeta:
            ops = [(c, l) for c, l in zip(cmdmap[cid], lines) if c.split()[0] in ("APUT", "AINS", "AADD", "ADEL", "ASUM")]
            rep = {"driver": "jcdrv", "variant": "asan", "script": cmdmap[cid]}
            for j, e in enumerate(hugemeta[cid]):
                (oc, ol), (sc, sl) = ops[2 * j], ops[2 * j + 1]
                sh.evaluations += 2
                d = dict(x.split("=") for x in sl.split()[1:])
                got = (int(d["len"]), int(d["nonnull"]), int(d["uidsum"]), int(d["first"]), int(d["last"]))
                if int(ol.split()[1]) != e[0] or sorted(parse_del(ol)) != sorted(e[1]):
                    sh.violation("C07/huge/return-or-release", "%s on a huge array returned %s, model says ret %d releases %s" % (oc, ol, e[0], e[1]), rep)
                    break
                if got != e[2:] or int(d["cap"]) < int(d["len"]):
                    sh.violation("C07/huge/contents", "after %s: (len, non-null, uid sum, first, last) = %s cap %s, model %s" % (oc, got, d["cap"], e[2:]), rep)
                    break
                sh.count("huge_array_operations")
            sh.cmax("max_array_length", max(e[2] for e in hugemeta[cid]))
            if lines[-1].split()[1] != "live=0":
                sh.violation("C07/leak", "blocks left after a huge-array history: " + lines[-1], rep)
            continue
        plan, final = meta[cid]
        cmds = cmdmap[cid]
        rep = {"driver": "jcdrv", "variant": "asan", "script": cmds}
        li = 0
        bad = False
        for exp in plan:
            chunk = lines[li:li + exp["ncmds"]]
            ccmds = cmds[li:li + exp["ncmds"]]
            li += exp["ncmds"]
            op = exp["op"]
            k = op[0]
            sh.evaluations += 1
            key = what = None
            # locate the operation's own reply and the ADUMP reply
            dump_i = max(i for i, c in enumerate(ccmds) if c.startswith("ADUMP"))
            opline = chunk[dump_i - 1] if k not in ("new",) else chunk[0]
            if k in ("add", "put", "ins", "del", "shrink", "shrinkx"):
                if any(cc.endswith(" L") or cc.startswith("ALADD") for cc in ccmds):
                    sh.count("operations_through_the_array_list_handle." + k)
                ret = int(opline.split()[1])
                dels = parse_del(opline)
                if ret != exp["ret"]:
                    key, what = "return/" + k, "%s returned %d, model says %d" % (op, ret, exp["ret"])
                elif sorted(dels) != sorted(exp["dels"]):
                    key, what = "release/" + k, "%s released %s, model says %s" % (op, dels, exp["dels"])
                if exp.get("caller_put") and not key:
                    pl = chunk[-1]
                    u = op[2] if k in ("put", "ins") else None
                    if u is not None and (int(pl.split()[1]) != 1 or parse_del(pl) != [u]):
                        key, what = "failed-op-took-ownership/" + k, "after failed %s the caller's put gave %s" % (op, pl)
            elif k == "setv":
                if int(opline.split()[1]) != exp["ret"]:
                    key, what = "in-place-set", "%s returned %s, model says %d" % (ccmds[0], opline.split()[1], exp["ret"])
                else:
                    sh.count("element_changed_in_place_between_sorts" if exp["ret"] == 1 else "in_place_set_on_non_integer_or_missing_element")
            elif k in ("sort", "sortv"):
                if k == "sortv":
                    sh.count("sorts_by_current_value")
                if parse_del(opline):
                    key, what = "release/sort", "sort destroyed %s" % parse_del(opline)
            elif k == "bsearch":
                bl = [l for c, l in zip(ccmds, chunk) if c.startswith("ABS")][0]
                if int(bl.split()[1]) != exp["found"]:
                    key, what = "bsearch", "bsearch returned uid %s, model says %s" % (bl.split()[1], exp["found"])
                elif bl.split()[2] != "keyfirst_violations=0":
                    key, what = "bsearch-comparator-arguments", "the comparator was called with a member (not the key) as its first argument: %s" % bl
            elif k == "get":
                g = opline.split()
                got = None if g[2] == "1" else int(g[1])
                if got != exp["get"]:
                    key, what = "get_idx", "%s returned %s, model says %s" % (op, got, exp["get"])
            if not key:
                d = dict(x.split("=", 1) for x in chunk[dump_i].split()[1:])
                m = exp["model"]
                want = ",".join("n" if x is None else str(x) for x in m + [None] * 3)
                if d.get("alok") != "1":
                    key, what = "array_list-handle-disagrees/" + k, "after %s array_list_length/array_list_get_idx on json_object_get_array() disagree with json_object_array_length/get_idx" % (op,)
                elif int(d["len"]) != len(m):
                    key, what = "length/" + k, "after %s length is %s, model says %d" % (op, d["len"], len(m))
                elif d["e"] != want:
                    key, what = "contents/" + k, "after %s elements are %s, model says %s" % (op, d["e"][:200], want[:200])
                elif d["far"] != "1":
                    key, what = "read-past-end", "reads far past the end are not null"
                elif int(d["cap"]) < len(m):
                    key, what = "capacity", "capacity %s < length %d" % (d["cap"], len(m))
                sh.cmax("max_len", len(m))
            if key:
                sh.violation("C07/" + key, what, dict(rep, failing_op=str(op)))
                bad = True
                break
            sh.count("op." + k + ("" if k not in ("put", "ins", "del") else (".ok" if exp.get("ret") == 0 else ".refused")))
        if not bad:
            last = lines[li]
            dels = parse_del(last)
            want = [x for x in final if x is not None] + [1]
            if int(last.split()[1]) != 1 or sorted(dels) != sorted(want) or len(set(dels)) != len(dels):
                sh.violation("C07/final-release", "destroying the array released %s, model says %s" % (dels[:50], want[:50]), rep)
            if lines[-1].split()[1] != "live=0":
                sh.violation("C07/leak", "blocks left after the array was destroyed: " + lines[-1], rep)
        sh.nontrivial("\n".join(cmds))
        if len(sh.samples) < 1:
            sh.samples.append({"history": cmds[:16], "replies": lines[:16]})
    return sh


def run(tier, seed):
    bdir = build.build("asan")
    chk = core.Check(PID, tier, seed)
    rd = core.record_dir(PID) if tier == "thorough" else None
    os.environ["VF_RECORD_SKIP"] = r" 8589934592 "   # (the uninstrumented build under memcheck might really be granted 64 GiB of address space)
    sh = core.parallel(shard_fn, seed=seed, tier=tier, exe=bdir + "/jcdrv", nhist=32000 if tier == "quick" else 300000)
    chk.absorb(sh)
    if rd:
        os.environ.pop("VF_RECORD_DIR", None)
        core.memcheck_recorded(chk, build.build("plain"), rd)
    chk.rule = ("random histories (20-100 ops) on json_object_new_array_ext(n in {0,1,2,3,32}): add, put_idx (inside, ==len, len+{1..70}, SIZE_MAX, SIZE_MAX-1), insert_idx (same lattice), "
                "del_idx over {0,1,len-1,len,len+1,SIZE_MAX}^2, shrink(0..3), sort + bsearch (NULL-safe comparator), get_idx; after EVERY step length and every index 0..len+2 are compared with a list-with-gaps "
                "model, destruction callbacks (uids) with the model's release set, failed operations must leave ownership with the caller. evaluations = operations; distinct = distinct histories")
    chk.assumptions = ["huge-but-allocatable indices (2^32..2^40) are not used as must-fail cases"]
    return chk.finish(min_evaluations=20000)

"""C13 — JSON Patch application follows RFC 6902 and is safe on arbitrary patch documents."""
import copy
import os
import random

from vflib import core, build
from oracle import refpatch, refjson
from oracle.refpatch import encode

PID = "C13"
KEYS = [b"a", b"b", b"ab", b"a/b", b"m~n", b"~1", b"", b"0", b"1", b"-", b"foo", b"x y", b"c%d", b"~0~1", b"k\x01", b"e\xc3\xa9", b"a~2", b"t~", b"~", b"~~"]


BASE_KEYS = list(KEYS)


def set_key_pool(rng):
    """per-document member-name pool: the short adversarial names, plus (in 1 document of 5) names whose ESCAPED length sits on / next to a power of two
    (any fixed-size scratch buffer, length field or growth step in token handling has to cope with them)"""
    global KEYS
    KEYS = list(BASE_KEYS)
    if rng.random() < 0.2:
        for _ in range(rng.choice([2, 3, 5])):
            target = rng.choice([8, 15, 16, 17, 31, 32, 33, 63, 64, 64, 65, 127, 128, 129, 255, 256, 257, 300])
            nsp = rng.choice([0, 1, 1, 2, 3])
            raw = [bytes([rng.choice(b"abcdefgxyz0189 ")]) for _ in range(max(1, target - 2 * nsp))]
            for _ in range(nsp):
                raw.insert(rng.randrange(len(raw) + 1), rng.choice([b"~", b"/"]))
            KEYS.append(b"".join(raw))
        return True
    return False


_SPELL = None


def esc(k):
    """pointer spelling of a member name.  A '~' that is not followed by '0' or '1' may also be written raw: RFC 6901 evaluation (and json-c) only
    transforms the sequences ~1 and ~0, so "/a~2" and "/a~02" address the same member "a~2"; a third of such tildes are spelled raw."""
    if _SPELL is None or b"~" not in k:
        return k.replace(b"~", b"~0").replace(b"/", b"~1")
    out = bytearray()
    for i, c in enumerate(k):
        if c == 0x7E:
            nxt = k[i + 1:i + 2]
            out += b"~" if (nxt not in (b"0", b"1") and _SPELL.random() < 0.35) else b"~0"
        elif c == 0x2F:
            out += b"~1"
        else:
            out.append(c)
    return bytes(out)


def gen_value(rng, depth=0, budget=None):
    budget = budget if budget is not None else [rng.choice([2, 5, 10])]
    r = rng.random()
    if depth < 4 and budget[0] > 0 and r < (0.85 if depth == 0 else 0.4):
        n = rng.choice([0, 1, 2, 3, 4])
        if rng.random() < 0.02:
            n = rng.choice([10, 12, 40, 120])
            budget[0] = max(budget[0], n)
        if rng.random() < 0.5:
            return [gen_value(rng, depth + 1, budget) for _ in range(n)]
        out = {}
        for _ in range(n):
            out[rng.choice(KEYS)] = gen_value(rng, depth + 1, budget)
        return out
    budget[0] -= 1
    return rng.choice([None, None, True, False, rng.randrange(100), rng.randrange(100), rng.choice(KEYS), 1.5, -(1 << 40)])


def all_paths(v, pre=()):
    yield pre
    if isinstance(v, list):
        for i, c in enumerate(v):
            yield from all_paths(c, pre + (i,))
    elif isinstance(v, dict):
        for k, c in v.items():
            yield from all_paths(c, pre + (k,))


def ptr(path):
    return b"".join(b"/" + (esc(x) if isinstance(x, bytes) else str(x).encode()) for x in path)


def node_at(v, path):
    for p in path:
        v = v[p]
    return v


def new_location(rng, doc, avoid_under=None):
    """a pointer at which an add is legal: existing container + new/existing key, index 0..len or '-'"""
    conts = [p for p in all_paths(doc) if isinstance(node_at(doc, p), (list, dict)) and (avoid_under is None or p[:len(avoid_under)] != avoid_under)]
    if not conts:
        return None
    p = rng.choice(conts)
    c = node_at(doc, p)
    if isinstance(c, list):
        return ptr(p) + b"/" + rng.choice([b"-", b"0", str(len(c)).encode(), str(rng.randrange(len(c) + 1)).encode()])
    return ptr(p) + b"/" + esc(rng.choice(KEYS))


def gen_patch(rng, doc):
    """returns list of op dicts generated against the evolving reference document"""
    ops = []
    cur = refpatch.Doc(copy.deepcopy(doc))
    nops = rng.choice([1, 2, 3, 5, 8]) if rng.random() > 0.03 else rng.choice([20, 40, 90])
    fail_at = rng.randrange(nops) if rng.random() < 0.4 else -1
    i = 0
    followup = None
    while i < nops:
        paths = list(all_paths(cur.v))
        nonroot = [p for p in paths if p]
        op = None
        if i == fail_at:
            k = rng.random()
            if k < 0.2:
                op = {b"op": rng.choice([b"remove", b"replace", b"test", b"add"]), b"path": ptr(rng.choice(paths)) + b"/nonexistent/x", b"value": 1}
            elif k < 0.35:
                # "from" is a proper prefix of "path" (RFC 6902 4.4): the whole document included, any depth below, existing or new location
                conts = [q for q in paths if isinstance(node_at(cur.v, q), (dict, list))]
                if conts:
                    p = rng.choice(conts)
                    under = [q for q in paths if len(q) > len(p) and q[:len(p)] == p]
                    if under and rng.random() < 0.5:
                        dst = ptr(rng.choice(under))
                    else:
                        dst = ptr(p) + (b"/child" if isinstance(node_at(cur.v, p), dict) else rng.choice([b"/-", b"/0"]))
                    op = {b"op": b"move", b"from": ptr(p), b"path": dst}
            elif k < 0.5:
                arrs = [p for p in paths if isinstance(node_at(cur.v, p), list)]
                if arrs:
                    p = rng.choice(arrs)
                    n = len(node_at(cur.v, p))
                    bad = rng.choice([str(n + rng.choice([1, 2, 10])), "+%d" % min(n, 1), "0%d" % min(n, 1), "1e0", " 0", "0 ", "-1", "18446744073709551616", "4294967296", "00", "", ":", "1:", ":0", "0:", "2305843009213693953"])
                    op = {b"op": rng.choice([b"add", b"add", b"replace", b"remove", b"test"]), b"path": ptr(p) + b"/" + bad.encode(), b"value": None}
                    if op[b"op"] == b"add" and bad == "" :
                        op[b"op"] = b"replace"
            elif k < 0.6 and nonroot:
                p = rng.choice(nonroot)
                op = {b"op": b"test", b"path": ptr(p), b"value": b"certainly-not-this-value"}
            elif k < 0.7:
                op = {b"op": rng.choice([b"frob", b"ADD", b"", b"remove "]), b"path": ptr(rng.choice(paths))}
            elif k < 0.8:
                op = {b"op": rng.choice([b"add", b"replace", b"test"]), b"path": ptr(rng.choice(paths))}  # no value
            elif k < 0.9:
                op = {b"op": rng.choice([b"move", b"copy"]), b"path": b"/zzz"}  # no from
            else:
                arrs = [p for p in paths if isinstance(node_at(cur.v, p), list) and node_at(cur.v, p)]
                if arrs:
                    p = rng.choice(arrs)
                    n = len(node_at(cur.v, p))
                    # move within one array to index == old length: after the removal the array is one shorter, so this is out of bounds
                    op = {b"op": b"move", b"from": ptr(p) + b"/0", b"path": ptr(p) + b"/" + str(n).encode()}
            if op is None:
                op = {b"op": b"remove", b"path": b"/no/such/thing"}
        elif followup is not None and rng.random() < 0.7:
            # modify the location that was just added/copied: must not show through to the source or to the patch
            loc = followup
            followup = None
            try:
                tgt = refpatch.get(cur.v, refpatch.tokens(loc))
            except refpatch.PatchError:
                tgt = None
            if isinstance(tgt, dict):
                op = {b"op": b"add", b"path": loc + b"/" + esc(rng.choice(KEYS)), b"value": b"modified"}
            elif isinstance(tgt, list):
                op = {b"op": b"add", b"path": loc + b"/-", b"value": b"modified"}
        if op is None:
            r = rng.random()
            if r < 0.25:
                loc = new_location(rng, cur.v)
                if loc is not None:
                    op = {b"op": b"add", b"path": loc, b"value": gen_value(rng, 2)}
                    if isinstance(op[b"value"], (list, dict)) and not loc.endswith(b"/-"):
                        followup = loc
            elif r < 0.4 and nonroot:
                op = {b"op": b"remove", b"path": ptr(rng.choice(nonroot))}
            elif r < 0.52:
                op = {b"op": b"replace", b"path": ptr(rng.choice(paths if rng.random() < 0.1 else (nonroot or paths))), b"value": gen_value(rng, 2)}
                if op[b"path"] == b"" and op[b"value"] is None:
                    op[b"value"] = [None]  # a NULL json_object* as whole document is "no document" for the API
            elif r < 0.7 and nonroot:
                f = rng.choice(nonroot)
                m = rng.random()
                if m < 0.15:
                    dst = ptr(f)  # from == path
                elif m < 0.3 and isinstance(f[-1], bytes):
                    dst = ptr(f[:-1]) + b"/" + esc(f[-1] + rng.choice([b"b", b"0", b"~", b"/"]))  # string-prefix-but-unrelated
                elif m < 0.5 and isinstance(f[-1], int):
                    n = len(node_at(cur.v, f[:-1]))
                    dst = ptr(f[:-1]) + b"/" + str(rng.randrange(n)).encode()  # within one array, either direction
                else:
                    dst = new_location(rng, cur.v, avoid_under=f)
                if dst is not None:
                    op = {b"op": b"move", b"from": ptr(f), b"path": dst}
            elif r < 0.85:
                f = rng.choice(paths)
                dst = new_location(rng, cur.v) if rng.random() < 0.7 or not isinstance(node_at(cur.v, f), dict) else ptr(f) + b"/" + esc(rng.choice(KEYS))  # copy into own child: legal
                if dst is not None:
                    op = {b"op": b"copy", b"from": ptr(f), b"path": dst}
                    if isinstance(node_at(cur.v, f), (list, dict)) and not dst.endswith(b"/-"):
                        followup = dst
            else:
                p = rng.choice(paths)
                v = copy.deepcopy(node_at(cur.v, p))
                op = {b"op": b"test", b"path": ptr(p), b"value": v}
        if op is None:
            continue
        if rng.random() < 0.1:
            op[b"extra"] = b"ignored member"
        ops.append(op)
        try:
            refpatch.apply_op(cur, copy.deepcopy(op))
        except refpatch.PatchError:
            break
        i += 1
    return ops


MALFORMED = [None, True, 5, b"patch", {}, {b"op": b"add"}, [None], [1], [b"x"], [[]], [{}], [{b"op": None, b"path": b"/a"}], [{b"op": 5, b"path": b"/a"}],
             [{b"op": b"add", b"path": None, b"value": 1}], [{b"op": b"add", b"path": 7, b"value": 1}], [{b"op": b"add", b"path": [b"/a"], b"value": 1}],
             [{b"op": b"move", b"from": None, b"path": b"/a"}], [{b"op": b"copy", b"from": None, b"path": b"/a"}], [{b"op": b"move", b"from": 3, b"path": b"/a"}],
             [{b"op": b"move", b"from": b"/a", b"path": None}], [{b"op": b"copy", b"from": b"/a", b"path": None}], [{b"op": b"remove", b"path": None}],
             [{b"op": b"test", b"path": None, b"value": 1}], [{b"op": b"replace", b"path": None, b"value": 1}], [{b"op": [b"add"], b"path": b"/a", b"value": 1}],
             [{b"op": {}, b"path": b"/a"}], [{b"path": b"/a"}], [{b"op": b"add", b"value": 1}], [{b"op": True, b"path": True}], [{b"op": b"move", b"from": {}, b"path": {}}],
             [{b"op": b"test", b"path": b"", b"value": None}, {b"op": None}], [{b"op": b"copy", b"from": 1.5, b"path": b"/q"}]]


def scramble_model(v, ctr):
    """what the driver's SCRAMBLE makes of a tree in which no node is shared"""
    if isinstance(v, list):
        return [scramble_model(x, ctr) for x in v]
    if isinstance(v, dict):
        return {k: scramble_model(x, ctr) for k, x in v.items()}
    if v is None:
        return None
    n = 1000 + ctr[0]
    ctr[0] += 1
    if isinstance(v, bool):
        return bool(n & 1)
    if isinstance(v, int):
        return n
    if isinstance(v, float):
        return 0.5 + n
    return b"scrambled-by-the-driver-%d------------------" % n


def mutate_patch(rng, patch):
    """well-formed patch with one field damaged"""
    patch = copy.deepcopy(patch)
    if not patch:
        return [None]
    i = rng.randrange(len(patch))
    op = patch[i]
    f = rng.choice([b"op", b"path", b"from", b"value"])
    m = rng.random()
    if m < 0.35:
        op.pop(f, None)
    elif m < 0.7:
        op[f] = rng.choice([None, 5, True, [b"/a"], {}, 1.5])
    elif m < 0.85:
        patch[i] = rng.choice([None, 3, b"str", [], [op]])
    else:
        op[f] = rng.choice([b"", b"a", b"/", b"//", b"/~", b"/-", b"/0/0/0/0", b"\xff"])
    return patch


def first_diverging_op(exe, doc, patch):
    """for a violating case: apply patch[:j] for j = 1..n and name the first operation after which json-c and the reference differ"""
    if not isinstance(patch, list):
        return "not-an-array"
    cases = []
    for j in range(1, len(patch) + 1):
        cases.append(("j%d" % j, ["P 0 64 1 x%s 0" % encode(doc).hex(), "P 0 64 1 x%s 1" % encode(patch[:j]).hex(), "PATCH 0 1 0", "D 0", "PUT 0", "PUT 1"]))
    try:
        res, cr = core.run_script(exe, cases, tag="c13b")
    except Exception:
        return "?"
    for j in range(1, len(patch) + 1):
        want, widx = refpatch.apply(doc, patch[:j])
        ln = res.get("j%d" % j)
        op = patch[j - 1]
        name = op.get(b"op").decode("latin1") if isinstance(op, dict) and isinstance(op.get(b"op"), bytes) else "malformed"
        if ln is None:
            return name + "/crash"
        rc = int(ln[2].split()[1])
        if widx == "skip":
            return name + "/not-asserted"
        if (rc == 0) != (widx is None) or (widx is None and ln[3][2:] != refjson.dump(want)):
            return name
    return "?"


def shard_fn(shard, nshards, seed, tier, exe, nconf, nrob):
    rng = random.Random("%d/%d/c13" % (seed, shard))
    global _SPELL
    _SPELL = random.Random("%d/%d/c13spell" % (seed, shard))
    sh = core.Shard()
    cases, meta = [], {}
    n = 0

    def add_case(doc, patch, kind, raw=None):
        nonlocal n
        cid = "%d.%d" % (shard, n)
        n += 1
        mode = rng.randrange(2)
        if kind != "listed" and raw is None and isinstance(patch, list) and patch and all(isinstance(o, dict) for o in patch) and rng.random() < 0.05:
            # the same document and operations, K containers further down: every path and from runs through K more reference tokens (a pointer is as long as the document is deep)
            K = rng.choice([30, 31, 32, 33, 34, 40, 64, 100, 150])
            arr = rng.random() < 0.5
            prefix = (b"/0" if arr else b"/w") * K
            for _ in range(K):
                doc = [doc] if arr else {b"w": doc}
            patch = [{k: (prefix + v if k in (b"path", b"from") and isinstance(v, bytes) else v) for k, v in o.items()} for o in patch]
            sh.count("documents.wrapped_in_30_to_150_more_levels")
        dt, pt = encode(doc), (raw if raw is not None else encode(patch))
        hist = []
        if kind != "listed" and rng.random() < 0.15:
            # the target document reaches its value through a grow-and-shrink history of one or two containers (table sizes, tombstones, array capacity
            # differ from a freshly parsed document; the value does not)
            conts = [q for q in all_paths(doc) if isinstance(node_at(doc, q), (dict, list))]
            for q in rng.sample(conts, min(len(conts), rng.choice([1, 2]))):
                c = node_at(doc, q)
                k = rng.choice([1, 5, 12, 13, 24, 50])
                hist.append("NAV 0 5 " + " ".join(("i%d" % x) if isinstance(x, int) else "k" + x.hex() for x in q))
                if isinstance(c, dict):
                    keys = [(b"\x03fill%d" % j).hex() for j in range(k)]
                    for j, kk in enumerate(keys):
                        hist += ["NEW 9 - int %d" % j, "OADD 5 x%s 9 0" % kk]
                    hist += ["ODEL 5 x%s" % kk for kk in keys]
                else:
                    for j in range(k):
                        hist += ["NEW 9 - int %d" % j, "AADD 5 9"]
                    hist.append("ADEL 5 %d %d" % (len(c), k))
            strs = [q for q in all_paths(doc) if isinstance(node_at(doc, q), bytes) and b"\0" not in node_at(doc, q)]
            for q in rng.sample(strs, min(len(strs), rng.choice([0, 1, 2]))):
                x = node_at(doc, q)
                hist += ["NAV 0 5 " + " ".join(("i%d" % y) if isinstance(y, int) else "k" + y.hex() for y in q), "SSTR 5 x" + (x + b"-longer-for-a-while-" * 3).hex(), "SSTR 5 x" + x.hex()]
            if hist:
                sh.count("documents.with_grow_shrink_history")
        cmds = ["P 0 400 1 x%s 0" % dt.hex()] + hist + ["P 0 400 1 x%s 1" % pt.hex(), "D 1"]
        # afterwards every scalar of the RESULT is changed in place: neither the patch nor (copy_from mode) the source document may notice
        noerr = " N" if rng.random() < 0.12 else ""   # (no json_patch_error handed in: the argument is optional)
        if noerr:
            sh.count("patches_applied_without_an_error_struct")
        if mode == 0:
            cmds += ["PATCH 0 1 0 -" + noerr, "D 0", "D 1", "SCRAMBLE 0", "D 1", "D 0", "PUT 0", "PUT 1"]
        else:
            cmds += ["PATCH 0 1 1 2" + noerr, "D 2", "D 1", "D 0", "SCRAMBLE 2", "D 1", "D 0", "D 2", "PUT 0", "PUT 1", "PUT 2"]
        cases.append((cid, cmds))
        meta[cid] = (doc, patch, mode, kind, len(hist))

    if shard == 0:
        for k in core.load_known():
            if k["property"] == PID and k.get("witness_patch"):
                w = k["witness_patch"]
                add_case(refjson.parse(w["doc"].encode()), refjson.parse(w["patch"].encode()), "listed")
    # patches given as raw text: duplicate members (the last one counts), escaped spellings of member names and op names
    RAW = [b'[{"op":"add","path":"/a","path":"/b","value":1}]', b'[{"op":"remove","op":"add","path":"/q","value":[1]}]', b'[{"\\u006fp":"\\u0061dd","p\\u0061th":"/z","value":null}]',
           b'[{"op":"add","path":"/a","value":1,"value":{"v":[2]}},{"op":"add","path":"/a/v/-","value":3}]', b'[{"op":"test","path":"","value":{},"value":{"a":1}}]',
           b'[{"op":"copy","from":"/a","from":"","path":"/c"}]', b'[{"op":"move","path":"/m","from":"/a"},{"op":"test","path":"/m","value":1}]', b'[ {"op":"add", "path":"/e\\u002ff", "value":"x"} ]',
           b'[{"op":"add","path":"/a~1b","value":1},{"op":"replace","path":"/a~1b","value":[]},{"op":"add","path":"/a~1b/0","value":{}}]']
    for raw in RAW:
        add_case({b"a": 1}, refjson.parse(raw), "raw-text", raw=raw)
    for _ in range(nconf // nshards):
        if set_key_pool(rng):
            sh.count("documents.with_long_member_names")
        doc = gen_value(rng)
        while not isinstance(doc, (list, dict)):
            doc = gen_value(rng)
        add_case(doc, gen_patch(rng, doc), "conformance")
    for i in range(nrob // nshards):
        set_key_pool(rng)
        doc = gen_value(rng)
        while not isinstance(doc, (list, dict)):
            doc = gen_value(rng)
        r = rng.random()
        if r < 0.3:
            patch = rng.choice(MALFORMED)
        elif r < 0.8:
            patch = mutate_patch(rng, gen_patch(rng, doc))
        else:
            patch = gen_value(rng)
        add_case(doc, patch, "robustness")
    results, crashes = core.run_script(exe, cases, tag="c13", env=core.ambient_env(sh, shard))
    cmdmap = dict(cases)
    for cr in crashes:
        kind, frame = cr.summary()
        doc, patch, mode, k, _nh = meta[cr.cid]
        bad = "?"
        if isinstance(patch, list):
            for op in patch:
                if isinstance(op, dict):
                    for f in (b"op", b"from", b"path"):
                        if f in op and not isinstance(op[f], bytes):
                            bad = "%s-is-%s" % (f.decode(), refpatch.kind(op[f]))
                            break
        sh.violation("C13/%s/%s/%s" % (kind, frame, bad), "crash applying patch %s to %s (%s)" % (encode(patch)[:200], encode(doc)[:100], kind),
                     {"driver": "jcdrv", "variant": "asan", "script": cmdmap[cr.cid], "stderr": cr.stderr[-2500:], "patch": encode(patch).decode("latin1"), "doc": encode(doc).decode("latin1")})
    for cid, lines in results.items():
        doc, patch, mode, kind, nh = meta[cid]
        lines = lines[:1] + lines[1 + nh:]
        cmds = cmdmap[cid]
        rep = {"driver": "jcdrv", "variant": "asan", "script": cmds, "doc": encode(doc).decode("latin1"), "patch": encode(patch).decode("latin1"), "mode": "in place" if mode == 0 else "copy_from"}
        if lines[0].split()[1] != "0" or lines[1].split()[1] != "0":
            raise core.Inconclusive("could not parse generated doc/patch: %r %r" % (encode(doc)[:100], encode(patch)[:100]))
        pdump_before = lines[2]
        f = lines[3].split()
        rc, ecode, idx = int(f[1]), int(f[2]), int(f[3])
        res_dump = lines[4][2:]
        pdump_after = lines[5]
        sh.evaluations += 1
        want, widx = refpatch.apply(doc, patch)
        key = None
        if widx == "skip":
            sh.count("not_asserted.root_removal")
            if lines[-1].split()[1] != "live=0":
                sh.violation("C13/leak", "blocks left: " + lines[-1], rep)
            continue
        ops = patch if isinstance(patch, list) else []

        def opname(i):
            try:
                return ops[i][b"op"].decode("latin1") if isinstance(ops[i][b"op"], bytes) else "?"
            except Exception:
                return "?"

        if want is not None or (widx is None):
            if rc != 0:
                key, what = "rejects-valid-patch/%s" % opname(idx if 0 <= idx < len(ops) else 0), "patch is valid per RFC 6902 but json_patch_apply failed at op %d (errno_code %d)" % (idx, ecode)
            elif res_dump != refjson.dump(want):
                # find the first op after which the documents diverge is not observable; classify by the op kinds present
                kinds = sorted({opname(i) for i in range(len(ops))})
                key, what = "wrong-result/%s" % "+".join(kinds), "result %s, RFC 6902 result %s" % (res_dump[:200], refjson.dump(want)[:200])
        else:
            if rc == 0:
                key, what = "accepts-invalid-patch/%s" % (opname(widx) if widx >= 0 else "not-an-array"), "RFC 6902 evaluation fails at op %d but json_patch_apply succeeded" % widx
            elif widx >= 0 and idx != widx and idx != -2:   # (-2: no error struct was handed in)
                key, what = "wrong-failure-index/%s" % opname(idx if 0 <= idx < len(ops) else 0), "failed at op %d, RFC 6902 evaluation fails first at op %d" % (idx, widx)
        if not key and pdump_after != pdump_before:
            key, what = "patch-document-modified", "the patch document changed: %s -> %s" % (pdump_before[:150], pdump_after[:150])
        if not key and mode == 1 and lines[6][2:] != refjson.dump(doc):
            key, what = "copy_from-modified", "the copy_from document was changed by the call"
        if not key and rc == 0:
            after = lines[7] if mode == 0 else lines[8]
            if after != pdump_before:
                key, what = "result-shares-nodes-with-patch", "changing the scalars of the patched document through the setters changed the patch document: %s -> %s" % (pdump_before[:150], after[:150])
            elif mode == 1 and lines[9][2:] != refjson.dump(doc):
                key, what = "result-shares-nodes-with-source", "changing the scalars of the result changed the copy_from document"
            elif want is not None:
                # every scalar of the result got its own running number: a node that sits at two places of the result (copied by reference) shows up as a repeated number
                got_scr = (lines[8] if mode == 0 else lines[10])[2:]
                exp_scr = refjson.dump(scramble_model(copy.deepcopy(want), [0]))
                if got_scr != exp_scr:
                    key, what = "result-shares-nodes-within-itself", "after giving every scalar of the result its own value the tree is %s, expected %s" % (got_scr[:160], exp_scr[:160])
            sh.count("results_scrambled_afterwards")
        if not key and lines[-1].split()[1] != "live=0":
            key, what = "leak", "blocks left after releasing document, patch and result: " + lines[-1]
        if key:
            if key.split("/")[0] in ("wrong-result", "rejects-valid-patch", "accepts-invalid-patch", "wrong-failure-index"):
                key = key.split("/")[0] + "/" + first_diverging_op(exe, doc, patch)
            sh.violation("C13/" + key, what + " :: doc=%s patch=%s" % (encode(doc)[:120], encode(patch)[:300]), rep)
        sh.count("%s.%s" % (kind, "ok" if widx is None else "fails"))
        for op in ops:
            if isinstance(op, dict) and isinstance(op.get(b"op"), bytes):
                sh.count("op." + op[b"op"].decode("latin1")[:10])
        sh.nontrivial(encode(doc) + b"|" + encode(patch))
        if len(sh.samples) < 2 and kind == "conformance" and len(encode(patch)) < 200:
            sh.samples.append({"doc": encode(doc).decode("latin1"), "patch": encode(patch).decode("latin1"), "reply": lines[3], "result": res_dump[:120]})
    return sh


def run(tier, seed):
    from oracle import selftest_more
    selftest_more.test_refpatch()
    bdir = build.build("asan")
    chk = core.Check(PID, tier, seed)
    nconf, nrob = (200000, 120000) if tier == "quick" else (3000000, 3000000)
    rd = core.record_dir(PID) if tier == "thorough" else None
    sh = core.parallel(shard_fn, seed=seed, tier=tier, exe=bdir + "/jcdrv", nconf=nconf, nrob=nrob)
    chk.absorb(sh)
    if rd:
        os.environ.pop("VF_RECORD_DIR", None)
        core.memcheck_recorded(chk, build.build("plain"), rd)
    if tier == "thorough":
        fdir = build.build("fuzz")
        chk.absorb(core.run_fuzz(fdir + "/fuzz_patch", PID, runs=500000, seed=seed, jobs=16, max_len=400, dict_path=os.path.join(core.VERIF, "harness", "patch.dict")))
        chk.extra["fuzz"] = "libFuzzer target fuzz_patch (document NUL patch), 16 jobs x 5*10^5 runs"
    chk.rule = ("(a) conformance: target documents with adversarial member names; patches of 1-8 operations generated against the evolving reference document (live paths; escaped names; array begin/middle/end/'-'; "
                "from a proper prefix of path; string-prefix-but-unrelated names; moves within one array both ways; copy/add followed by modification of the new location; one deliberately failing operation "
                "at a random index in 40%); in place and copy_from. rc, failure index, result dump, patch dump before/after, copy_from dump compared with an RFC 6902 evaluator. "
                "(b) robustness: arbitrary JSON values and damaged patches (missing/null/ill-typed op, path, from, value; non-arrays) under ASan with ledger. evaluations = patch applications; distinct = distinct (doc, patch)")
    chk.assumptions = ["the document state after a FAILED patch is not asserted", "test between numerically equal values of different kinds is not generated", "removal of the whole document is not generated"]
    return chk.finish(min_evaluations=10000)

"""C11 — strings are length-counted byte sequences preserved through any mutation history."""
import random

from vflib import core, build
from oracle import refjson

PID = "C11"
LENS = [0, 1, 7, 8, 9, 15, 16, 17, 31, 32, 33, 127, 128, 129, 4096, 65536]
INT_MAX = (1 << 31) - 1


def rbytes(rng, n):
    m = rng.random()
    if m < 0.3:
        return bytes(rng.getrandbits(8) for _ in range(n))
    if m < 0.6:
        return bytes(rng.choice(b"ab\x00\xff\"\\/\n\x01\xc3\xa9 ") for _ in range(n))
    if m < 0.8:
        b = bytearray(rng.randrange(0x20, 0x7F) for _ in range(n))
        if n:
            b[rng.randrange(n)] = 0
        return bytes(b)
    return bytes(rng.randrange(0x20, 0x7F) for _ in range(n))


def pick_len(rng, cur):
    r = rng.random()
    if r < 0.6:
        n = rng.choice(LENS[:14] if rng.random() < 0.93 else LENS)
    elif r < 0.85:
        n = max(0, cur + rng.choice([-1, 0, 1]))
    else:
        n = rng.randrange(0, 70)
    return n


def mc_history(rng):
    """a plain set/get history (no probes) for the memcheck pass"""
    cmds = ["NEW 0 - str x" + rbytes(rng, pick_len(rng, 0)).hex()]
    cur = 0
    for _ in range(40):
        nb = rbytes(rng, pick_len(rng, cur))
        cur = len(nb)
        cmds += ["SSTR 0 x" + nb.hex(), "GSTR 0"]
        if rng.random() < 0.2:
            cmds += ["DCOPY 0 1 0", "EQ 0 1", "GSTR 1", "S 1 0", "PUT 1"]
    cmds.append("PUT 0")
    return cmds


def jc_escape(b):
    """json-c's PLAIN serialization of a string node holding the bytes b (what json_object_to_json_string_ext(node, 0) returns)"""
    esc = {8: b"\\b", 10: b"\\n", 13: b"\\r", 9: b"\\t", 12: b"\\f", 0x22: b'\\"', 0x5C: b"\\\\", 0x2F: b"\\/"}
    out = bytearray(b'"')
    for c in b:
        if c in esc:
            out += esc[c]
        elif c < 0x20:
            out += b"\\u00%02x" % c
        else:
            out.append(c)
    out += b'"'
    return bytes(out)


def shard_fn(shard, nshards, seed, tier, exe, nhist):
    rng = random.Random("%d/%d/c11" % (seed, shard))
    sh = core.Shard()
    cases, meta = [], {}
    for i in range(nhist // nshards):
        cmds, plan = [], []
        b = rbytes(rng, pick_len(rng, 0))
        if rng.random() < 0.3 and b"\0" not in b:
            cmds.append("NEW 0 - strz x" + b.hex())
        else:
            cmds.append("NEW 0 - str x" + b.hex())
        plan.append(("new", b))
        model = b
        for _ in range(rng.choice([10, 40, 40])):
            r = rng.random()
            if r < 0.55:
                nb = rbytes(rng, pick_len(rng, len(model)))
                fail = rng.random() < 0.2
                if fail:
                    cmds.append("FAILNEXT 1")
                cmds.append("SSTR 0 x" + nb.hex())
                if fail:
                    cmds.append("FAILNEXT 0")
                plan.append(("set", nb, fail))
            elif r < 0.68:
                nb = rbytes(rng, pick_len(rng, len(model)))
                cmds.append("SSTRZ 0 x" + nb.hex())
                plan.append(("setz", nb.split(b"\0")[0]))
            elif r < 0.70:
                # the node's own bytes handed back to it with a shorter (or the same) length: truncation in place
                cmds.append("SSELF 0 %s" % rng.choice(["0", "1", "half", "len-1", "len", "tail", "tail", "mid"]))   # tail / mid: a later part of the own bytes that does not overlap the destination
                plan.append(("self",))
            elif r < 0.715 and len(model) < 3000:
                # the node's own serialization -- text that lives in a buffer the node itself owns -- becomes its new contents
                cmds.append("SSER 0")
                plan.append(("sser",))
            elif r < 0.76:
                bad = rng.choice([-1, -2, -2147483648, INT_MAX, INT_MAX - 1])
                cmds.append("SSTR 0 x%s %d" % (b"zz".hex(), bad))
                plan.append(("refuse", bad))
            elif r < 0.84:
                cmds.append("NEW 1 - str x" + model.hex() if False else "EQPROBE")
                plan.append(("eq",))
            elif r < 0.92:
                cmds.append("COPYPROBE")
                plan.append(("copy",))
            else:
                cmds.append("SERPROBE")
                plan.append(("ser",))
            cmds.append("GSTR 0")
        cmds.append("PUT 0")
        cid = "%d.%d" % (shard, i)
        cases.append((cid, cmds))
        meta[cid] = plan
    # big strings (64 KiB .. 3 MB, pattern-generated in the driver): sets in every size order, a third of them with the allocation failing
    bigmeta = {}
    for i in range(max(4, nhist // nshards // 80)):
        sizes = [1, 100, 4096, 65535, 65536, 131071, 131072, 131073, 200000, 262144, 1048576, 3000000]
        cmds, plan = ["NEW 0 - str x6162"], []
        for _ in range(rng.choice([3, 4, 6])):
            n, sd, fail = rng.choice(sizes) + rng.choice([0, 0, 1, -1, 17]), rng.getrandbits(16), rng.random() < 0.35
            cmds += (["FAILNEXT 1"] if fail else []) + ["SSTRP 0 %d %d" % (n, sd)] + (["FAILNEXT 0"] if fail else []) + ["GSTRC 0"]
            plan.append((n, sd, fail))
        if rng.random() < 0.5:
            cmds += ["DCOPY 0 1 0", "EQ 0 1", "GSTRC 1", "PUT 1"]
        cmds.append("PUT 0")
        cid = "%d.big%d" % (shard, i)
        bigmeta[cid] = plan
        cases.append((cid, cmds))
    # the probes need the model bytes, which depend on whether injected faults fired; since only *growing* sets allocate, the
    # model is predictable: a set needs an allocation iff its length exceeds the current one.  Resolve the probes now.
    resolved = []
    for cid, cmds in cases:
        if cid in bigmeta:
            resolved.append((cid, cmds))
            continue
        plan = meta[cid]
        out, model, pi = [], b"", 0
        for c in cmds:
            if c.startswith("NEW 0"):
                model = plan[0][1]
                pi = 1
                out.append(c)
            elif c.startswith("SSTR 0") and len(c.split()) == 3:
                st = plan[pi]
                pi += 1
                nb = st[1]
                if not (st[2] and len(nb) > len(model)):
                    model = nb
                out.append(c)
            elif c.startswith("SSTRZ"):
                model = plan[pi][1]
                pi += 1
                out.append(c)
            elif c == "SSER 0":
                pi += 1
                model = jc_escape(model)
                out.append(c)
            elif c.startswith("SSELF"):
                pi += 1
                w = c.split()[2]
                L = len(model)
                if w in ("tail", "mid"):
                    n = L // 2 if w == "tail" else L // 3
                    off = L - n if w == "tail" else n      # source [off, off+n) starts at or behind the end of the destination [0, n)
                    model = model[off:off + n]
                    out.append("SSELF 0 %d %d" % (n, off))
                else:
                    n = {"0": 0, "1": min(1, L), "half": L // 2, "len-1": max(0, L - 1), "len": L}[w]
                    model = model[:n]
                    out.append("SSELF 0 %d" % n)
            elif c.startswith("SSTR 0"):
                pi += 1
                out.append(c)
            elif c == "EQPROBE":
                pi += 1
                differ = bytearray(model)
                if differ:
                    differ[-1] ^= 1
                out += ["NEW 1 - str x" + model.hex(), "EQ 0 1", "EQ 1 0", "PUT 1", "NEW 1 - str x" + bytes(differ).hex() + ("" if differ else "00"), "EQ 0 1", "PUT 1",
                        "NEW 1 - str x" + model.hex() + "00", "EQ 0 1", "PUT 1"]
            elif c == "COPYPROBE":
                pi += 1
                out += ["DCOPY 0 1 0", "GSTR 1", "EQ 0 1", "PUT 1"]
            elif c == "SERPROBE":
                pi += 1
                out += ["S 0 0"]
            else:
                out.append(c)
        resolved.append((cid, out))
    cases = resolved
    results, crashes = core.run_script(exe, cases, tag="c11", env=core.ambient_env(sh, shard))
    cmdmap = dict(cases)
    for cr in crashes:
        kind, frame = cr.summary()
        i = min(len(cr.partial), len(cmdmap[cr.cid]) - 1)
        sh.violation("C11/%s/%s" % (kind, frame), "memory error in a string operation (%s) at command #%d %s" % (kind, i, cmdmap[cr.cid][i][:80]),
                     {"driver": "jcdrv", "variant": "asan", "script": cmdmap[cr.cid], "stderr": cr.stderr[-2500:]})
    for cid, lines in results.items():
        cmds = cmdmap[cid]
        rep = {"driver": "jcdrv", "variant": "asan", "script": cmds}
        if cid in bigmeta:
            cur, li, key = (2, None), 1, None   # (length, seed); the initial "ab"
            import zlib

            def crc_of(c):
                return zlib.crc32(b"ab") if c[1] is None else zlib.crc32(bytes((c[1] + j * 7) & 0xFF for j in range(c[0])))
            for (n, sd, fail) in bigmeta[cid]:
                if fail:
                    li += 1
                ret = int(lines[li].split()[1])
                li += 1
                fired = 0
                if fail:
                    fired = int(lines[li].split("=")[2])
                    li += 1
                g = lines[li].split()
                li += 1
                sh.evaluations += 2
                if ret == 1:
                    cur = (n, sd)
                elif not fired:
                    key, what = "set-failed", "set_string_len(%d pattern bytes) returned %d although nothing failed" % (n, ret)
                    break
                else:
                    sh.count("big.set_failed_by_injected_fault" + (".while_holding_128KiB_or_more" if cur[0] >= 131072 else ""))
                if int(g[1]) != cur[0] or int(g[2]) != crc_of(cur) or g[3] != "term=0":
                    key, what = "contents", "after %s set of %d bytes: length %s crc %s %s, model length %d crc %d" % ("a failed" if ret != 1 else "a", n, g[1], g[2], g[3], cur[0], crc_of(cur))
                    break
                sh.count("big.sets")
            if not key and "DCOPY 0 1 0" in cmds:
                eq, g = int(lines[li + 1].split()[1]), lines[li + 2].split()
                if eq != 1 or int(g[1]) != cur[0] or int(g[2]) != crc_of(cur):
                    key, what = "copy-contents", "deep copy of a %d-byte string: equal=%d length %s" % (cur[0], eq, g[1])
            if not key and lines[-1].split()[1] != "live=0":
                key, what = "leak", "blocks left after the string node was destroyed: " + lines[-1]
            if key:
                sh.violation("C11/" + key, what, rep)
            sh.nontrivial("\n".join(cmds))
            continue
        model = None
        key = None
        armed = False
        pending_fail = None
        i = 0
        while i < len(cmds) and not key:
            c, ln = cmds[i], lines[i]
            f = c.split()
            sh.evaluations += 1
            if f[0] == "NEW" and f[1] == "0":
                model = bytes.fromhex(f[4][1:]) if len(f) > 4 else b""
            elif f[0] == "FAILNEXT":
                if f[1] == "1":
                    armed = True
                else:
                    fired = int(ln.split("=")[2])
                    armed = False
                    if pending_fail is not None:
                        nb, ret, old = pending_fail
                        pending_fail = None
                        if fired:
                            sh.count("set.allocation_failed")
                            if ret != 0:
                                key, what = "failed-set-returned-success", "allocation failed during set_string_len but it returned %d" % ret
                            model = old
                        else:
                            if ret != 1:
                                key, what = "set-failed-without-fault", "set_string_len(%d bytes) returned %d although nothing failed" % (len(nb), ret)
                            model = nb
            elif f[0] == "SSTR" and len(f) == 3:
                nb = bytes.fromhex(f[2][1:])
                ret = int(ln.split()[1])
                kind = "grow" if len(nb) > len(model) else "shrink" if len(nb) < len(model) else "same"
                sh.count("set." + kind + (".to_zero" if not nb else "") + (".across_8" if (len(nb) < 8) != (len(model) < 8) else ""))
                if armed:
                    pending_fail = (nb, ret, model)
                else:
                    if ret != 1:
                        key, what = "set-failed", "set_string_len(%d bytes) returned %d" % (len(nb), ret)
                    model = nb
            elif f[0] == "SSER":
                if int(ln.split()[1]) != 1:
                    key, what = "set-failed", "set_string(own serialization) returned %s" % ln.split()[1]
                model = jc_escape(model)
                sh.count("set.own_serialization_as_source")
            elif f[0] == "SSELF":
                n = int(f[2])
                off = int(f[3]) if len(f) > 3 else 0
                if int(ln.split()[1]) != 1:
                    key, what = "set-failed", "set_string_len(own bytes + %d, %d) returned %s" % (off, n, ln.split()[1])
                model = model[off:off + n]
                sh.count("set.own_bytes_truncated_in_place")
            elif f[0] == "SSTRZ":
                nb = bytes.fromhex(f[2][1:]).split(b"\0")[0]
                if int(ln.split()[1]) != 1:
                    key, what = "set-failed", "set_string returned %s" % ln.split()[1]
                model = nb
                sh.count("set.strlen_semantics")
            elif f[0] == "SSTR":
                if int(ln.split()[1]) != 0:
                    key, what = "bad-length-accepted", "set_string_len with length %s returned %s" % (f[3], ln.split()[1])
                sh.count("set.refused_length")
            elif f[0] == "GSTR":
                g = ln.split()
                which = f[1]
                n, data, term = int(g[1]), bytes.fromhex(g[2][1:]), int(g[3].split("=")[1])
                if pending_fail is None:
                    if n != len(model):
                        key, what = "length", "get_string_len %d, model %d" % (n, len(model))
                    elif data != model:
                        key, what = "contents", "bytes %s..., model %s..." % (data[:24].hex(), model[:24].hex())
                    elif term != 0:
                        key, what = "terminator", "byte after the contents is %d" % term
                    if key and which == "1":
                        key = "copy-" + key
            elif f[0] == "EQ":
                # three probes: equal copy (both directions), last byte flipped, one NUL longer
                pass
            elif f[0] == "S":
                g = ln.split()
                if g[1] == "null":
                    key, what = "serialize-null", "serializer returned NULL"
                else:
                    txt = bytes.fromhex(g[3][1:])
                    try:
                        v = refjson.parse(txt)
                    except refjson.JSONError as e:
                        v = e
                    if v != model:
                        key, what = "serialization", "serialized text %r does not denote the %d model bytes" % (txt[:60], len(model))
                sh.count("probe.serialize")
            i += 1
        # equality probes: evaluate by pattern
        if not key:
            for j, c in enumerate(cmds):
                if c == "EQ 0 1" and cmds[j - 1].startswith("NEW 1 - str"):
                    other = bytes.fromhex(cmds[j - 1].split()[4][1:])
                    # reconstruct what string 0 was at that time is complex; use the invariant instead: equal iff bytes equal the probe.
                    # probe kinds are recognisable: the first probe is followed by "EQ 1 0"
                    got = int(lines[j].split()[1])
                    if cmds[j + 1] == "EQ 1 0":
                        if got != 1 or int(lines[j + 1].split()[1]) != 1:
                            key, what = "equality", "a string node is not equal to a fresh node with the same %d bytes" % len(other)
                        sh.count("probe.equal_same_bytes")
                    elif got != 0:
                        key, what = "equality", "a string node compares equal to a node whose bytes differ (%d bytes vs probe)" % len(other)
                    else:
                        sh.count("probe.equal_differs")
                elif c == "EQ 0 1" and cmds[j - 1] == "GSTR 1":
                    if int(lines[j].split()[1]) != 1:
                        key, what = "copy-not-equal", "deep copy of a string node is not equal to it"
                    sh.count("probe.deep_copy")
        if not key and lines[-1].split()[1] != "live=0":
            key, what = "leak", "blocks left after the string node was destroyed: " + lines[-1]
        if key:
            sh.violation("C11/" + key, what, rep)
        sh.nontrivial("\n".join(cmds))
        if len(sh.samples) < 1:
            sh.samples.append({"history": [c[:70] for c in cmds[:12]], "replies": [l[:70] for l in lines[:12]]})
    return sh


def run(tier, seed):
    bdir = build.build("asan")
    chk = core.Check(PID, tier, seed)
    sh = core.parallel(shard_fn, seed=seed, tier=tier, exe=bdir + "/jcdrv", nhist=40000 if tier == "quick" else 500000)
    chk.absorb(sh)
    if tier == "thorough":
        import random as _r
        pdir = build.build("plain")
        rng = _r.Random("%d/mc" % seed)
        cases = []
        for i in range(400):
            cases.append(("mc%d" % i, mc_history(rng)))
        chk.absorb(core.run_memcheck(pdir + "/jcdrv", cases, PID))
        chk.extra["memcheck"] = "valgrind memcheck over 400 histories on the uninstrumented build"
    chk.rule = ("histories of new_string / new_string_len / set_string (strlen semantics) / set_string_len over byte strings of all 256 values with lengths from {0,1,7,8,9,15,16,17,31,32,33,127,128,129,4096,65536} "
                "and current+-1 (crossing the inline threshold and the 'fits in the separate buffer' boundary both ways), every 5th set with its allocation failed by the shim, refused lengths "
                "(negative, INT_MAX-1, INT_MAX with a 2-byte source); after every step bytes, length and terminator are compared with a byte-string model; equality, deep copy and serialization probes. "
                "evaluations = commands; distinct = distinct histories")
    chk.assumptions = ["source buffers are exact-size heap blocks, so any read past the given length is an ASan report"]
    return chk.finish(min_evaluations=50000)

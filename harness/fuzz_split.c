/* libFuzzer target for C03 (thorough tier): coverage feedback steers inputs towards token boundaries the grammar-based
 * generator did not think of; every mutated input is checked against every 2-split under all 8 flag sets, plus the
 * all-1-byte partition.  A mismatch prints a witness and aborts (the artifact is then re-run through splitdrv). */
#define main splitdrv_main
#include "splitdrv.c"
#undef main

int LLVMFuzzerTestOneInput(const uint8_t *data, size_t n)
{
	int f; struct stats st; struct res *os; size_t i; long live0 = vf_live_blocks;
	if (n > 96) return 0;
	memset(&st, 0, sizeof st);
	n_tri_viol = 0;
	os = (struct res *)malloc(sizeof(*os) * (n + 1));
	for (f = 0; f < 8; f++) {
		int flags = FLAGSETS[f]; size_t cuts[2];
		for (i = 0; i <= n; i++) oneshot(data, i, flags, 0, &os[i]);
		for (i = 0; i <= n; i++) { cuts[0] = i; cuts[1] = n; check_partition(data, n, flags, os, cuts, 2, &st); }
		if (n) { size_t *c1 = (size_t *)malloc(sizeof(size_t) * n); for (i = 0; i < n; i++) c1[i] = i + 1; check_partition(data, n, flags, os, c1, (int)n, &st); free(c1); }
	}
	free(os);
	if (st.mism || n_tri_viol || vf_live_blocks != live0) {
		fprintf(stderr, "VF-FUZZ-VIOLATION split mism=%lu tri=%ld live=%ld %s\n", st.mism, n_tri_viol, vf_live_blocks - live0, out.b ? out.b : "");
		abort();
	}
	ob_reset(&out);
	return 0;
}

/* jcdrv — generic script interpreter: one command per input line, one result line per command.
 * Histories are recorded at the client boundary: the result line carries what the public API returned
 * (return codes, errno, typed dumps, raw bytes in hex, destruction events, ledger counters).
 *
 * Framing:   CASE <id>   -> "C <id>" (flushed before anything of the case runs, so a crash names its case)
 *            END         -> releases every handle/tokener/printbuf, prints "E live=<blocks> bad=<n> loc=<n>"
 * Every other command prints "= ..." or "! <message>" (malformed command: harness error).
 */
#include "vf_common.h"
#include <sys/wait.h>
#include <sys/stat.h>
#include <time.h>
#include "vf_shim.h"
#include "json_object_iterator.h"
#include <locale.h>
#include <signal.h>
#include <sys/mman.h>
#include <fcntl.h>
#include <pthread.h>

#define NH 1024
static struct json_object *H[NH];
static int Hset[NH];
static struct obuf out;
static char **tokv; static int tokcap;

static long base_live;
static unsigned long base_serial;

/* ---- destruction log: userdata delete callbacks ---- */
#define DLOG_MAX 4096
static long dlog[DLOG_MAX]; static int dlog_n;
/* the callback is handed the node that is going away: it may still look at it (type, string bytes, children and their types) */
static volatile unsigned long del_touch;
static void del_cb(struct json_object *j, void *ud)
{
	if (dlog_n < DLOG_MAX) dlog[dlog_n++] = (long)(intptr_t)ud;
	if (!j) return;
	switch (json_object_get_type(j)) {
	case json_type_string: { int n = json_object_get_string_len(j); const char *s = json_object_get_string(j); del_touch += (unsigned char)s[0] + (unsigned char)s[n > 0 ? n - 1 : 0] + (unsigned char)s[n]; break; }
	case json_type_array: { size_t i, n = json_object_array_length(j); for (i = 0; i < n && i < 4; i++) del_touch += (unsigned long)json_object_get_type(json_object_array_get_idx(j, i)); break; }
	case json_type_object: { int k = 0; json_object_object_foreach(j, key, v) { del_touch += (unsigned char)key[0] + (unsigned long)json_object_get_type(v); if (++k >= 4) break; } break; }
	default: del_touch += (unsigned long)json_object_get_int64(j); break;
	}
}
static void emit_dlog(void)
{
	int i;
	ob_puts(&out, " del=");
	if (!dlog_n) ob_putc(&out, '-');
	for (i = 0; i < dlog_n; i++) ob_printf(&out, "%s%ld", i ? "," : "", dlog[i]);
	dlog_n = 0;
}

static void flush_out(void)
{
	if (out.n) { fwrite(out.b, 1, out.n, stdout); ob_reset(&out); }
	fflush(stdout);
}

static long L(const char *t) { return strtol(t, NULL, 0); }
static unsigned long long UL(const char *t) { return strtoull(t, NULL, 0); }
static long long LL(const char *t) { return strtoll(t, NULL, 0); }

static int hidx(const char *t)
{
	long h = L(t);
	if (h < 0 || h >= NH) { fprintf(stderr, "bad handle %s\n", t); exit(3); }
	return (int)h;
}

static void release_all(void)
{
	int i;
	for (i = 0; i < NH; i++) { if (Hset[i] && H[i]) { /* references may be shared; the script's END protocol releases explicitly */ } Hset[i] = 0; H[i] = NULL; }
}

/* ---------------- parse ---------------- */
#define NT 16
static struct json_tokener *T[NT];

/* place bytes so that the byte after the last one is inaccessible: exact-size heap block (ASan) */
static char *exact_copy(const unsigned char *b, size_t n)
{
	char *p = (char *)malloc(n ? n : 1);
	memcpy(p, b, n);
	return p;
}

static void emit_parse_result(struct json_tokener *tok, struct json_object *o)
{
	enum json_tokener_error e = json_tokener_get_error(tok);
	ob_printf(&out, "= %d %zu %d ", (int)e, json_tokener_get_parse_end(tok), o != NULL);
	if (o || e == json_tokener_success) dump_node(&out, o, 0); else ob_putc(&out, '-');
}

/* P <flags> <depth> <mode> <hex> [keep-handle]
 * mode 0: len = n, exact-size block, no terminator
 * mode 1: len = n+1, the text followed by its terminating NUL (complete-text interface)
 * mode 2: len = -1, NUL-terminated
 */
static void cmd_parse(int nt, char **t)
{
	size_t n; unsigned char *b; char *buf; struct json_tokener *tok; struct json_object *o;
	int flags = (int)L(t[1]), depth = (int)L(t[2]), mode = (int)L(t[3]);
	if (nt < 5) { ob_puts(&out, "! P args"); return; }
	b = unhex(t[4], &n);
	tok = depth > 0 ? json_tokener_new_ex(depth) : json_tokener_new();
	if (!tok) { ob_puts(&out, "= notok"); free(b); return; }
	json_tokener_set_flags(tok, flags);
	if (mode == 0) { buf = exact_copy(b, n); o = json_tokener_parse_ex(tok, buf, (int)n); }
	else if (mode == 1) { buf = exact_copy(b, n + 1); o = json_tokener_parse_ex(tok, buf, (int)n + 1); }
	else { buf = exact_copy(b, n + 1); o = json_tokener_parse_ex(tok, buf, -1); }
	emit_parse_result(tok, o);
	if (nt > 5) { int h = hidx(t[5]); H[h] = o; Hset[h] = 1; }
	else json_object_put(o);
	json_tokener_free(tok);
	free(buf); free(b);
}

/* PM <flags> <depth> <reset 0 only-after-errors | 1 always | 2 never-explicitly; +4: every result is changed in place (SCRAMBLE) before it is released> <hex>...   several documents through ONE tokener (len = n+1 each);
 *   -> = <err> <end> <nonnull> <dump> || <err> ...        PV <hex>: json_tokener_parse_verbose -> = <err> <nonnull> <dump> */
static long scramble_rec(struct json_object *o);
static void cmd_parse_many(int nt, char **t)
{
	int flags = (int)L(t[1]), depth = (int)L(t[2]), rm = (int)L(t[3]), i;
	struct json_tokener *tok = depth > 0 ? json_tokener_new_ex(depth) : json_tokener_new();
	if (!tok) { ob_puts(&out, "= notok"); return; }
	json_tokener_set_flags(tok, flags);
	for (i = 4; i < nt; i++) {
		size_t n; unsigned char *b = unhex(t[i], &n); char *buf = exact_copy(b, n + 1); struct json_object *o; enum json_tokener_error e;
		o = json_tokener_parse_ex(tok, buf, (int)n + 1);
		e = json_tokener_get_error(tok);
		if (i > 4) ob_puts(&out, " || ");
		ob_printf(&out, "%s%d %zu %d ", i == 4 ? "= " : "", (int)e, json_tokener_get_parse_end(tok), o != NULL);
		if (o || e == json_tokener_success) dump_node(&out, o, 0); else ob_putc(&out, '-');
		if (rm & 4) scramble_rec(o);   /* the caller changes every scalar of what it got, in place, before letting go of it: the parser must not have kept (or shared) any of it */
		json_object_put(o);
		if ((rm & 3) == 1 || ((rm & 3) == 0 && e != json_tokener_success)) json_tokener_reset(tok);
		free(buf); free(b);
	}
	json_tokener_free(tok);
}
static void cmd_parse_verbose(int nt, char **t)
{
	size_t n; unsigned char *b = unhex(t[1], &n); char *buf = exact_copy(b, n + 1); enum json_tokener_error e = (enum json_tokener_error)-1; struct json_object *o;
	(void)nt;
	o = json_tokener_parse_verbose(buf, &e);
	ob_printf(&out, "= %d %d ", (int)e, o != NULL);
	if (o) dump_node(&out, o, 0); else ob_putc(&out, '-');
	json_object_put(o); free(buf); free(b);
}

/* PD <flags> <depth> <chunk> <hex>   parse under a depth limit on a small-stack thread, reporting resource peaks.
 *   chunk 0: one call with len = n+1 (text + NUL); chunk k>0: calls of k bytes, then a final 1-byte call with the NUL
 *   -> = <err> <global end> <nonnull> peak=<blocks> stack=<bytes> calls=<n> <dump>
 */
struct pd_job { struct json_tokener *tok; const unsigned char *b; size_t n; int chunk; struct json_object *o; size_t gend; int calls; char *stack_hi; };
static void *pd_thread(void *arg)
{
	struct pd_job *j = (struct pd_job *)arg; char here; size_t off = 0;
	j->stack_hi = &here;
	if (j->chunk <= 0) {
		char *buf = exact_copy(j->b, j->n + 1);
		j->o = json_tokener_parse_ex(j->tok, buf, (int)j->n + 1); j->calls = 1;
		j->gend = json_tokener_get_parse_end(j->tok);
		free(buf);
		return NULL;
	}
	for (;;) {
		size_t len = (size_t)j->chunk; char *buf;
		if (off >= j->n + 1) break;
		if (len > j->n + 1 - off) len = j->n + 1 - off;
		buf = exact_copy(j->b + off, len);
		j->o = json_tokener_parse_ex(j->tok, buf, (int)len); j->calls++;
		j->gend = off + json_tokener_get_parse_end(j->tok);
		free(buf);
		if (json_tokener_get_error(j->tok) != json_tokener_continue) break;
		off += len;
	}
	return NULL;
}
static void cmd_parse_depth(int nt, char **t)
{
	size_t n; unsigned char *b; struct pd_job j; pthread_t th; pthread_attr_t at; int flags, depth; enum json_tokener_error e;
	if (nt < 5) { ob_puts(&out, "! PD args"); return; }
	flags = (int)L(t[1]); depth = (int)L(t[2]);
	b = unhex(t[4], &n);
	memset(&j, 0, sizeof j);
	j.tok = json_tokener_new_ex(depth);
	if (!j.tok) { ob_puts(&out, "= notok"); free(b); return; }
	json_tokener_set_flags(j.tok, flags);
	j.b = b; j.n = n; j.chunk = (int)L(t[3]);
	vf_reset_peaks();
	pthread_attr_init(&at); pthread_attr_setstacksize(&at, 256 * 1024);
	if (pthread_create(&th, &at, pd_thread, &j) != 0) { ob_puts(&out, "! pthread"); free(b); return; }
	pthread_join(th, NULL);
	e = json_tokener_get_error(j.tok);
	ob_printf(&out, "= %d %zu %d peak=%ld stack=%ld calls=%d ", (int)e, j.gend, j.o != NULL, vf_peak_blocks - base_live,
	          vf_stack_low ? (long)(j.stack_hi - vf_stack_low) : -1L, j.calls);
	if (j.o || e == json_tokener_success) {
		/* dump only a hash-sized prefix of very large results */
		struct obuf tmp = {0}; dump_node(&tmp, j.o, 0);
		if (tmp.n > 4000) { ob_printf(&out, "big:%zu", tmp.n); } else ob_puts(&out, tmp.b ? tmp.b : "n");
		free(tmp.b);
	} else ob_putc(&out, '-');
	json_object_put(j.o);
	json_tokener_free(j.tok);
	free(b);
}

/* TN <depth> -> = null | ok */
static void cmd_toknew(int nt, char **t)
{
	struct json_tokener *tok = json_tokener_new_ex((int)L(t[1]));
	(void)nt;
	ob_puts(&out, tok ? "= ok" : "= null");
	json_tokener_free(tok);
}

/* ---------------- build / dump / serialize ---------------- */
static void cmd_build(int nt, char **t)
{
	int h = hidx(t[1]), pos = 2; struct json_object *o = NULL;
	if (build_node(t, nt, &pos, &o) < 0 || pos != nt) { ob_puts(&out, "! build"); return; }
	H[h] = o; Hset[h] = 1;
	ob_puts(&out, "= ok");
}

static void cmd_dump(int nt, char **t)
{
	int h = hidx(t[1]); int wp = nt > 2 ? (int)L(t[2]) : 0;
	ob_puts(&out, "= ");
	dump_node(&out, H[h], wp);
}

/* S <h> <flags>  ->  = <len> <strlen> <hex text>   (or "= null" when the serializer returns NULL) */
static void cmd_ser(int nt, char **t)
{
	int h = hidx(t[1]); int flags = (int)L(t[2]); size_t len = 12345; const char *s;
	(void)nt;
	s = json_object_to_json_string_length(H[h], flags, &len);
	if (!s) { ob_printf(&out, "= null %zu", len); return; }
	ob_printf(&out, "= %zu %zu x", len, strlen(s));
	ob_hex(&out, s, len);
}

/* S64 <h>  serialize under all 64 flag combinations; for each: reported length vs strlen, NUL-freeness,
 * json-c re-parse + json_object_equal, re-serialization idempotence.
 *   -> = T0:<hex> T1:<hex> ... | <flags>=<textindex>,<lenok><eq><idem> ...      (distinct texts are listed once) */
static void cmd_ser64(int nt, char **t)
{
	int h = hidx(t[1]); int f, ntexts = 0, i;
	char *texts[64]; size_t tl[64]; int idx[64], bits[64];
	(void)nt;
	for (f = 0; f < 64; f++) {
		size_t len = 0; const char *s = json_object_to_json_string_length(H[h], f, &len);
		int lenok, eq = 0, idem = 0;
		if (!s) { idx[f] = -1; bits[f] = 0; continue; }
		lenok = (strlen(s) == len);
		for (i = 0; i < ntexts; i++) if (tl[i] == len && !memcmp(texts[i], s, len)) break;
		if (i == ntexts) { texts[ntexts] = (char *)malloc(len + 1); memcpy(texts[ntexts], s, len + 1); tl[ntexts] = len; ntexts++; }
		idx[f] = i;
		/* the other entry points must give the same bytes: _ext for every flag set, the plain json_object_to_json_string for SPACED (the "length" bit covers all three) */
		{ const char *e = json_object_to_json_string_ext(H[h], f); if (!e || strlen(e) != tl[i] || memcmp(e, texts[i], tl[i])) lenok = 0; }
		if (f == JSON_C_TO_STRING_SPACED) { const char *e = json_object_to_json_string(H[h]); if (!e || strlen(e) != tl[i] || memcmp(e, texts[i], tl[i])) lenok = 0; }
		if (!(f & JSON_C_TO_STRING_COLOR)) {
			struct json_tokener *tok = json_tokener_new_ex(2000);   /* (deep enough for every tree the checks build) */
			struct json_object *o = json_tokener_parse_ex(tok, texts[i], (int)len + 1);
			if (json_tokener_get_error(tok) == json_tokener_success) {
				size_t l2 = 0; const char *s2;
				eq = json_object_equal(H[h], o) && json_object_equal(o, H[h]);
				s2 = json_object_to_json_string_length(o, f, &l2);
				idem = s2 && l2 == len && !memcmp(s2, texts[i], len);
			}
			json_object_put(o);
			json_tokener_free(tok);
		} else { eq = 1; idem = 1; }
		bits[f] = lenok * 4 + eq * 2 + idem;
	}
	ob_puts(&out, "=");
	for (i = 0; i < ntexts; i++) { ob_printf(&out, " T%d:", i); ob_hex(&out, texts[i], tl[i]); free(texts[i]); }
	ob_puts(&out, " |");
	for (f = 0; f < 64; f++) ob_printf(&out, " %d=%d,%d", f, idx[f], bits[f]);
}

/* NUM <h> -> = i32=<v>,<errno> i64=<v>,<errno> u64=<v>,<errno> dbl=<bits>,<errno> bool=<v> type=<t> */
static void cmd_num(int nt, char **t)
{
	int h = hidx(t[1]); struct json_object *o = H[h]; int32_t a; int64_t b; uint64_t c; double d; uint64_t bits; int e1, e2, e3, e4, bo;
	(void)nt;
	errno = 0; a = json_object_get_int(o); e1 = errno;
	errno = 0; b = json_object_get_int64(o); e2 = errno;
	errno = 0; c = json_object_get_uint64(o); e3 = errno;
	errno = 0; d = json_object_get_double(o); e4 = errno;
	bo = json_object_get_boolean(o);
	memcpy(&bits, &d, 8);
	ob_printf(&out, "= i32=%d,%d i64=%" PRId64 ",%d u64=%" PRIu64 ",%d dbl=%016" PRIx64 ",%d bool=%d type=%d", a, e1, b, e2, c, e3, bits, e4, bo, (int)json_object_get_type(o));
}

/* NUMS <h> <errno>: like NUM, but every getter is entered with errno = <errno> left over from earlier, unrelated calls (most callers never clear it): the VALUES must be what they always are */
static void cmd_nums(int nt, char **t)
{
	int h = hidx(t[1]); struct json_object *o = H[h]; int32_t a; int64_t b; uint64_t c; double d; uint64_t bits; int e1, e2, e3, e4, bo, st = (int)L(t[2]);
	(void)nt;
	errno = st; a = json_object_get_int(o); e1 = errno;
	errno = st; b = json_object_get_int64(o); e2 = errno;
	errno = st; c = json_object_get_uint64(o); e3 = errno;
	errno = st; d = json_object_get_double(o); e4 = errno;
	errno = st; bo = json_object_get_boolean(o);
	memcpy(&bits, &d, 8);
	ob_printf(&out, "= i32=%d,%d i64=%" PRId64 ",%d u64=%" PRIu64 ",%d dbl=%016" PRIx64 ",%d bool=%d type=%d", a, e1, b, e2, c, e3, bits, e4, bo, (int)json_object_get_type(o));
}
/* SET <h> <kind> <value>   kind: i32 i64 u64 dbl(hex bits) bool  -> = <ret> */
static void cmd_set(int nt, char **t)
{
	int h = hidx(t[1]); struct json_object *o = H[h]; int r = -99;
	(void)nt;
	if (!strcmp(t[2], "i32")) r = json_object_set_int(o, (int)LL(t[3]));
	else if (!strcmp(t[2], "i64")) r = json_object_set_int64(o, (int64_t)LL(t[3]));
	else if (!strcmp(t[2], "u64")) r = json_object_set_uint64(o, (uint64_t)UL(t[3]));
	else if (!strcmp(t[2], "dbl")) { uint64_t b = strtoull(t[3], NULL, 16); double d; memcpy(&d, &b, 8); r = json_object_set_double(o, d); }
	else if (!strcmp(t[2], "bool")) r = json_object_set_boolean(o, (json_bool)L(t[3]));
	ob_printf(&out, "= %d", r);
}

/* INC <h> <delta> -> = <ret> */
static void cmd_inc(int nt, char **t)
{
	int h = hidx(t[1]); (void)nt;
	ob_printf(&out, "= %d", json_object_int_inc(H[h], (int64_t)LL(t[2])));
}

/* ---------------- printbuf (C19) ----------------
 * PB new | free | reset
 * PB app   <a|r> <arg> <seed>      printbuf_memappend of n bytes; a: n = arg, r: n = (size - bpos) + arg (clamped at 0)
 * PB fast  <a|r|p> <arg> <seed>    printbuf_memappend_fast (fastu: with a size_t length); p: n such that bpos + n + 1 = arg/1000 of the current capacity
 * PB str   <k>                     printbuf_strappend of the k-th fixed literal
 * PB appx  <size> <srclen>         printbuf_memappend(size) from a source block of only srclen bytes (must-refuse arguments)
 * PB set   <a|b|s|m> <arg> <ch> <la|lr> <len>   printbuf_memset; offset: a absolute, b bpos+arg, s size+arg, m -1; len: la absolute, lr (size - offset) + len
 * PB fmt   <a|r> <arg> <seed>      sprintbuf("%s", n bytes of [a-z])
 * PB fmtd  <int>                   sprintbuf("%d|%s|%5.2f", int, "xy", 1.5)
 * every reply: = ret=<r> errno=<e> n=<n used> off=<offset used> bpos=<> size=<> blk=<real block size> term=<buf[bpos] or -1> crc=<crc32 of buf[0..bpos)> head=<hex of first 24 bytes>
 */
static struct printbuf *PB;
static uint32_t crc32_buf(const unsigned char *p, size_t n)
{
	static uint32_t tab[256]; static int init; uint32_t c = 0xFFFFFFFFu; size_t i;
	if (!init) { uint32_t k, j; for (k = 0; k < 256; k++) { uint32_t x = k; for (j = 0; j < 8; j++) x = (x & 1) ? 0xEDB88320u ^ (x >> 1) : x >> 1; tab[k] = x; } init = 1; }
	for (i = 0; i < n; i++) c = tab[(c ^ p[i]) & 0xFF] ^ (c >> 8);
	return c ^ 0xFFFFFFFFu;
}
/* whether the byte at bpos is known to have been written: printbuf_memset is not required to terminate, so after a successful memset the byte
 * behind the contents may never have been written at all -- the driver must not read it (memcheck would, rightly, blame the driver) */
static int pb_term_defined;
static void pb_state(int ret, int err, long n, long off)
{
	ob_printf(&out, "= ret=%d errno=%d n=%ld off=%ld", ret, err, n, off);
	if (!PB) { ob_puts(&out, " nopb"); return; }
	ob_printf(&out, " bpos=%d size=%d blk=%ld term=%d crc=%u head=x", PB->bpos, PB->size, (long)vf_block_size(PB->buf),
	          (pb_term_defined && PB->bpos >= 0 && PB->bpos < PB->size) ? (int)(unsigned char)PB->buf[PB->bpos] : -1,
	          (PB->bpos >= 0 && PB->bpos <= PB->size) ? crc32_buf((unsigned char *)PB->buf, (size_t)PB->bpos) : 0u);
	if (PB->bpos >= 0 && PB->bpos <= PB->size) ob_hex(&out, PB->buf, PB->bpos < 24 ? (size_t)PB->bpos : 24);
}
static void fill_pattern(unsigned char *b, long n, unsigned seed, int alpha)
{
	long i;
	for (i = 0; i < n; i++) { unsigned v = (seed + (unsigned)i * 7u) & 0xFF; b[i] = alpha ? (unsigned char)('a' + v % 26) : (unsigned char)v; }
}
static void cmd_pb(int nt, char **t)
{
	const char *op = t[1]; int r = 0, e = 0; long n = 0, off = 0;
	if (!strcmp(op, "new")) { if (PB) printbuf_free(PB); PB = printbuf_new(); pb_term_defined = 1; pb_state(PB != NULL, 0, 0, 0); return; }
	if (!PB) { ob_puts(&out, "! no printbuf"); return; }
	if (!strcmp(op, "free")) { printbuf_free(PB); PB = NULL; ob_puts(&out, "= freed"); return; }
	if (!strcmp(op, "reset")) { printbuf_reset(PB); pb_term_defined = 1; pb_state(0, 0, 0, 0); return; }
	if (!strcmp(op, "app") || !strcmp(op, "fast") || !strcmp(op, "fastu") || !strcmp(op, "fmt")) {
		long arg = L(t[3]); unsigned seed = (unsigned)UL(t[4]); unsigned char *src; int alpha = !strcmp(op, "fmt");
		if (nt < 5) { ob_puts(&out, "! PB args"); return; }
		/* relative sizes fill the buffer to its capacity, i.e. force a doubling each time: stop doing that once the buffer is large */
		n = (t[2][0] == 'r' && PB->size <= 8192) ? (long)(PB->size - PB->bpos) + arg : arg;
		/* p: the operation needs arg/1000 of the CURRENT capacity in total (contents + new bytes + terminator), whatever the capacity is */
		if (t[2][0] == 'p') n = (long)((double)PB->size * (double)arg / 1000.0) - PB->bpos - 1;
		if (n < 0) n = 0;
		src = (unsigned char *)malloc((size_t)n + 1); fill_pattern(src, n, seed, alpha); src[n] = 0;
		errno = 0;
		if (!strcmp(op, "app")) { unsigned char *ex = (unsigned char *)malloc(n ? (size_t)n : 1); memcpy(ex, src, (size_t)n); r = printbuf_memappend(PB, (char *)ex, (int)n); e = errno; free(ex); }
		else if (!strcmp(op, "fastu")) { unsigned char *ex = (unsigned char *)malloc(n ? (size_t)n : 1); size_t un = (size_t)n; memcpy(ex, src, (size_t)n); printbuf_memappend_fast(PB, (char *)ex, un); r = (int)n; e = errno; free(ex); }   /* the macro with an unsigned length, as in printbuf_memappend_fast(pb, s, strlen(s)) */
		else if (!strcmp(op, "fast")) { unsigned char *ex = (unsigned char *)malloc(n ? (size_t)n : 1); memcpy(ex, src, (size_t)n); printbuf_memappend_fast(PB, (char *)ex, (int)n); r = (int)n; e = errno; free(ex); }
		else { r = sprintbuf(PB, "%s", (char *)src); e = errno; }
		free(src);
		if (r >= 0) pb_term_defined = 1;
		pb_state(r, e, n, 0); return;
	}
	if (!strcmp(op, "str")) {
		int k = (int)L(t[2]);
		errno = 0;
		switch (k) {
		case 0: r = printbuf_strappend(PB, ""); n = 0; break;
		case 1: r = printbuf_strappend(PB, "a"); n = 1; break;
		case 2: r = printbuf_strappend(PB, "null"); n = 4; break;
		default: r = printbuf_strappend(PB, "0123456789abcdefghijklmnopqrstuvwxyzABCDEFGHIJKLMNOPQRSTUVWXYZ"); n = 62; break;
		}
		e = errno; if (r >= 0) pb_term_defined = 1; pb_state(r, e, n, 0); return;
	}
	if (!strcmp(op, "appx")) {
		long size = L(t[2]), srclen = L(t[3]); char *src = (char *)malloc(srclen ? (size_t)srclen : 1);
		memset(src, 'x', (size_t)srclen);
		errno = 0; r = printbuf_memappend(PB, src, (int)size); e = errno; free(src);
		pb_state(r, e, size, 0); return;
	}
	if (!strcmp(op, "set")) {
		long arg = L(t[3]); int ch = (int)L(t[4]); long len = L(t[6]); long o2;
		if (nt < 7) { ob_puts(&out, "! PB args"); return; }
		switch (t[2][0]) { case 'b': off = PB->bpos + arg; break; case 's': off = (PB->size <= 8192 ? PB->size : PB->bpos) + arg; break; case 'm': off = -1; break; default: off = arg; }
		o2 = off == -1 ? PB->bpos : off;
		if (t[5][1] == 'r') { if (PB->size <= 8192) len = (long)PB->size - o2 + len; if (len < 0) len = 0; }
		if (t[5][1] == 'p') { len = (long)((double)PB->size * (double)len / 1000.0) - o2; if (len < 0) len = 0; }   /* the fill ends at len/1000 of the current capacity */
		errno = 0; r = printbuf_memset(PB, (int)off, ch, (int)len); e = errno;
		if (r == 0) pb_term_defined = 0;
		pb_state(r, e, len, off); return;
	}
	if (!strcmp(op, "fmts1")) {   /* the bare "%s" with an argument that lies inside the buffer itself: sprintbuf(pb, "%s", pb->buf + k); the copy is taken before anything may move */
		long k = L(t[2]);
		if (!pb_term_defined) { pb_state(0, 0, -1, 0); return; }
		n = (long)strlen(PB->buf); if (k > n) k = n;
		errno = 0; r = sprintbuf(PB, "%s", PB->buf + k); e = errno;
		if (r >= 0) pb_term_defined = 1;
		pb_state(r, e, n, k); return;
	}
	if (!strcmp(op, "fmts")) {   /* the buffer's own contents (as a C string) formatted into itself, twice: sprintbuf(pb, "%s|%s", pb->buf, pb->buf) */
		if (!pb_term_defined) { pb_state(0, 0, -1, 0); return; }   /* not known to be terminated (a memset came last): the driver does not run strlen over it; n = -1 says "skipped" */
		n = (long)strlen(PB->buf);
		errno = 0; r = sprintbuf(PB, "%s|%s", PB->buf, PB->buf); e = errno;
		if (r >= 0) pb_term_defined = 1;
		pb_state(r, e, n, 0); return;
	}
	if (!strcmp(op, "fmtc")) {   /* formatted output that contains a NUL byte (%c with 0): <la> pattern bytes, NUL, <lb> pattern bytes */
		long la = L(t[2]), lb = L(t[3]); unsigned seed = (unsigned)UL(t[4]); unsigned char *a = (unsigned char *)malloc((size_t)la + 1), *b = (unsigned char *)malloc((size_t)lb + 1);
		fill_pattern(a, la, seed, 1); a[la] = 0; fill_pattern(b, lb, seed + 1, 1); b[lb] = 0;
		errno = 0; r = sprintbuf(PB, "%s%c%s", (char *)a, 0, (char *)b); e = errno; free(a); free(b);
		if (r >= 0) pb_term_defined = 1;
		pb_state(r, e, la + 1 + lb, 0); return;
	}
	if (!strcmp(op, "fmtd")) { errno = 0; r = sprintbuf(PB, "%d|%s|%5.2f", (int)L(t[2]), "xy", 1.5); e = errno; if (r >= 0) pb_term_defined = 1; pb_state(r, e, 0, 0); return; }
	ob_puts(&out, "! PB op");
}


/* PBGIANT: one print buffer taken to the edge of what an int can count (2 GiB of real memory): the overflow guards of the growth arithmetic, the refusal of requests whose
 * result would pass INT_MAX, and "unchanged after a refusal", with small arguments on a giant buffer (the random histories do the converse).  Self-checking: -> = ok <steps> | = BAD <what> | = nomem */
static int pbg_state(struct printbuf *pb, long want_bpos, int terminated, const char *step)
{
	long blk = (long)vf_block_size(pb->buf);
	if (pb->bpos != want_bpos) { ob_printf(&out, "= BAD %s: bpos %d, expected %ld", step, pb->bpos, want_bpos); return 0; }
	if (pb->bpos > pb->size || (long)pb->size > blk) { ob_printf(&out, "= BAD %s: bpos %d size %d real block %ld", step, pb->bpos, pb->size, blk); return 0; }
	if (terminated && (pb->bpos >= pb->size || pb->buf[pb->bpos] != 0)) { ob_printf(&out, "= BAD %s: not terminated inside the allocation (bpos %d size %d)", step, pb->bpos, pb->size); return 0; }
	return 1;
}
static void cmd_pbgiant(int nt, char **t)
{
	struct printbuf *pb = printbuf_new(); const int G = (1 << 30) + 1; int r, e; long b; char src[128]; unsigned long before; (void)nt; (void)t;
	memset(src, 'x', sizeof src); src[127] = 0;
	if (!pb) { ob_puts(&out, "= nomem"); return; }
	errno = 0; r = printbuf_memset(pb, 0, 'A', G);
	if (r != 0) { ob_puts(&out, errno == ENOMEM || errno == 0 ? "= nomem" : "= BAD step1: a 1 GiB fill was refused"); printbuf_free(pb); return; }
	if (!pbg_state(pb, G, 0, "step1")) goto done;
	vf_progress++;
	r = printbuf_memappend(pb, "xyz", 3);     /* growth from a capacity beyond INT_MAX/2: doubling it would overflow */
	if (r < 0) { ob_puts(&out, errno == ENOMEM ? "= nomem" : "= BAD step2: appending 3 bytes to a 1 GiB buffer was refused"); goto done; }
	if (!pbg_state(pb, (long)G + 3, 1, "step2")) goto done;
	if (pb->buf[0] != 'A' || pb->buf[G - 1] != 'A' || memcmp(pb->buf + G, "xyz", 3)) { ob_puts(&out, "= BAD step2: contents"); goto done; }
	b = (long)INT_MAX - 164;
	errno = 0; r = printbuf_memset(pb, -1, 'B', (int)(b - pb->bpos));
	if (r != 0) { ob_puts(&out, errno == ENOMEM || errno == 0 ? "= nomem" : "= BAD step3: a fill ending 164 bytes below INT_MAX was refused"); goto done; }
	if (!pbg_state(pb, b, 0, "step3")) goto done;
	vf_progress++;
	r = printbuf_memappend(pb, src, 100);      /* result INT_MAX-63: fits */
	if (r < 0) { ob_puts(&out, errno == ENOMEM ? "= nomem" : "= BAD step4: an append whose result (INT_MAX-63 bytes with the terminator) fits an int was refused"); goto done; }
	b += 100;
	if (!pbg_state(pb, b, 1, "step4")) goto done;
	if (pb->buf[G + 3] != 'B' || pb->buf[b - 101] != 'B' || pb->buf[b - 100] != 'x' || pb->buf[b - 1] != 'x') { ob_puts(&out, "= BAD step4: contents"); goto done; }
	/* from here on every request would take the buffer past INT_MAX: each must be refused with the buffer exactly as it was */
	before = crc32_buf((unsigned char *)pb->buf + b - 4096, 4096);
	errno = 0; r = printbuf_memappend(pb, src, 100); e = errno;
	if (r >= 0) { ob_printf(&out, "= BAD step5: append of 100 bytes at bpos INT_MAX-64 returned %d", r); goto done; }
	if (e != EFBIG) { ob_printf(&out, "= BAD step5: refused with errno %d (expected EFBIG)", e); goto done; }
	if (!pbg_state(pb, b, 1, "step5")) goto done;
	errno = 0; r = sprintbuf(pb, "%s", src);
	if (r >= 0) { ob_printf(&out, "= BAD step6: sprintbuf of 127 bytes at bpos INT_MAX-64 returned %d", r); goto done; }
	if (!pbg_state(pb, b, 1, "step6")) goto done;
	errno = 0; r = printbuf_memset(pb, -1, 'C', 100);
	if (r >= 0) { ob_printf(&out, "= BAD step7: fill of 100 bytes at bpos INT_MAX-64 returned %d", r); goto done; }
	if (!pbg_state(pb, b, 1, "step7")) goto done;
	errno = 0; r = printbuf_memset(pb, (int)(b - 10), 'C', 100);
	if (r >= 0) { ob_printf(&out, "= BAD step8: fill of 100 bytes at offset INT_MAX-74 returned %d", r); goto done; }
	if (!pbg_state(pb, b, 1, "step8")) goto done;
	if (crc32_buf((unsigned char *)pb->buf + b - 4096, 4096) != before || pb->buf[0] != 'A') { ob_puts(&out, "= BAD refused requests changed the contents"); goto done; }
	/* a small append that still fits (result INT_MAX-13): success or -- if the implementation wants slack it cannot have -- a clean refusal */
	r = printbuf_memappend(pb, src, 50);
	if (!pbg_state(pb, r < 0 ? b : b + 50, 1, "step9")) goto done;
	ob_printf(&out, "= ok steps=9 last_append=%d size=%d", r, pb->size);
done:
	printbuf_free(pb);
}

/* ---------------- object model (C05, C06, C07, C09, C11) ----------------
 * Nodes may carry a uid: json_object_set_userdata(node, (void*)uid, del_cb); the delete callback appends the uid to
 * the destruction log, which every mutating command prints as del=<uid,...>.  Handles are plain pointers; the SCRIPT
 * (i.e. the Python ownership model) knows which handles own a reference.
 */
static long uid_of(struct json_object *o) { return o ? (long)(intptr_t)json_object_get_userdata(o) : -1; }
static void set_uid(struct json_object *o, const char *t) { if (o && t) json_object_set_userdata(o, (void *)(intptr_t)L(t), del_cb); }

/* NEW <h> <uid|-> <kind> [arg] */
static void cmd_new(int nt, char **t)
{
	int h = hidx(t[1]); const char *k = t[3]; struct json_object *o = NULL; int isnull = 0;
	if (nt < 4) { ob_puts(&out, "! NEW args"); return; }
	if (!strcmp(k, "obj")) o = json_object_new_object();
	else if (!strcmp(k, "arr")) o = json_object_new_array();
	else if (!strcmp(k, "arrx")) o = json_object_new_array_ext((int)L(t[4]));
	else if (!strcmp(k, "int")) o = json_object_new_int64((int64_t)LL(t[4]));
	else if (!strcmp(k, "i32")) o = json_object_new_int((int32_t)LL(t[4]));
	else if (!strcmp(k, "uint")) o = json_object_new_uint64((uint64_t)UL(t[4]));
	else if (!strcmp(k, "dbl")) { uint64_t b = strtoull(t[4], NULL, 16); double d; memcpy(&d, &b, 8); o = json_object_new_double(d); }
	else if (!strcmp(k, "dbls")) { uint64_t b = strtoull(t[4], NULL, 16); double d; size_t n; unsigned char *x = unhex(t[5], &n); memcpy(&d, &b, 8); o = json_object_new_double_s(d, (char *)x); free(x); }
	else if (!strcmp(k, "str")) { size_t n; unsigned char *x = unhex(nt > 4 ? t[4] : "x", &n); char *e = exact_copy(x, n); o = json_object_new_string_len(e, (int)n); free(e); free(x); }
	else if (!strcmp(k, "strz")) { size_t n; unsigned char *x = unhex(nt > 4 ? t[4] : "x", &n); o = json_object_new_string((char *)x); free(x); }
	else if (!strcmp(k, "bool")) o = json_object_new_boolean((json_bool)L(t[4]));
	else if (!strcmp(k, "null")) { o = json_object_new_null(); isnull = 1; }
	else { ob_puts(&out, "! NEW kind"); return; }
	if (o && t[2][0] != '-') set_uid(o, t[2]);
	H[h] = o; Hset[h] = 1;
	ob_puts(&out, (o || isnull) ? "= ok" : "= null");
}

/* UD <h> <uid>     set_userdata (the previous delete callback must fire now) */
static void cmd_ud(int nt, char **t) { int h = hidx(t[1]); (void)nt; json_object_set_userdata(H[h], (void *)(intptr_t)L(t[2]), del_cb); ob_puts(&out, "= ok"); emit_dlog(); }
static int ser_fn(struct json_object *o, struct printbuf *pb, int level, int flags) { (void)o; (void)level; (void)flags; return printbuf_memappend(pb, "\"custom\"", 8); }
static int ser_fail_fn(struct json_object *o, struct printbuf *pb, int level, int flags) { (void)o; (void)level; (void)flags; printbuf_memappend(pb, "[partial", 8); return -1; }
/* a serializer that itself calls back into the library: it serializes ANOTHER tree with the same flags and emits that (serializers of application types do this) */
static int ser_nested_fn(struct json_object *o, struct printbuf *pb, int level, int flags)
{
	static struct json_object *helper; const char *s; (void)o; (void)level;
	if (!helper) helper = json_tokener_parse("{\"n\":[1,2.5,\"x\"]}");
	s = json_object_to_json_string_ext(helper, flags & ~JSON_C_TO_STRING_PRETTY);
	return s ? printbuf_memappend(pb, s, (int)strlen(s)) : -1;
}
/* mode 4: the library's own json_object_userdata_to_json_string with a heap string as userdata and a deleter of the caller's that logs uid 4242 and frees the string */
extern void vf_free(void *p); extern char *vf_strdup(const char *s);
/* (the string may have been duplicated by the library, i.e. through the ledger: both the original and the copies go through the ledger's strdup/free) */
static void del_logging_free(struct json_object *j, void *ud) { (void)j; if (dlog_n < DLOG_MAX) dlog[dlog_n++] = 4242; vf_free(ud); }
/* SS <h> <uid> <custom 0|1|2|3>   set_serializer (2: a serializer that writes something and then reports failure; 3: one that re-enters the library) */
static void cmd_ss(int nt, char **t) { int h = hidx(t[1]); (void)nt;
	if (L(t[3]) == 4) { json_object_set_serializer(H[h], json_object_userdata_to_json_string, vf_strdup("\"text kept by the caller\""), del_logging_free); ob_puts(&out, "= ok"); emit_dlog(); return; }
	json_object_set_serializer(H[h], L(t[3]) == 3 ? ser_nested_fn : L(t[3]) == 2 ? ser_fail_fn : L(t[3]) ? ser_fn : NULL, (void *)(intptr_t)L(t[2]), L(t[2]) ? del_cb : NULL); ob_puts(&out, "= ok"); emit_dlog(); }

/* GETN <h> <n>: n times json_object_get; PUTN <h> <n>: n times json_object_put -> = <number of puts that returned 1> first=<index of the first such put | -1> del=.. (many-owner histories) */
static void cmd_getn(int nt, char **t) { int h = hidx(t[1]); unsigned long n = UL(t[2]), i; (void)nt; for (i = 0; i < n; i++) { json_object_get(H[h]); if (!(i & 0xFFFFFF)) vf_progress++; } ob_puts(&out, "= ok"); }
static void cmd_putn(int nt, char **t)
{
	int h = hidx(t[1]); unsigned long n = UL(t[2]), i, ones = 0; long first = -1; (void)nt;
	vf_freelog_reset();
	for (i = 0; i < n; i++) { if (json_object_put(H[h]) == 1) { if (!ones) first = (long)i; ones++; if (ones > 3) break; } if (!(i & 0xFFFFFF)) vf_progress++; }
	ob_printf(&out, "= %lu first=%ld", ones, first); emit_dlog();
}
/* GET <h> <h2> */
static void cmd_get(int nt, char **t) { int h = hidx(t[1]), h2 = hidx(t[2]); (void)nt; H[h2] = json_object_get(H[h]); Hset[h2] = 1; ob_puts(&out, "= ok"); }
/* ALIAS <h> <h2>   copy the pointer without taking a reference */
static void cmd_alias(int nt, char **t) { int h = hidx(t[1]), h2 = hidx(t[2]); (void)nt; H[h2] = H[h]; Hset[h2] = 1; ob_puts(&out, "= ok"); }

static char *keyarg(const char *t) { size_t n; return (char *)unhex(t, &n); }
/* the same, but the key starts at a rotating offset 0..7 inside its block: callers' name pointers have every alignment (free *base) */
static unsigned key_rot;
static char *keyarg_mis(const char *t, char **base)
{
	size_t n; unsigned char *x = unhex(t, &n); unsigned off = key_rot++ & 7; char *b = (char *)malloc(n + 9);
	memcpy(b + off, x, n); b[off + n] = 0; free(x); *base = b; return b + off;
}

/* OADD <hobj> <key> <hval> <opts>  -> = <ret> del=.. */
#define NCONST 64
static char *constkeys[NCONST]; static int nconst;
static void cmd_oadd(int nt, char **t)
{
	int ho = hidx(t[1]), hv = hidx(t[3]); unsigned opts = nt > 4 ? (unsigned)L(t[4]) : 0; char *kbase; char *k = keyarg_mis(t[2], &kbase); int r;
	if (opts & JSON_C_OBJECT_ADD_CONSTANT_KEY) {
		/* immortal keys: interned for the life of the process */
		int i; for (i = 0; i < nconst; i++) if (!strcmp(constkeys[i], k)) break;
		if (i == nconst && nconst < NCONST) constkeys[nconst++] = strdup(k);
		if (i < nconst) { r = json_object_object_add_ex(H[ho], constkeys[i], H[hv], opts); }
		else r = json_object_object_add_ex(H[ho], k, H[hv], opts & ~JSON_C_OBJECT_ADD_CONSTANT_KEY);
	} else if (opts == 0 && (L(t[1]) & 1)) r = json_object_object_add(H[ho], k, H[hv]);
	else r = json_object_object_add_ex(H[ho], k, H[hv], opts);
	free(kbase);
	ob_printf(&out, "= %d", r); emit_dlog();
}
static void cmd_odel(int nt, char **t) { int ho = hidx(t[1]); char *kb; char *k = keyarg_mis(t[2], &kb); (void)nt; json_object_object_del(H[ho], k); free(kb); ob_puts(&out, "= ok"); emit_dlog(); }
/* OGET <hobj> <key> [hdst]  -> = <found> <uid> <ptr==NULL> */
static void cmd_oget(int nt, char **t)
{
	int ho = hidx(t[1]); char *kb; char *k = keyarg_mis(t[2], &kb); struct json_object *v = (struct json_object *)0x1; json_bool f = json_object_object_get_ex(H[ho], k, &v);
	struct json_object *v2 = json_object_object_get(H[ho], k);
	ob_printf(&out, "= %d %ld %d same=%d", (int)f, uid_of(v), v == NULL, v2 == v);
	/* documented corner forms: no result pointer (existence test), no object */
	{ struct json_object *v4 = (struct json_object *)0x1; json_bool f3 = json_object_object_get_ex(H[ho], k, NULL), f4 = json_object_object_get_ex(NULL, k, &v4);
	  ob_printf(&out, " exists=%d noobj=%d,%d", (int)f3, (int)f4, v4 == NULL); }
	/* the same question asked of something that is not an object: answer "no", result pointer cleared */
	{ struct json_object *notobj = json_object_new_int(5), *v5 = (struct json_object *)0x1; json_bool f5, f6;
	  f5 = json_object_object_get_ex(notobj, k, &v5); f6 = json_object_object_get_ex(notobj, k, NULL);
	  ob_printf(&out, " notobj=%d,%d,%d", (int)f5, v5 == NULL, (int)f6); json_object_put(notobj); }
	if (nt > 3) { int hd = hidx(t[3]); H[hd] = v; Hset[hd] = 1; }
	free(kb);
}
/* the same object through its documented lower-level handle (json_object_get_object): OLADD = lh_table_insert of a strdup'ed name (only for names that are absent:
 * the table-level insert does not replace), OLDEL = lh_table_delete, OLGET = lh_table_lookup_ex  */
static void cmd_oladd(int nt, char **t)
{
	int ho = hidx(t[1]), hv = hidx(t[3]); char *kb; char *k = keyarg_mis(t[2], &kb); int r; (void)nt;
	r = lh_table_insert(json_object_get_object(H[ho]), strdup(k), H[hv]);
	free(kb); ob_printf(&out, "= %d", r); emit_dlog();
}
static void cmd_oldel(int nt, char **t) { int ho = hidx(t[1]); char *kb; char *k = keyarg_mis(t[2], &kb); int r; (void)nt; r = lh_table_delete(json_object_get_object(H[ho]), k); free(kb); ob_printf(&out, "= %d", r); emit_dlog(); }
static void cmd_olget(int nt, char **t)
{
	int ho = hidx(t[1]); char *kb; char *k = keyarg_mis(t[2], &kb); void *v = (void *)0x1; json_bool f = lh_table_lookup_ex(json_object_get_object(H[ho]), k, &v); (void)nt;
	ob_printf(&out, "= %d %ld %d same=1 exists=%d noobj=0,1 notobj=0,1,0", (int)f, f ? uid_of((struct json_object *)v) : -1L, f ? v == NULL : 1, (int)lh_table_lookup_ex(json_object_get_object(H[ho]), k, NULL));
	free(kb);
}
/* OLONGRUN <n>: an object whose table holds a run of n consecutively occupied slots, every key of the run sitting in its own home slot, plus ONE more key whose home is the
 * first slot of the run -- so that key lives n slots away from home (whatever the hash function and seed: keys are picked by asking the library for their hash).
 * Self-checking -> = ok size=<table size> disp=<displacement of the far key> | = BAD <what> | = skip <why> */
static void cmd_olongrun(int nt, char **t)
{
	long n = L(t[1]), size = 16, lo, covered = 0, cand = 0, i; struct json_object *o = json_object_new_object(), *v = NULL; struct lh_table *tb = json_object_get_object(o);
	char **keys; char *far = NULL; char kb[32]; unsigned char *mark; long disp = -1; int cnt; (void)nt;
	while ((double)(n + 2) >= LH_LOAD_FACTOR * (double)size) size *= 2;
	lo = size / 3;
	keys = (char **)calloc((size_t)n, sizeof *keys); mark = (unsigned char *)calloc((size_t)size, 1);
	while (covered < n || !far) {
		unsigned long h; long r;
		snprintf(kb, sizeof kb, "r%lx", (unsigned long)cand++);
		h = lh_get_hash(tb, kb); r = (long)(h % (unsigned long)size);
		if (r >= lo && r < lo + n && !mark[r]) { mark[r] = 1; keys[r - lo] = strdup(kb); covered++; }
		else if (r == lo && !far && covered > 0 && strcmp(keys[0] ? keys[0] : "", kb)) far = strdup(kb);
		if (cand > 400000000L) { ob_puts(&out, "= skip no-candidates"); goto done; }
		if (!(cand & 0xFFFFF)) vf_progress++;
	}
	for (i = 0; i < n; i++) if (json_object_object_add(o, keys[i], json_object_new_int64(i)) != 0) { ob_puts(&out, "= skip add-failed"); goto done; }
	if (tb->size != size) { ob_printf(&out, "= skip table-size-%d-not-%ld", tb->size, size); goto done; }   /* another growth policy: the construction does not apply */
	vf_progress++;
	if (json_object_object_add(o, far, json_object_new_int64(-7)) != 0) { ob_puts(&out, "= BAD adding the far key failed"); goto done; }
	{ struct lh_entry *e = lh_table_lookup_entry(tb, far); if (e) disp = ((e - tb->table) - lo + size) % size; }
	if (json_object_object_length(o) != n + 1) { ob_printf(&out, "= BAD length %d after %ld+1 adds", json_object_object_length(o), n); goto done; }
	if (!json_object_object_get_ex(o, far, &v) || json_object_get_int64(v) != -7) { ob_printf(&out, "= BAD the key %ld slots away from its home slot is not found", disp); goto done; }
	for (i = 0; i < n; i += (n > 2000 ? 97 : 1)) if (!json_object_object_get_ex(o, keys[i], &v) || json_object_get_int64(v) != i) { ob_printf(&out, "= BAD run key #%ld not found", i); goto done; }
	if (json_object_object_add(o, far, json_object_new_int64(-8)) != 0 || json_object_object_length(o) != n + 1) { ob_printf(&out, "= BAD replacing the far key: length %d (a duplicate member?)", json_object_object_length(o)); goto done; }
	if (!json_object_object_get_ex(o, far, &v) || json_object_get_int64(v) != -8) { ob_puts(&out, "= BAD far key after replace"); goto done; }
	json_object_object_del(o, keys[n / 2]);                                 /* a tombstone inside the run */
	if (!json_object_object_get_ex(o, far, &v) || json_object_get_int64(v) != -8) { ob_puts(&out, "= BAD far key not found across a deleted slot"); goto done; }
	json_object_object_del(o, far);
	if (json_object_object_get_ex(o, far, NULL) || json_object_object_length(o) != n - 1) { ob_printf(&out, "= BAD far key still there after delete (length %d)", json_object_object_length(o)); goto done; }
	if (json_object_object_add(o, far, json_object_new_int64(-9)) != 0 || !json_object_object_get_ex(o, far, &v) || json_object_get_int64(v) != -9) { ob_puts(&out, "= BAD far key re-added"); goto done; }
	cnt = 0; { int seen = 0; json_object_object_foreach(o, k2, v2) { (void)v2; cnt++; if (!strcmp(k2, far)) seen++; } if (seen != 1 || cnt != n) { ob_printf(&out, "= BAD iteration: %d members, far key seen %d time(s)", cnt, seen); goto done; } }
	ob_printf(&out, "= ok size=%ld disp=%ld", size, disp);
done:
	for (i = 0; i < n; i++) free(keys[i]);
	free(keys); free(mark); free(far); json_object_put(o);
}
static void cmd_olen(int nt, char **t) { int ho = hidx(t[1]); (void)nt; ob_printf(&out, "= %d", json_object_object_length(H[ho])); }

/* OKEYS <hobj>  -> six iteration forms, each a comma-separated list of <keyhex>:<uid|n> */
struct vis_ctx { struct obuf *o; struct json_object *root; int first; };
static int vis_keys(json_object *jso, int flags, json_object *parent, const char *key, size_t *idx, void *arg)
{
	struct vis_ctx *c = (struct vis_ctx *)arg; (void)idx;
	if (parent == c->root && !(flags & JSON_C_VISIT_SECOND) && key) { if (!c->first) ob_putc(c->o, ','); c->first = 0; ob_hex(c->o, key, strlen(key)); ob_printf(c->o, ":%ld", uid_of(jso)); }
	if (jso != c->root && !(flags & JSON_C_VISIT_SECOND)) return JSON_C_VISIT_RETURN_SKIP;
	return JSON_C_VISIT_RETURN_CONTINUE;
}
static void cmd_okeys(int nt, char **t)
{
	int ho = hidx(t[1]); struct json_object *o = H[ho]; int first; (void)nt;
	ob_puts(&out, "= fe=");
	first = 1; { json_object_object_foreach(o, k, v) { if (!first) ob_putc(&out, ','); first = 0; ob_hex(&out, k, strlen(k)); ob_printf(&out, ":%ld", uid_of(v)); } }
	ob_puts(&out, " fc=");
	first = 1; { struct json_object_iter it; json_object_object_foreachC(o, it) { if (!first) ob_putc(&out, ','); first = 0; ob_hex(&out, it.key, strlen(it.key)); ob_printf(&out, ":%ld", uid_of(it.val)); } }
	ob_puts(&out, " it=");
	first = 1; { struct json_object_iterator a = json_object_iter_begin(o), e = json_object_iter_end(o);
		while (!json_object_iter_equal(&a, &e)) { const char *k = json_object_iter_peek_name(&a); if (!first) ob_putc(&out, ','); first = 0; ob_hex(&out, k, strlen(k)); ob_printf(&out, ":%ld", uid_of(json_object_iter_peek_value(&a))); json_object_iter_next(&a); } }
	ob_puts(&out, " lh=");
	first = 1; { struct lh_entry *e; lh_foreach(json_object_get_object(o), e) { const char *k = (const char *)lh_entry_k(e); if (!first) ob_putc(&out, ','); first = 0; ob_hex(&out, k, strlen(k)); ob_printf(&out, ":%ld", uid_of((struct json_object *)lh_entry_v(e))); } }
	ob_puts(&out, " ls=");   /* lh_foreach_safe + the accessor functions */
	first = 1; { struct lh_entry *e, *tmp; lh_foreach_safe(json_object_get_object(o), e, tmp) { const char *k = (const char *)lh_entry_k(e); if (!first) ob_putc(&out, ','); first = 0; ob_hex(&out, k, strlen(k)); ob_printf(&out, ":%ld", uid_of((struct json_object *)lh_entry_v(e))); } }
	ob_puts(&out, " bk=");   /* backwards from the tail through lh_entry_prev; printed in reverse, i.e. in forward order again */
	{ struct lh_table *tb = json_object_get_object(o); struct lh_entry *e; int n = 0, i; struct lh_entry **st = (struct lh_entry **)malloc(sizeof *st * (size_t)(lh_table_length(tb) + 2));
	  for (e = tb->tail; e && n <= lh_table_length(tb); e = lh_entry_prev(e)) st[n++] = e;
	  for (i = n - 1; i >= 0; i--) { const char *k = (const char *)lh_entry_k(st[i]); if (i != n - 1) ob_putc(&out, ','); ob_hex(&out, k, strlen(k)); ob_printf(&out, ":%ld", uid_of((struct json_object *)lh_entry_v(st[i]))); }
	  if (n && lh_entry_next(st[0]) != NULL) ob_puts(&out, ",ff:0");   /* the tail must have no successor */
	  free(st); }
	ob_puts(&out, " vi=");
	{ struct vis_ctx c; c.o = &out; c.root = o; c.first = 1; json_c_visit(o, 0, vis_keys, &c); }
	/* chain structure of the public table fields: head->next.. must be a simple chain of exactly count entries ending at tail; prev its mirror */
	{ struct lh_table *tb = json_object_get_object(o); struct lh_entry *e, *last = NULL; int n = 0, ok = 1;
	  for (e = tb->head; e && n <= tb->count + 1; e = e->next) { if (e->prev != last) ok = 0; last = e; n++; }
	  if (n != tb->count || last != tb->tail) ok = 0;
	  { int live = 0, freed = 0, i; for (i = 0; i < tb->size; i++) { if (tb->table[i].k == LH_FREED) freed++; else if (tb->table[i].k != LH_EMPTY) live++; }
	    ob_printf(&out, " chain=%d size=%d count=%d live=%d tomb=%d", ok, tb->size, tb->count, live, freed); } }
}
/* OSER <hobj> -> key order as serialized: re-parse own PLAIN output and list keys */
static void cmd_oser(int nt, char **t)
{
	int ho = hidx(t[1]); const char *s = json_object_to_json_string_ext(H[ho], 0); struct json_object *p; int first = 1; (void)nt;
	p = s ? json_tokener_parse(s) : NULL;
	ob_puts(&out, "= ");
	if (p && json_object_is_type(p, json_type_object)) { json_object_object_foreach(p, k, v) { (void)v; if (!first) ob_putc(&out, ','); first = 0; ob_putc(&out, 'k'); ob_hex(&out, k, strlen(k)); } }
	if (first) ob_putc(&out, '-');
	json_object_put(p);
}
struct visdel_ctx { struct json_object *root; unsigned long mask; int i, first; };
static int visdel_cb(json_object *jso, int flags, json_object *parent, const char *key, size_t *idx, void *arg)
{
	struct visdel_ctx *c = (struct visdel_ctx *)arg; (void)idx;
	if (parent != c->root || (flags & JSON_C_VISIT_SECOND)) return JSON_C_VISIT_RETURN_CONTINUE;
	if (!c->first) ob_putc(&out, ','); c->first = 0; ob_hex(&out, key, strlen(key)); ob_printf(&out, ":%ld", uid_of(jso));
	if (c->i < 64 && (c->mask >> c->i) & 1) { c->i++; json_object_object_del(c->root, key); return JSON_C_VISIT_RETURN_SKIP; }
	c->i++;
	return JSON_C_VISIT_RETURN_CONTINUE;
}
/* OITDEL <hobj> <mode> [v]  delete the CURRENT key while iterating with json_object_object_foreach; mode bit i = delete the i-th visited key; -> visit sequence */
extern int vf_iso_foreach_del(struct json_object *o, unsigned long mask, void (*emit)(const char *key, struct json_object *val, void *arg), void *arg);
static void iso_emit(const char *k, struct json_object *v, void *arg) { int *first = (int *)arg; if (!*first) ob_putc(&out, ','); *first = 0; ob_hex(&out, k, strlen(k)); ob_printf(&out, ":%ld", uid_of(v)); }
static void cmd_oitdel(int nt, char **t)
{
	int ho = hidx(t[1]); unsigned long mask = (unsigned long)UL(t[2]); int i = 0, first = 1; (void)nt;
	ob_puts(&out, "= ");
	if (nt > 3 && t[3][0] == 'i') {   /* the same loop in a translation unit compiled as strict ISO C99 (harness/iso_consumer.c) */
		vf_iso_foreach_del(H[ho], mask, iso_emit, &first);
		if (first) ob_putc(&out, '-');
		emit_dlog();
		return;
	}
	if (nt > 3) {   /* the same through the visitor: the callback deletes the member it is looking at and returns SKIP */
		struct visdel_ctx c; c.root = H[ho]; c.mask = mask; c.i = 0; c.first = 1;
		if (json_c_visit(H[ho], 0, visdel_cb, &c) != 0) ob_puts(&out, "!visit-failed");
		if (c.first) ob_putc(&out, '-');
		emit_dlog();
		return;
	}
	{ json_object_object_foreach(H[ho], k, v) {
		if (!first) ob_putc(&out, ','); first = 0; ob_hex(&out, k, strlen(k)); ob_printf(&out, ":%ld", uid_of(v));
		if (i < 64 && (mask >> i) & 1) json_object_object_del(H[ho], k);
		i++; } }
	if (first) ob_putc(&out, '-');
	emit_dlog();
}

/* HASHFN <0 default | 1 perllike>;  HASH <key>... -> the library's hash of each key under the current function and seed */
static void cmd_hashfn(int nt, char **t) { (void)nt; ob_printf(&out, "= %d", json_global_set_string_hash((int)L(t[1]))); }
static void cmd_hash(int nt, char **t)
{
	struct json_object *o = json_object_new_object(); int i;
	ob_puts(&out, "=");
	for (i = 1; i < nt; i++) { char *k = keyarg(t[i]); ob_printf(&out, " %lu", lh_get_hash(json_object_get_object(o), k)); free(k); }
	json_object_put(o);
}

/* ---- arrays ---- */
static size_t SZ(const char *t) { if (!strcmp(t, "max")) return (size_t)-1; if (!strcmp(t, "max-1")) return (size_t)-2; return (size_t)strtoull(t, NULL, 0); }
/* a trailing "L" argument sends the operation through the array's lower-level handle: array_list_*(json_object_get_array(arr), ...) */
#define AL(h) json_object_get_array(H[hidx(h)])
static void cmd_aadd(int nt, char **t) { int r; r = nt > 3 ? array_list_add(AL(t[1]), H[hidx(t[2])]) : json_object_array_add(H[hidx(t[1])], H[hidx(t[2])]); ob_printf(&out, "= %d", r); emit_dlog(); }
static void cmd_aput(int nt, char **t) { int r; r = nt > 4 ? array_list_put_idx(AL(t[1]), SZ(t[2]), H[hidx(t[3])]) : json_object_array_put_idx(H[hidx(t[1])], SZ(t[2]), H[hidx(t[3])]); ob_printf(&out, "= %d", r); emit_dlog(); }
static void cmd_ains(int nt, char **t) { int r; r = nt > 4 ? array_list_insert_idx(AL(t[1]), SZ(t[2]), H[hidx(t[3])]) : json_object_array_insert_idx(H[hidx(t[1])], SZ(t[2]), H[hidx(t[3])]); ob_printf(&out, "= %d", r); emit_dlog(); }
static void cmd_adel(int nt, char **t) { int r; r = nt > 4 ? array_list_del_idx(AL(t[1]), SZ(t[2]), SZ(t[3])) : json_object_array_del_idx(H[hidx(t[1])], SZ(t[2]), SZ(t[3])); ob_printf(&out, "= %d", r); emit_dlog(); }
static void cmd_ashrink(int nt, char **t) { int r; r = nt > 3 ? array_list_shrink(AL(t[1]), SZ(t[2])) : json_object_array_shrink(H[hidx(t[1])], (int)L(t[2])); ob_printf(&out, "= %d", r); emit_dlog(); }
static void cmd_aget(int nt, char **t) { int hd = hidx(t[3]); struct json_object *v = json_object_array_get_idx(H[hidx(t[1])], SZ(t[2])); (void)nt; H[hd] = v; Hset[hd] = 1; ob_printf(&out, "= %ld %d", uid_of(v), v == NULL); }
/* ASUM <harr> -> = len=<n> cap=<size> nonnull=<count> uidsum=<sum of uids> first=<index of first non-null | -1> last=<index of last non-null | -1>   (whole-array digest for huge arrays) */
static void cmd_asum(int nt, char **t)
{
	struct json_object *a = H[hidx(t[1])]; size_t n = json_object_array_length(a), i, nn = 0; long sum = 0, first = -1, last = -1; struct array_list *al = json_object_get_array(a); (void)nt;
	for (i = 0; i < n; i++) { struct json_object *v = json_object_array_get_idx(a, i); if (v) { nn++; sum += uid_of(v); if (first < 0) first = (long)i; last = (long)i; } if (!(i & 0xFFFFF)) vf_progress++; }
	ob_printf(&out, "= len=%zu cap=%zu nonnull=%zu uidsum=%ld first=%ld last=%ld", n, al->size, nn, sum, first, last);
}
/* ADUMP <harr> -> = len=<n> cap=<size> e=<uid|n>,... (indices 0..len+2) */
static void cmd_adump(int nt, char **t)
{
	struct json_object *a = H[hidx(t[1])]; size_t n = json_object_array_length(a), i; struct array_list *al = json_object_get_array(a); (void)nt;
	ob_printf(&out, "= len=%zu cap=%zu e=", n, al->size);
	for (i = 0; i < n + 3; i++) { struct json_object *v = json_object_array_get_idx(a, i); if (i) ob_putc(&out, ','); if (v) ob_printf(&out, "%ld", uid_of(v)); else ob_putc(&out, 'n'); }
	/* the same questions asked of the lower-level handle: array_list_length / array_list_get_idx must agree with the json_object_array_* answers */
	{ int alok = array_list_length(al) == n; for (i = 0; i < n + 3 && alok; i++) if (array_list_get_idx(al, i) != (void *)json_object_array_get_idx(a, i)) alok = 0; ob_printf(&out, " alok=%d", alok); }
	ob_printf(&out, " far=%d", json_object_array_get_idx(a, (size_t)-1) == NULL && json_object_array_get_idx(a, n + 1000000) == NULL &&
	          json_object_array_get_idx(a, ((size_t)1 << 32)) == NULL && json_object_array_get_idx(a, ((size_t)1 << 32) + (n ? n - 1 : 0)) == NULL &&
	          json_object_array_get_idx(a, ((size_t)1 << 63) + (n ? n - 1 : 0)) == NULL);
}
/* sort by uid, nulls first (comparator is NULL-safe) */
static int cmp_uid(const void *a, const void *b)
{
	struct json_object *x = *(struct json_object *const *)a, *y = *(struct json_object *const *)b; long u = uid_of(x), v = uid_of(y), d = (u - v) * 9973;
	/* a difference-style comparator (what most callers write), with large magnitudes: only the sign may matter to whoever calls it */
	return d > 2000000000L ? 2000000000 : d < -2000000000L ? -2000000000 : (int)d;
}
/* a second ordering: by the CURRENT value of integer elements (other kinds: by uid), nulls first, ties by uid -- an order that changes when an element is changed in place */
static long val_key(struct json_object *x) { return !x ? -1 : json_object_is_type(x, json_type_int) ? (long)json_object_get_int64(x) : uid_of(x); }
static int cmp_val(const void *a, const void *b)
{
	struct json_object *x = *(struct json_object *const *)a, *y = *(struct json_object *const *)b; long u = val_key(x), v = val_key(y);
	return u < v ? -1 : u > v ? 1 : cmp_uid(a, b);
}
/* ASORT <harr> [v]   json_object_array_sort by uid (or, with v, by current value) */
static void cmd_asort(int nt, char **t)
{
	if (nt > 2 && t[2][0] == 'L') array_list_sort(json_object_get_array(H[hidx(t[1])]), cmp_uid);   /* (L: through the lower-level handle) */
	else json_object_array_sort(H[hidx(t[1])], nt > 2 ? cmp_val : cmp_uid);
	ob_puts(&out, "= ok"); emit_dlog();
}
/* ASETV <harr> <idx> <val>: change the integer element at idx in place (json_object_set_int64 on the element itself; the array is not told) -> = <ret | -9 not an int> */
static void cmd_asetv(int nt, char **t) { struct json_object *x = json_object_array_get_idx(H[hidx(t[1])], SZ(t[2])); (void)nt; ob_printf(&out, "= %d", x && json_object_is_type(x, json_type_int) ? json_object_set_int64(x, (int64_t)LL(t[3])) : -9); emit_dlog(); }
/* ALADD <harr> <hval>: array_list_add on json_object_get_array(arr), i.e. the documented lower-level handle of the same array -> = <ret> */
static void cmd_aladd(int nt, char **t) { int r; (void)nt; r = array_list_add(json_object_get_array(H[hidx(t[1])]), H[hidx(t[2])]); ob_printf(&out, "= %d", r); emit_dlog(); }
/* ABS <harr> <hkey> -> = <found uid|-1|n> */
static struct json_object *bs_key; static int bs_order_bad;
static int cmp_key_first(const void *a, const void *b)
{
	if (*(struct json_object *const *)a != bs_key) bs_order_bad++;
	return cmp_uid(a, b);
}
static void cmd_abs(int nt, char **t)
{
	struct json_object *r; (void)nt;
	/* bsearch contract: the comparator's FIRST argument is the key, the second a member of the array (they may be of different shapes): cmp_key_first notes any call where that is not so */
	bs_key = H[hidx(t[2])]; bs_order_bad = 0;
	r = json_object_array_bsearch(H[hidx(t[2])], H[hidx(t[1])], cmp_key_first);
	ob_printf(&out, "= %ld keyfirst_violations=%d", r ? uid_of(r) : -2L, bs_order_bad);
}

/* UIDS <h> -> structure with uids: <uid> | <uid>[ ... ] | <uid>{ k<hex> ... } | n */
static void uids_rec(struct json_object *o)
{
	if (!o) { ob_puts(&out, " n"); return; }
	ob_printf(&out, " %ld", uid_of(o));
	if (json_object_is_type(o, json_type_array)) { size_t i, n = json_object_array_length(o); ob_puts(&out, "["); for (i = 0; i < n; i++) uids_rec(json_object_array_get_idx(o, i)); ob_puts(&out, " ]"); }
	else if (json_object_is_type(o, json_type_object)) { ob_puts(&out, "{"); { json_object_object_foreach(o, k, v) { ob_puts(&out, " k"); ob_hex(&out, k, strlen(k)); uids_rec(v); } } ob_puts(&out, " }"); }
}
static void cmd_uids(int nt, char **t) { (void)nt; ob_puts(&out, "="); uids_rec(H[hidx(t[1])]); }
/* PSET <hroot> <pathhex> <hval> -> = <rc> <errno> del=..   (json_pointer_set; the root handle is updated) */
static void cmd_pset(int nt, char **t)
{
	int hr = hidx(t[1]), hv = hidx(t[3]); char *p = keyarg(t[2]); int rc; (void)nt;
	errno = vf_ambient_errno_v > 0 ? vf_ambient_errno_v : 0; rc = json_pointer_set(&H[hr], p, H[hv]);
	ob_printf(&out, "= %d %d", rc, errno); emit_dlog(); free(p);
}

/* PGET <hroot> <pathhex> [mode 0 plain | 1 getf("%s") | 2 NULL result pointer]  -> = <rc> <errno> <ptr hex | ->  */
static void cmd_pget(int nt, char **t)
{
	int hr = hidx(t[1]); char *p = keyarg(t[2]); int mode = nt > 3 ? (int)L(t[3]) : 0; struct json_object *res = (struct json_object *)0x1; int rc;
	errno = vf_ambient_errno_v > 0 ? vf_ambient_errno_v : 0;
	/* the formatted variants: "%s" of the whole pointer, or -- every other time -- the same string put together from several conversions */
	if (mode == 1) { static unsigned alt; size_t k = strlen(p) / 2; unsigned a = alt++ % 3;
		/* (third form: the formatted text goes on behind a NUL produced by %c -- the pointer is the C string in front of it) */
		rc = a == 1 ? json_pointer_getf(H[hr], &res, "%.*s%s%s", (int)k, p, p + k, "") : a == 2 ? json_pointer_getf(H[hr], &res, "%s%c/zz/0", p, 0) : json_pointer_getf(H[hr], &res, "%s", p); }
	else if (mode == 2) { rc = json_pointer_get(H[hr], p, NULL); res = NULL; }
	else rc = json_pointer_get(H[hr], p, &res);
	ob_printf(&out, "= %d %d ", rc, errno);
	if (rc == 0 && mode != 2) ob_printf(&out, "%lx", (unsigned long)(uintptr_t)res); else ob_putc(&out, '-');
	free(p);
}
/* PSETF <hroot> <pathhex> <hval>   json_pointer_setf("%s") */
static void cmd_psetf(int nt, char **t)
{
	int hr = hidx(t[1]), hv = hidx(t[3]); char *p = keyarg(t[2]); int rc; (void)nt;
	errno = vf_ambient_errno_v > 0 ? vf_ambient_errno_v : 0;
	{ static unsigned alt; size_t k = strlen(p) / 2; unsigned a = alt++ % 3;
	  rc = a == 1 ? json_pointer_setf(&H[hr], H[hv], "%.*s%s%s", (int)k, p, p + k, "") : a == 2 ? json_pointer_setf(&H[hr], H[hv], "%s%c/zz/0", p, 0) : json_pointer_setf(&H[hr], H[hv], "%s", p); }
	ob_printf(&out, "= %d %d", rc, errno); emit_dlog(); free(p);
}

/* PATCH <hdoc> <hpatch> <mode 0 in place | 1 copy_from> [hdst]  -> = <rc> <errno_code> <failure idx | -1> */
static void cmd_patch(int nt, char **t)
{
	int hd = hidx(t[1]), hp = hidx(t[2]); int mode = (int)L(t[3]); struct json_patch_error pe; int rc;
	memset(&pe, 0x5a, sizeof pe);
	/* a trailing "N": the caller is not interested in the details of a failure and passes no json_patch_error (documented as optional) */
	{ struct json_patch_error *pp = (nt > 4 && !strcmp(t[nt - 1], "N")) ? NULL : &pe;
	  if (mode == 0) rc = json_patch_apply(NULL, H[hp], &H[hd], pp);
	  else { int hx = hidx(t[4]); H[hx] = NULL; Hset[hx] = 1; rc = json_patch_apply(H[hd], H[hp], &H[hx], pp); }
	  if (!pp) { pe.errno_code = 0; pe.patch_failure_idx = (size_t)-2; } }
	ob_printf(&out, "= %d %d %ld", rc, pe.errno_code, pe.patch_failure_idx == (size_t)-1 ? -1L : (long)pe.patch_failure_idx);
	emit_dlog();
}

/* VISIT <h> <default code> <code for call 0> <code for call 1> ...
 *   -> = <ret> <ncalls> <ptr>,<flags>,<parent ptr>,<k<hex>|i<idx>|->,<returned code>;...  */
struct visit_sched { int n; char **codes; long deflt; int calls; };
/* a callback may itself traverse another tree: code tokens N<code> / M<code> run a nested json_c_visit (ending in an error / normally) before returning <code> */
static int nested_fn(json_object *jso, int flags, json_object *parent, const char *key, size_t *idx, void *arg)
{
	int *st = (int *)arg; (void)jso; (void)flags; (void)parent; (void)key; (void)idx;
	st[1]++;
	return (st[0] && st[1] == 2) ? JSON_C_VISIT_RETURN_ERROR : JSON_C_VISIT_RETURN_CONTINUE;
}
static void nested_visit(int fail)
{
	static struct json_object *tree; int st[2];
	if (!tree) { tree = json_object_new_array(); json_object_array_add(tree, json_object_new_int(1)); json_object_array_add(tree, json_object_new_object()); }
	st[0] = fail; st[1] = 0;
	(void)json_c_visit(tree, 0, nested_fn, st);
}
static int visit_fn(json_object *jso, int flags, json_object *parent, const char *key, size_t *idx, void *arg)
{
	struct visit_sched *vs = (struct visit_sched *)arg; const char *ct = vs->calls < vs->n ? vs->codes[vs->calls] : NULL; long code;
	if (ct && (ct[0] == 'N' || ct[0] == 'M')) { nested_visit(ct[0] == 'N'); ct++; }
	code = ct ? L(ct) : vs->deflt;
	if (vs->calls) ob_putc(&out, ';');
	ob_printf(&out, "%lx,%d,%lx,", (unsigned long)(uintptr_t)jso, flags, (unsigned long)(uintptr_t)parent);
	if (key) { ob_putc(&out, 'k'); ob_hex(&out, key, strlen(key)); } else if (idx) ob_printf(&out, "i%zu", *idx); else ob_putc(&out, '-');
	ob_printf(&out, ",%ld", code);
	vs->calls++;
	if (vs->calls > 100000) return JSON_C_VISIT_RETURN_ERROR;
	return (int)code;
}
static void cmd_visit(int nt, char **t)
{
	struct visit_sched vs; size_t mark; int ret; char head[64];
	vs.n = nt - 3; vs.codes = t + 3; vs.deflt = L(t[2]); vs.calls = 0;
	ob_puts(&out, "= ");
	mark = out.n;
	ret = json_c_visit(H[hidx(t[1])], 0, visit_fn, &vs);
	/* prepend ret and count: simplest is to append them at the end as a trailer */
	snprintf(head, sizeof head, " ret=%d calls=%d", ret, vs.calls);
	if (out.n == mark) ob_putc(&out, '-');
	ob_puts(&out, head);
}

/* ---------------- fd I/O (C20) ----------------
 * caps: comma-separated per-call transfer caps (cycled; 0 = uncapped); err_at: call index at which the shim fails the
 * read/write with <errno> (-1 = never).  The descriptor is a real memfd, so what is compared is what arrived there. */
extern void _json_c_set_last_err(const char *err_fmt, ...);
static int parse_caps(const char *t, int *caps)
{
	int n = 0; const char *p = t;
	while (*p && n < 256) { caps[n++] = (int)strtol(p, (char **)&p, 10); if (*p == ',') p++; else break; }
	return n;
}
static int scratch_fd(void)
{
	int fd = memfd_create("vf", 0);
	if (fd < 0) { char tmpl[] = "/dev/shm/vfXXXXXX"; fd = mkstemp(tmpl); if (fd >= 0) unlink(tmpl); }
	return fd;
}
/* FDW <h> <flags> <caps> <err_at> <errno> -> = rc=<> lasterr=<0|1> calls=<> inj=<> ser=<hex> got=<hex> */
static void cmd_fdw(int nt, char **t)
{
	int h = hidx(t[1]); int flags = (int)L(t[2]); int caps[256]; int nc = parse_caps(t[3], caps); int fd = scratch_fd(); int rc; const char *ser, *le; char *sercopy; size_t sl;
	struct obuf got = {0}; char buf[8192]; ssize_t k; (void)nt;
	ser = json_object_to_json_string_ext(H[h], flags); sl = ser ? strlen(ser) : 0; sercopy = (char *)malloc(sl + 1); memcpy(sercopy, ser ? ser : "", sl);
	_json_c_set_last_err("%s", "");
	vf_io_script(caps, nc, (int)L(t[4]), (int)L(t[5]));
	rc = json_object_to_fd(fd, H[h], flags);
	vf_io_off();
	le = json_util_get_last_err();
	lseek(fd, 0, SEEK_SET);
	while ((k = read(fd, buf, sizeof buf)) > 0) { ob_need(&got, (size_t)k); memcpy(got.b + got.n, buf, (size_t)k); got.n += (size_t)k; }
	close(fd);
	ob_printf(&out, "= rc=%d lasterr=%d calls=%ld inj=%ld ser=x", rc, le != NULL, vf_io_calls, vf_io_injected);
	ob_hex(&out, sercopy, sl); ob_puts(&out, " got=x"); ob_hex(&out, got.b ? got.b : "", got.n);
	free(got.b); free(sercopy);
}
/* FDR <depth|-1> <caps> <err_at> <errno> <hex> -> = fd=<nonnull> lasterr=<> calls=<> inj=<> fdd=<dump> | mem=<err> <dump> */
static void cmd_fdr(int nt, char **t)
{
	int depth = (int)L(t[1]); int caps[256]; int nc = parse_caps(t[2], caps); size_t n; unsigned char *b = unhex(t[5], &n); int fd = scratch_fd();
	struct json_object *o, *m; const char *le; struct json_tokener *tok; char *ex; ssize_t w; size_t off = 0; (void)nt;
	/* optional 6th argument: the document does not start at offset 0 of the file -- <prefix> bytes that are no JSON come first and the descriptor is handed over positioned behind them */
	{ long prefix = nt > 6 ? L(t[6]) : 0, i; for (i = 0; i < prefix; i++) if (write(fd, i % 2 ? "}" : "]", 1) != 1) break;
	  while (off < n && (w = write(fd, b + off, n - off)) > 0) off += (size_t)w;
	  lseek(fd, (off_t)prefix, SEEK_SET); }
	_json_c_set_last_err("%s", "");
	vf_io_script(caps, nc, (int)L(t[3]), (int)L(t[4]));
	o = depth == -1 ? json_object_from_fd(fd) : json_object_from_fd_ex(fd, depth);
	vf_io_off();
	le = json_util_get_last_err();
	close(fd);
	ob_printf(&out, "= fd=%d lasterr=%d calls=%ld inj=%ld fdd=", o != NULL, le != NULL, vf_io_calls, vf_io_injected);
	{ struct obuf tmp = {0}; if (o) dump_node(&tmp, o, 0); ob_printf(&out, "%016" PRIx64, o ? (uint64_t)tmp.n * 1000003u + crc32_buf((unsigned char *)tmp.b, tmp.n) : 0); free(tmp.b); }
	tok = depth == -1 ? json_tokener_new() : json_tokener_new_ex(depth);
	if (!tok) { ob_puts(&out, " | mem=notok 0"); json_object_put(o); free(b); return; }
	ex = exact_copy(b, n);
	m = json_tokener_parse_ex(tok, ex, (int)n);
	ob_printf(&out, " | mem=%d ", (int)json_tokener_get_error(tok));
	{ struct obuf tmp = {0}; if (m) dump_node(&tmp, m, 0); ob_printf(&out, "%016" PRIx64 " eq=%d", m ? (uint64_t)tmp.n * 1000003u + crc32_buf((unsigned char *)tmp.b, tmp.n) : 0, json_object_equal(o, m)); free(tmp.b); }
	json_object_put(m); json_object_put(o); json_tokener_free(tok); free(ex); free(b);
}
/* FIFO <delay ms> <hex>: json_object_from_file on a FIFO whose writer opens late and sends the text in two pieces with a pause -> = obj=<nonnull> eq=<equal to the in-memory parse> lasterr=<> */
static void cmd_fifo(int nt, char **t)
{
	size_t n; unsigned char *b = unhex(t[2], &n); long ms = L(t[1]); char path[64]; pid_t pid; struct json_object *o, *m; struct json_tokener *tok; char *ex; int st;
	(void)nt;
	snprintf(path, sizeof path, "/dev/shm/vf_fifo_%d", (int)getpid());
	unlink(path);
	if (mkfifo(path, 0600) != 0) { ob_puts(&out, "! mkfifo"); free(b); return; }
	pid = fork();
	if (pid == 0) {
		int fd; struct timespec ts; ts.tv_sec = 0; ts.tv_nsec = ms * 1000000L;
		nanosleep(&ts, NULL);
		fd = open(path, O_WRONLY);
		if (fd >= 0) { size_t h = n / 2; if (write(fd, b, h) < 0) _exit(1); nanosleep(&ts, NULL); if (write(fd, b + h, n - h) < 0) _exit(1); close(fd); }
		_exit(0);
	}
	_json_c_set_last_err("%s", "");
	o = json_object_from_file(path);
	waitpid(pid, &st, 0);
	unlink(path);
	tok = json_tokener_new(); ex = exact_copy(b, n + 1); ex[n] = 0;
	m = json_tokener_parse_ex(tok, ex, (int)n);   /* what arrives through a descriptor has no terminator: a text that is still "continue" at its end is an error there */
	if (json_tokener_get_error(tok) != json_tokener_success) { json_object_put(m); m = NULL; }
	ob_printf(&out, "= obj=%d mem=%d eq=%d lasterr=%d", o != NULL, m != NULL, (o && m) ? json_object_equal(o, m) : (o == NULL && m == NULL), json_util_get_last_err() != NULL);
	json_object_put(o); json_object_put(m); json_tokener_free(tok); free(ex); free(b);
}
/* FDF <pathhex> <mode 0 from_file nonexistent | 1 to_file_ext+from_file round trip of handle 0 with flags> [flags] [prefill bytes already in the file] [1 = json_object_to_file] */
static void cmd_fdf(int nt, char **t)
{
	char *path = keyarg(t[1]); int mode = (int)L(t[2]); long o0 = vf_open_calls, c0 = vf_close_calls; const char *le;
	_json_c_set_last_err("%s", "");
	if (mode == 0) {
		struct json_object *o = json_object_from_file(path);
		le = json_util_get_last_err();
		ob_printf(&out, "= obj=%d lasterr=%d opens=%ld closes=%ld", o != NULL, le != NULL, vf_open_calls - o0, vf_close_calls - c0);
		json_object_put(o);
	} else if (mode == 3) {
		/* no object: json_object_to_file[_ext](path, NULL) fails, and it fails before touching the file system */
		struct stat sb; int existed, rc, rc2;
		unlink(path); existed = stat(path, &sb) == 0;
		rc = json_object_to_file_ext(path, NULL, nt > 3 ? (int)L(t[3]) : 0); rc2 = json_object_to_file(path, NULL);
		ob_printf(&out, "= rc=%d rc2=%d created=%d lasterr=%d opens=%ld closes=%ld", rc, rc2, !existed && stat(path, &sb) == 0, json_util_get_last_err() != NULL, vf_open_calls - o0, vf_close_calls - c0);
		unlink(path);
	} else {
		int flags = nt > 3 ? (int)L(t[3]) : 0; long prefill = nt > 4 ? L(t[4]) : 0; int plain = nt > 5 ? (int)L(t[5]) : 0; int rc; struct json_object *o;
		int saved0 = -1;
		if (mode == 4) { saved0 = dup(0); close(0); }   /* a process without standard input: the next descriptor handed out is 0 */
		int raw_eq = -1; long fsize = -1; size_t wlen = 0; const char *want;
		if (prefill > 0) {  /* the path already holds an older, longer file (the harness's own open/write are not intercepted) */
			int fd = open(path, O_WRONLY | O_CREAT | O_TRUNC, 0644); char blk[512]; long left = prefill; memset(blk, 'Z', sizeof blk);
			while (fd >= 0 && left > 0) { ssize_t w = write(fd, blk, left > 512 ? 512 : (size_t)left); if (w <= 0) break; left -= w; }
			if (fd >= 0) close(fd);
			o0 = vf_open_calls; c0 = vf_close_calls;
		}
		rc = plain ? json_object_to_file(path, H[0]) : json_object_to_file_ext(path, H[0], flags);
		{ /* what is in the file now, byte for byte, against the serialization */
			int fd = open(path, O_RDONLY); struct obuf got = {0}; char blk[4096]; ssize_t r;
			want = json_object_to_json_string_length(H[0], plain ? JSON_C_TO_STRING_PLAIN : flags, &wlen);
			if (fd >= 0) { while ((r = read(fd, blk, sizeof blk)) > 0) { ob_need(&got, (size_t)r); memcpy(got.b + got.n, blk, (size_t)r); got.n += (size_t)r; } close(fd); fsize = (long)got.n; raw_eq = want && got.n == wlen && !memcmp(got.b ? got.b : "", want, wlen); }
			free(got.b);
		}
		o = json_object_from_file(path);
		le = json_util_get_last_err();
		ob_printf(&out, "= rc=%d obj=%d eq=%d lasterr=%d opens=%ld closes=%ld raw_eq=%d fsize=%ld want=%zu", rc, o != NULL, json_object_equal(o, H[0]), le != NULL, vf_open_calls - o0, vf_close_calls - c0, raw_eq, fsize, wlen);
		json_object_put(o); unlink(path);
		if (mode == 4 && saved0 >= 0) { dup2(saved0, 0); close(saved0); }
	}
	free(path);
}

/* ---------------- locale (C14) ----------------
 * LOC <0 C everywhere | 1 global comma locale | 2 per-thread comma locale | 3 both>
 * LP <flags> <depth> <mode 0 len=n | 1 len=n+1 | 2 len=-1 | 3 len=-2> <hex>   parse with locale monitors
 * LS <h> <flags>                                                              serialize with locale monitors
 */
static locale_t my_thread_locale;
static int cur_locmode;
static int apply_loc(int mode)
{
	const char *g;
	uselocale(LC_GLOBAL_LOCALE);
	if (my_thread_locale) { freelocale(my_thread_locale); my_thread_locale = (locale_t)0; }
	g = setlocale(LC_ALL, (mode & 1) ? "xx_XX" : "C");
	if (mode & 2) {
		my_thread_locale = newlocale(LC_ALL_MASK, "xx_XX", (locale_t)0);
		if (!my_thread_locale) return 0;
		uselocale(my_thread_locale);
	}
	return g != NULL;
}
static void cmd_loc(int nt, char **t)
{
	int mode = (int)L(t[1]); const char *g; (void)nt;
	cur_locmode = mode;
	uselocale(LC_GLOBAL_LOCALE);
	if (my_thread_locale) { freelocale(my_thread_locale); my_thread_locale = (locale_t)0; }
	g = setlocale(LC_ALL, (mode & 1) ? "xx_XX" : "C");
	if (mode & 2) {
		my_thread_locale = newlocale(LC_ALL_MASK, "xx_XX", (locale_t)0);
		if (!my_thread_locale) { ob_puts(&out, "= fail newlocale"); return; }
		uselocale(my_thread_locale);
	}
	{ char b[32]; snprintf(b, sizeof b, "%.1f", 1.5); ob_printf(&out, "= %s fmt=%s", g ? "ok" : "fail", b); }
}
struct locobs { locale_t h; char fmt[32]; double sd; long live, created, freed, foreign; };
static void loc_observe(struct locobs *o)
{
	o->h = uselocale((locale_t)0);
	snprintf(o->fmt, sizeof o->fmt, "%.1f|%g", 1.5, 1234567.25);
	o->sd = strtod("1,5", NULL);
	o->live = vf_loc_live; o->created = vf_loc_created; o->freed = vf_loc_freed; o->foreign = vf_loc_foreign_free;
}
static void loc_report(const struct locobs *a, const struct locobs *b)
{
	ob_printf(&out, " | loc_same=%d fmt_same=%d strtod_same=%d loc_live=%ld created=%ld freed=%ld foreign=%ld", a->h == b->h, !strcmp(a->fmt, b->fmt), a->sd == b->sd,
	          b->live - a->live, b->created - a->created, b->freed - a->freed, b->foreign - a->foreign);
}
static void cmd_lp(int nt, char **t)
{
	size_t n; unsigned char *b; char *buf; struct json_tokener *tok; struct json_object *o; struct locobs x, y; int flags = (int)L(t[1]), depth = (int)L(t[2]), mode = (int)L(t[3]); (void)nt;
	b = unhex(t[4], &n);
	tok = depth > 0 ? json_tokener_new_ex(depth) : json_tokener_new();
	json_tokener_set_flags(tok, flags);
	buf = exact_copy(b, n + 1); buf[n] = 0;
	loc_observe(&x);
	o = json_tokener_parse_ex(tok, buf, mode == 0 ? (int)n : mode == 1 ? (int)n + 1 : mode == 2 ? -1 : -2);
	loc_observe(&y);
	emit_parse_result(tok, o);
	loc_report(&x, &y);
	json_object_put(o); json_tokener_free(tok); free(buf); free(b);
}
/* LPT <flags> <depth> <mode> <hex> <warm 0|1>: like LP, but the tokener is OLDER than the locale: it is created (and, with warm, used for one document) while the
 * "C" locale is in effect everywhere, then the configuration chosen by the last LOC is installed, then the text is parsed */
static void cmd_lpt(int nt, char **t)
{
	size_t n; unsigned char *b; char *buf; struct json_tokener *tok; struct json_object *o; struct locobs x, y; int flags = (int)L(t[1]), depth = (int)L(t[2]), mode = (int)L(t[3]); int saved = cur_locmode;
	b = unhex(t[4], &n);
	apply_loc(0);
	tok = depth > 0 ? json_tokener_new_ex(depth) : json_tokener_new();
	json_tokener_set_flags(tok, flags);
	if (nt > 5 && L(t[5])) { o = json_tokener_parse_ex(tok, "[0.5]", 6); json_object_put(o); }
	if (!apply_loc(saved)) { ob_puts(&out, "! locale"); json_tokener_free(tok); free(b); return; }
	buf = exact_copy(b, n + 1); buf[n] = 0;
	loc_observe(&x);
	o = json_tokener_parse_ex(tok, buf, mode == 0 ? (int)n : mode == 1 ? (int)n + 1 : mode == 2 ? -1 : -2);
	loc_observe(&y);
	emit_parse_result(tok, o);
	loc_report(&x, &y);
	json_object_put(o); json_tokener_free(tok); free(buf); free(b);
}
/* LPBIG: a NUL-terminated text of more than INT32_MAX bytes handed over with len = -1 (the one way to reach the "text too long" outcome with a real text), with the locale monitors */
static void cmd_lpbig(int nt, char **t)
{
	size_t n = (size_t)INT32_MAX + 64; char *buf = (char *)malloc(n + 1); struct json_tokener *tok; struct json_object *o; struct locobs x, y; (void)nt; (void)t;
	if (!buf) { ob_puts(&out, "= nomem"); return; }
	memset(buf, ' ', n); memcpy(buf, "[1.5,2.25]", 10); buf[n] = 0;
	vf_progress++;
	tok = json_tokener_new();
	loc_observe(&x);
	o = json_tokener_parse_ex(tok, buf, -1);
	loc_observe(&y);
	emit_parse_result(tok, o);
	loc_report(&x, &y);
	json_object_put(o); json_tokener_free(tok); free(buf);
}
/* DFMT <0 global | 1 thread> <hex format | ->   json_c_set_serialization_double_format;  SERFMT <h> <hex format>: per-node format */
static void cmd_dfmt(int nt, char **t)
{
	char *f = (nt > 2 && t[2][0] != '-') ? keyarg(t[2]) : NULL; int rc = json_c_set_serialization_double_format(f, L(t[1]) ? JSON_C_OPTION_THREAD : JSON_C_OPTION_GLOBAL);
	ob_printf(&out, "= %d", rc); free(f);
}
static void serfmt_rec(struct json_object *o, const char *f)
{
	if (!o) return;
	if (json_object_is_type(o, json_type_double)) json_object_set_serializer(o, json_object_double_to_json_string, strdup(f), json_object_free_userdata);
	else if (json_object_is_type(o, json_type_array)) { size_t i, n = json_object_array_length(o); for (i = 0; i < n; i++) serfmt_rec(json_object_array_get_idx(o, i), f); }
	else if (json_object_is_type(o, json_type_object)) { json_object_object_foreach(o, k, v) { (void)k; serfmt_rec(v, f); } }
}
static void cmd_serfmt(int nt, char **t) { char *f = keyarg(t[2]); (void)nt; serfmt_rec(H[hidx(t[1])], f); free(f); ob_puts(&out, "= ok"); }
/* LPC <flags> <depth> <chunk> <hex>   incremental parse (chunks of <chunk> bytes, then the terminating NUL) with the locale
 * monitors around EVERY call; reports the final outcome and the AND of the per-call monitors */
static void cmd_lpc(int nt, char **t)
{
	size_t n, off = 0; unsigned char *b; struct json_tokener *tok; struct json_object *o = NULL; int flags = (int)L(t[1]), depth = (int)L(t[2]); size_t chunk = (size_t)L(t[3]);
	int same = 1, fmt = 1, sd = 1; long live = 0, foreign = 0, created = 0, freed = 0; int last_strlen = 0; (void)nt;
	b = unhex(t[4], &n);
	tok = depth > 0 ? json_tokener_new_ex(depth) : json_tokener_new();
	json_tokener_set_flags(tok, flags);
	if (L(t[3]) < 0) { chunk = (size_t)(-L(t[3])); last_strlen = 1; }   /* negative chunk: the LAST piece is handed over NUL-terminated with len = -1 */
	if (chunk < 1) chunk = 1;
	while (off < n + 1) {
		size_t len = chunk; char *buf; struct locobs x, y;
		if (len > n + 1 - off) len = n + 1 - off;
		buf = exact_copy(b + off, len);   /* b has n bytes + a NUL */
		loc_observe(&x);
		o = json_tokener_parse_ex(tok, buf, (last_strlen && off + len == n + 1) ? -1 : (int)len);
		loc_observe(&y);
		free(buf);
		same &= x.h == y.h; fmt &= !strcmp(x.fmt, y.fmt); sd &= x.sd == y.sd;
		live += y.live - x.live; foreign += y.foreign - x.foreign; created += y.created - x.created; freed += y.freed - x.freed;
		off += len;
		if (json_tokener_get_error(tok) != json_tokener_continue) break;
	}
	emit_parse_result(tok, o);
	ob_printf(&out, " | loc_same=%d fmt_same=%d strtod_same=%d loc_live=%ld created=%ld freed=%ld foreign=%ld", same, fmt, sd, live, created, freed, foreign);
	json_object_put(o); json_tokener_free(tok); free(b);
}
static void cmd_ls(int nt, char **t)
{
	int h = hidx(t[1]); int flags = (int)L(t[2]); size_t len = 0; const char *sx; struct locobs x, y; (void)nt;
	loc_observe(&x);
	sx = json_object_to_json_string_length(H[h], flags, &len);
	loc_observe(&y);
	ob_puts(&out, "= x"); if (sx) ob_hex(&out, sx, len); else ob_puts(&out, "NULL");
	loc_report(&x, &y);
}

/* ---- strings (C11) ---- */
/* SSTR <h> <hex> [lenoverride]   json_object_set_string_len from an exact-size block;  SSTRZ: json_object_set_string */
static void cmd_sstr(int nt, char **t)
{
	int h = hidx(t[1]); size_t n; unsigned char *x = unhex(nt > 2 ? t[2] : "x", &n); char *e = exact_copy(x, n); int r;
	int len = nt > 3 ? (int)LL(t[3]) : (int)n;
	r = json_object_set_string_len(H[h], e, len);
	free(e); free(x);
	ob_printf(&out, "= %d", r);
}
static void cmd_sstrz(int nt, char **t)
{
	int h = hidx(t[1]); size_t n; unsigned char *x = unhex(nt > 2 ? t[2] : "x", &n); char *e = exact_copy(x, n + 1); int r;
	e[n] = 0; r = json_object_set_string(H[h], e); free(e); free(x);
	ob_printf(&out, "= %d", r);
}
/* SSTRP <h> <len> <seed>   json_object_set_string_len with <len> pattern bytes ((seed + 7i) & 0xff), from an exact-size block (big strings without big scripts) */
static void cmd_sstrp(int nt, char **t)
{
	int h = hidx(t[1]); size_t n = (size_t)LL(t[2]), i; unsigned sd = (unsigned)L(t[3]); unsigned char *e = (unsigned char *)malloc(n ? n : 1); int r;
	(void)nt;
	for (i = 0; i < n; i++) e[i] = (unsigned char)((sd + i * 7) & 0xFF);
	r = json_object_set_string_len(H[h], (char *)e, (int)n);
	free(e);
	ob_printf(&out, "= %d", r);
}
/* GSTRC <h> -> = <len> <crc32 of bytes[0..len)> term=<byte at len> strlen=<strlen of get_string> */
static void cmd_gstrc(int nt, char **t)
{
	struct json_object *o = H[hidx(t[1])]; int n = json_object_get_string_len(o); const char *p = json_object_get_string(o); (void)nt;
	ob_printf(&out, "= %d %u term=%d", n, crc32_buf((const unsigned char *)p, (size_t)n), (int)(unsigned char)p[n]);
}
/* SSELF <h> <n>   json_object_set_string_len(o, json_object_get_string(o), n): the node's own bytes handed back to it (truncation in place) */
static void cmd_sself(int nt, char **t)
{
	int h = hidx(t[1]); int r;
	r = json_object_set_string_len(H[h], json_object_get_string(H[h]) + (nt > 3 ? LL(t[3]) : 0), (int)LL(t[2]));   /* optional offset: a later, non-overlapping part of the own bytes */
	ob_printf(&out, "= %d", r);
}
/* GSTR <h> -> = <len> <hex bytes[0..len)> term=<byte at len> */
static void cmd_gstr(int nt, char **t)
{
	struct json_object *o = H[hidx(t[1])]; int n = json_object_get_string_len(o); const char *p = json_object_get_string(o); (void)nt;
	ob_printf(&out, "= %d x", n); ob_hex(&out, p, (size_t)n); ob_printf(&out, " term=%d", (int)(unsigned char)p[n]);
}
/* FAILNEXT <k>   fail the k-th allocation from now (0 = disarm) */
static void cmd_failnext(int nt, char **t) { long k = L(t[1]); (void)nt; if (k > 0) vf_arm((unsigned long)k, 0); else vf_disarm(); ob_printf(&out, "= fired=%d", vf_faults_fired); }

/* ---- equality / copy (C09) ---- */
static void cmd_eq(int nt, char **t) { (void)nt; ob_printf(&out, "= %d", json_object_equal(H[hidx(t[1])], H[hidx(t[2])])); }
static long copy_uid_next;
static long copy_fail_at, copy_calls; static int copy_mode;
static int tracking_shallow_copy(json_object *src, json_object *parent, const char *key, size_t index, json_object **dst)
{
	if (copy_fail_at > 0 && ++copy_calls == copy_fail_at) return -1;   /* a callback that gives up on its k-th node, without touching *dst */
	int rc = json_c_shallow_copy_default(src, parent, key, index, dst);
	/* mode 3: "I have dealt with this node's serializer data myself" (return 2) for every node that has none -- containers included, whose children are still the library's job */
	if (copy_mode == 3) return (rc == 1 && *dst && !json_object_get_userdata(src)) ? 2 : rc;
	if (rc >= 1 && *dst && uid_of(src) > 0 && json_object_get_type(src) != json_type_double) { json_object_set_userdata(*dst, (void *)(intptr_t)(copy_uid_next++), del_cb); return 2; }
	return rc;
}
/* DCOPY <hsrc> <hdst> <mode 0 default | 1 tracking> [first uid] -> = <rc> <errno> */
static void cmd_dcopy(int nt, char **t)
{
	int hs = hidx(t[1]), hd = hidx(t[2]); int mode = (int)L(t[3]); struct json_object *d = NULL; int rc;
	if (nt > 4) copy_uid_next = L(t[4]);
	copy_fail_at = (mode == 2 && nt > 5) ? L(t[5]) : 0; copy_calls = 0; copy_mode = mode;
	errno = 0;
	rc = json_object_deep_copy(H[hs], &d, mode ? tracking_shallow_copy : NULL);
	copy_fail_at = 0;
	H[hd] = d; Hset[hd] = 1;
	ob_printf(&out, "= %d %d", rc, errno); emit_dlog();
}
/* PTRS <h> -> all node pointers of the tree (sorted not needed) */
static void ptrs_rec(struct json_object *o)
{
	if (!o) return;
	ob_printf(&out, " %lx", (unsigned long)(uintptr_t)o);
	if (json_object_is_type(o, json_type_array)) { size_t i, n = json_object_array_length(o); for (i = 0; i < n; i++) ptrs_rec(json_object_array_get_idx(o, i)); }
	else if (json_object_is_type(o, json_type_object)) { json_object_object_foreach(o, k, v) { (void)k; ptrs_rec(v); } }
}
static void cmd_ptrs(int nt, char **t) { (void)nt; ob_puts(&out, "="); ptrs_rec(H[hidx(t[1])]); }
/* SCRAMBLE <h>: change every scalar of the tree in place through the setters (a tree that shares a node with another tree gives itself away) -> = <n changed> */
static long scramble_ctr;
static long scramble_rec(struct json_object *o)
{
	long n = 0;
	if (!o) return 0;
	switch (json_object_get_type(o)) {
	case json_type_array: { size_t i, k = json_object_array_length(o); for (i = 0; i < k; i++) n += scramble_rec(json_object_array_get_idx(o, i)); break; }
	case json_type_object: { json_object_object_foreach(o, key, v) { (void)key; n += scramble_rec(v); } break; }
	/* every scalar visited gets a value made from a running number: a node reachable through two places shows the LATER number at both */
	case json_type_int: json_object_set_int64(o, 1000 + scramble_ctr++); n++; break;
	case json_type_double: json_object_set_double(o, 0.5 + (double)(1000 + scramble_ctr++)); n++; break;
	case json_type_boolean: json_object_set_boolean(o, (int)((1000 + scramble_ctr++) & 1)); n++; break;
	case json_type_string: { char b[64]; snprintf(b, sizeof b, "scrambled-by-the-driver-%ld------------------", 1000 + scramble_ctr++); json_object_set_string(o, b); n++; break; }
	default: break;
	}
	return n;
}
static void cmd_scramble(int nt, char **t) { (void)nt; scramble_ctr = 0; ob_printf(&out, "= %ld", scramble_rec(H[hidx(t[1])])); }
/* ORESIZE <hobj> <n>: lh_table_resize on the object's own table (public API; any size >= the number of members) */
static void cmd_oresize(int nt, char **t) { struct lh_table *tb = json_object_get_object(H[hidx(t[1])]); int n = (int)L(t[2]); (void)nt; if (n < 2 * tb->count + 2) n = 2 * tb->count + 2;   /* (a size below the load factor makes lh_table_resize grow the new table behind its own back and record the wrong size: a defect of that entry point, but not one of json objects) */
	ob_printf(&out, "= %d", lh_table_resize(tb, n)); }
/* NAV <hroot> <hdst> <step>...   step: k<hex> or i<idx>; borrowed pointer */
static void cmd_nav(int nt, char **t)
{
	struct json_object *o = H[hidx(t[1])]; int i, hd = hidx(t[2]);
	for (i = 3; i < nt && o; i++) {
		if (t[i][0] == 'k') { char *k = keyarg(t[i]); struct json_object *v = NULL; json_object_object_get_ex(o, k, &v); free(k); o = v; }
		else o = json_object_array_get_idx(o, (size_t)strtoull(t[i] + 1, NULL, 10));
	}
	H[hd] = o; Hset[hd] = 1;
	ob_printf(&out, "= %d", o != NULL);
}

/* PUT <h> -> = <ret> del=..   (handle is cleared) */
static void cmd_put(int nt, char **t)
{
	int h = hidx(t[1]); int r;
	(void)nt;
	vf_freelog_reset();
	r = json_object_put(H[h]);
	H[h] = NULL; Hset[h] = 0;
	ob_printf(&out, "= %d", r);
	emit_dlog();
}

/* ---------------- main loop ---------------- */
static void dispatch(int nt, char **t)
{
	const char *c = t[0];
	if (!strcmp(c, "P")) cmd_parse(nt, t);
	else if (!strcmp(c, "PD")) cmd_parse_depth(nt, t);
	else if (!strcmp(c, "PM")) cmd_parse_many(nt, t);
	else if (!strcmp(c, "PV")) cmd_parse_verbose(nt, t);
	else if (!strcmp(c, "TN")) cmd_toknew(nt, t);
	else if (!strcmp(c, "B")) cmd_build(nt, t);
	else if (!strcmp(c, "D")) cmd_dump(nt, t);
	else if (!strcmp(c, "S")) cmd_ser(nt, t);
	else if (!strcmp(c, "S64")) cmd_ser64(nt, t);
	else if (!strcmp(c, "NEW")) cmd_new(nt, t);
	else if (!strcmp(c, "UD")) cmd_ud(nt, t);
	else if (!strcmp(c, "SS")) cmd_ss(nt, t);
	else if (!strcmp(c, "GET")) cmd_get(nt, t);
	else if (!strcmp(c, "GETN")) cmd_getn(nt, t);
	else if (!strcmp(c, "KSCR")) { vf_interned_scramble((int)L(t[1])); ob_puts(&out, "= ok"); }
	else if (!strcmp(c, "PUTN")) cmd_putn(nt, t);
	else if (!strcmp(c, "ALIAS")) cmd_alias(nt, t);
	else if (!strcmp(c, "OADD")) cmd_oadd(nt, t);
	else if (!strcmp(c, "ODEL")) cmd_odel(nt, t);
	else if (!strcmp(c, "OGET")) cmd_oget(nt, t);
	else if (!strcmp(c, "OLEN")) cmd_olen(nt, t);
	else if (!strcmp(c, "OLADD")) cmd_oladd(nt, t);
	else if (!strcmp(c, "OLONGRUN")) cmd_olongrun(nt, t);
	else if (!strcmp(c, "OLDEL")) cmd_oldel(nt, t);
	else if (!strcmp(c, "OLGET")) cmd_olget(nt, t);
	else if (!strcmp(c, "OKEYS")) cmd_okeys(nt, t);
	else if (!strcmp(c, "OSER")) cmd_oser(nt, t);
	else if (!strcmp(c, "OITDEL")) cmd_oitdel(nt, t);
	else if (!strcmp(c, "UIDS")) cmd_uids(nt, t);
	else if (!strcmp(c, "PSET")) cmd_pset(nt, t);
	else if (!strcmp(c, "PGET")) cmd_pget(nt, t);
	else if (!strcmp(c, "PATCH")) cmd_patch(nt, t);
	else if (!strcmp(c, "VISIT")) cmd_visit(nt, t);
	else if (!strcmp(c, "LOC")) cmd_loc(nt, t);
	else if (!strcmp(c, "LP")) cmd_lp(nt, t);
	else if (!strcmp(c, "LS")) cmd_ls(nt, t);
	else if (!strcmp(c, "LPC")) cmd_lpc(nt, t);
	else if (!strcmp(c, "LPT")) cmd_lpt(nt, t);
	else if (!strcmp(c, "LPBIG")) cmd_lpbig(nt, t);
	else if (!strcmp(c, "DFMT")) cmd_dfmt(nt, t);
	else if (!strcmp(c, "SERFMT")) cmd_serfmt(nt, t);
	else if (!strcmp(c, "FDW")) cmd_fdw(nt, t);
	else if (!strcmp(c, "FDR")) cmd_fdr(nt, t);
	else if (!strcmp(c, "FDF")) cmd_fdf(nt, t);
	else if (!strcmp(c, "FIFO")) cmd_fifo(nt, t);
	else if (!strcmp(c, "PSETF")) cmd_psetf(nt, t);
	else if (!strcmp(c, "HASHFN")) cmd_hashfn(nt, t);
	else if (!strcmp(c, "HASH")) cmd_hash(nt, t);
	else if (!strcmp(c, "AADD")) cmd_aadd(nt, t);
	else if (!strcmp(c, "APUT")) cmd_aput(nt, t);
	else if (!strcmp(c, "AINS")) cmd_ains(nt, t);
	else if (!strcmp(c, "ADEL")) cmd_adel(nt, t);
	else if (!strcmp(c, "ASHRINK")) cmd_ashrink(nt, t);
	else if (!strcmp(c, "AGET")) cmd_aget(nt, t);
	else if (!strcmp(c, "ADUMP")) cmd_adump(nt, t);
	else if (!strcmp(c, "ASUM")) cmd_asum(nt, t);
	else if (!strcmp(c, "ASORT")) cmd_asort(nt, t);
	else if (!strcmp(c, "ASETV")) cmd_asetv(nt, t);
	else if (!strcmp(c, "ALADD")) cmd_aladd(nt, t);
	else if (!strcmp(c, "ABS")) cmd_abs(nt, t);
	else if (!strcmp(c, "SSTR")) cmd_sstr(nt, t);
	else if (!strcmp(c, "SSTRZ")) cmd_sstrz(nt, t);
	else if (!strcmp(c, "GSTR")) cmd_gstr(nt, t);
	else if (!strcmp(c, "SSTRP")) cmd_sstrp(nt, t);
	else if (!strcmp(c, "SSELF")) cmd_sself(nt, t);
	else if (!strcmp(c, "SSER")) { int r = json_object_set_string(H[hidx(t[1])], json_object_to_json_string_ext(H[hidx(t[1])], 0)); ob_printf(&out, "= %d", r); }   /* the node's own serialization (text the node itself hands out) as the new contents */
	else if (!strcmp(c, "GSTRC")) cmd_gstrc(nt, t);
	else if (!strcmp(c, "FAILNEXT")) cmd_failnext(nt, t);
	else if (!strcmp(c, "EQ")) cmd_eq(nt, t);
	else if (!strcmp(c, "DCOPY")) cmd_dcopy(nt, t);
	else if (!strcmp(c, "PTRS")) cmd_ptrs(nt, t);
	else if (!strcmp(c, "NAV")) cmd_nav(nt, t);
	else if (!strcmp(c, "SCRAMBLE")) cmd_scramble(nt, t);
	else if (!strcmp(c, "ORESIZE")) cmd_oresize(nt, t);
	else if (!strcmp(c, "PB")) cmd_pb(nt, t);
	else if (!strcmp(c, "PBGIANT")) cmd_pbgiant(nt, t);
	else if (!strcmp(c, "NUM")) cmd_num(nt, t);
	else if (!strcmp(c, "NUMS")) cmd_nums(nt, t);
	else if (!strcmp(c, "SET")) cmd_set(nt, t);
	else if (!strcmp(c, "INC")) cmd_inc(nt, t);
	else if (!strcmp(c, "PUT")) cmd_put(nt, t);
	else ob_printf(&out, "! unknown command %s", c);
}

static int flush_each;
int main(int argc, char **argv)
{
	flush_each = getenv("VF_FLUSH") != NULL;
	vf_watchdog_init();
	char *line = NULL; size_t cap = 0; ssize_t k;
	FILE *in = stdin;
	if (argc > 1) { in = fopen(argv[1], "r"); if (!in) { perror(argv[1]); return 3; } }
	if (argc > 2) { if (!freopen(argv[2], "w", stdout)) { perror(argv[2]); return 3; } }
	setvbuf(stdout, NULL, _IOFBF, 1 << 16);
	while ((k = getline(&line, &cap, in)) > 0) {
		int nt = split_tokens(line, &tokv, &tokcap);
		if (nt == 0) continue;
		if (!strcmp(tokv[0], "CASE")) {
			int i;
			for (i = 0; i < NT; i++) if (T[i]) { json_tokener_free(T[i]); T[i] = NULL; }
			vf_interned_scramble(0);
			release_all();
			dlog_n = 0;
			vf_disarm();
			base_live = vf_live_blocks;
			base_serial = vf_next_serial();
			vf_bad_frees = 0;
			ob_printf(&out, "C %s\n", nt > 1 ? tokv[1] : "?");
			flush_out();
			continue;
		}
		if (!strcmp(tokv[0], "END")) {
			int i;
			for (i = 0; i < NT; i++) if (T[i]) { json_tokener_free(T[i]); T[i] = NULL; }
			if (PB) { printbuf_free(PB); PB = NULL; }
			ob_printf(&out, "E live=%ld bad=%ld loc=%ld", vf_live_blocks - base_live, vf_bad_frees, vf_loc_live);
			if (vf_live_blocks - base_live > 0) {
				const void *p, *site; size_t sz;
				if (vf_live_since(base_serial, &p, &sz, &site)) ob_printf(&out, " leak_size=%zu", sz);
			}
			ob_putc(&out, '\n');
			if (out.n > (1 << 15)) flush_out();
			continue;
		}
		vf_progress++;
		vf_ambient_errno();
		dispatch(nt, tokv);
		ob_putc(&out, '\n');
		if (flush_each || out.n > (1 << 15)) flush_out();
	}
	flush_out();
	return 0;
}

/* faultdrv — fault enumeration (C08): fail allocation k, for every k of every workload.
 *
 *   L                       list workloads:  "= <n> name0 name1 ..."
 *   W <w> <k0> <k1> [k2off]  run workload w fault-free (reference), then with allocation k failed for k = k0..k1
 *                           (k1 = 0: up to the number of allocations of the fault-free run); k2off > 0 adds a second
 *                           failure at k + k2off (double faults).
 * per workload:  "R <w> <name> allocs=<N> res=<crc> len=<n>"
 * per fault pt:  "K <w> <k>" (flushed BEFORE arming, so a crash names its fault point), then
 *                "F <w> <k> fired=<n> site=<hex> kind=<malloc..> out=<normal|failure> v=<ok | facet[:detail]>"
 * The oracle is differential against the fault-free run of the same workload in the same process, plus the
 * allocation ledger (conservation), before/after dumps of objects the caller owns, and continued use of every
 * object the failed call touched (so dangling pointers left by an error path are dereferenced under ASan).
 */
#include "vf_common.h"
#include "vf_shim.h"
#include <fcntl.h>
#include <locale.h>

extern void _json_c_set_last_err(const char *err_fmt, ...);

static struct obuf out;
static char **tokv; static int tokcap;

struct ctx {
	unsigned long k, k2;       /* 0 = fault-free */
	int param;
	struct obuf res;           /* canonical description of the NORMAL result */
	int failed;                /* the operation reported failure through its documented channel */
	char bad[200];             /* first violated facet, empty = none */
	unsigned long nalloc; int fired;
	/* objects the caller owns and that must survive unchanged */
	struct json_object *keep[8]; struct obuf keepdump[8]; int nkeep;
};

static void bad(struct ctx *c, const char *fmt, ...)
{
	va_list ap;
	if (c->bad[0]) return;
	va_start(ap, fmt); vsnprintf(c->bad, sizeof c->bad, fmt, ap); va_end(ap);
}
static void ARM(struct ctx *c) { vf_arm(c->k, c->k2); }
static void DISARM(struct ctx *c) { c->nalloc = vf_alloc_seq; c->fired = vf_faults_fired; vf_disarm(); }
static void keep(struct ctx *c, struct json_object *o)
{
	c->keep[c->nkeep] = o; c->keepdump[c->nkeep].n = 0; dump_node(&c->keepdump[c->nkeep], o, 0); c->nkeep++;
}
static void check_keeps(struct ctx *c)
{
	int i; struct obuf d = {0};
	for (i = 0; i < c->nkeep; i++) {
		ob_reset(&d); dump_node(&d, c->keep[i], 0);
		if (d.n != c->keepdump[i].n || memcmp(d.b, c->keepdump[i].b, d.n)) bad(c, "caller-owned-object-changed:%d", i);
		/* it must also still serialize (touches every node) */
		if (c->keep[i] && !json_object_to_json_string_ext(c->keep[i], 0)) bad(c, "caller-owned-object-unusable:%d", i);
	}
	free(d.b);
}
static void put_keeps(struct ctx *c, int expect_freed)
{
	int i;
	for (i = 0; i < c->nkeep; i++) { int r = json_object_put(c->keep[i]); if (c->keep[i] && expect_freed && r != 1) bad(c, "reference-stolen-or-added:%d", i); free(c->keepdump[i].b); c->keepdump[i].b = NULL; c->keepdump[i].n = c->keepdump[i].cap = 0; }
	c->nkeep = 0;
}
static struct json_object *P(const char *s) { return json_tokener_parse(s); }
static void res_obj(struct ctx *c, struct json_object *o) { dump_node(&c->res, o, 0); }

/* ---------------- documents ---------------- */
static const char *DOCS[] = {
	"{\"a\":[1,2.5,\"str\\u00e9\",true,null,{\"b\":{}}],\"c\":\"x\"}",
	"[\"aaaaaaaaaaaaaaaaaaaaaaaaaaaaaaaaaaaaaaaaaaaaaaaaaaaaaaaaaaaaaaaaaaaaaaaaaaaaaaaaaaaaaaaaaaaaaaaaaaaaaaaaaaaaaaaaaaaaaaaaaaaaaaaaaaaaaaaaaaaaaaaaaaaaaaaaaaaaaaaaaaaaaaaaaaaaaaaaaaaaaaaaaaaaaaaaaaaaaaaa\"]",
	"[1,2,3,4,5,6,7,8,9,10,11,12,13,14,15,16,17,18,19,20,21,22,23,24,25,26,27,28,29,30,31,32,33,34,35,36,37,38,39,40]",
	"{\"k1\":1,\"k2\":2,\"k3\":3,\"k4\":4,\"k5\":5,\"k6\":6,\"k7\":7,\"k8\":8,\"k9\":9,\"k10\":10,\"k11\":11,\"k12\":12,\"k13\":13,\"k14\":14,\"k15\":15,\"k16\":16,\"k17\":17,\"k18\":18,\"k19\":19,\"k20\":20,\"k21\":21,\"k22\":22,\"k23\":23,\"k24\":24}",
	"[[[[[[[[[[{\"deep\":[1]}]]]]]]]]]]",
	"[1.5,2.25e3,-0.125,1e-7,123456789.123456789,18446744073709551615,-9223372036854775808]",
	"/* c */ {'a' : 'b', /* x */ \"n\": [NaN, Infinity, -Infinity, TRUE, nUlL,],} // tail\n",
	"{\"\\ud83d\\ude00\":\"\\u0000\\n\\t\\\"\\\\\\/\",\"dup\":1,\"dup\":{\"x\":[[],{}]}}",
	"{\"member_number_0\":[0,\"value 0\"],\"member_number_1\":[1,\"value 1\"],\"member_number_2\":[2,\"value 2\"],\"member_number_3\":[3,\"value 3\"],\"member_number_4\":[4,\"value 4\"],\"member_number_5\":[5,\"value 5\"],\"member_number_6\":[6,\"value 6\"],\"member_number_7\":[7,\"value 7\"],\"member_number_8\":[8,\"value 8\"],\"member_number_9\":[9,\"value 9\"],\"member_number_10\":[10,\"value 10\"],\"member_number_11\":[11,\"value 11\"],\"member_number_12\":[12,\"value 12\"],\"member_number_13\":[13,\"value 13\"],\"member_number_14\":[14,\"value 14\"],\"member_number_15\":[15,\"value 15\"],\"member_number_16\":[16,\"value 16\"],\"member_number_17\":[17,\"value 17\"],\"member_number_18\":[18,\"value 18\"],\"member_number_19\":[19,\"value 19\"],\"member_number_20\":[20,\"value 20\"],\"member_number_21\":[21,\"value 21\"],\"member_number_22\":[22,\"value 22\"],\"member_number_23\":[23,\"value 23\"],\"member_number_24\":[24,\"value 24\"],\"member_number_25\":[25,\"value 25\"],\"member_number_26\":[26,\"value 26\"],\"member_number_27\":[27,\"value 27\"],\"member_number_28\":[28,\"value 28\"],\"member_number_29\":[29,\"value 29\"],\"member_number_30\":[30,\"value 30\"],\"member_number_31\":[31,\"value 31\"],\"member_number_32\":[32,\"value 32\"],\"member_number_33\":[33,\"value 33\"],\"member_number_34\":[34,\"value 34\"],\"member_number_35\":[35,\"value 35\"],\"member_number_36\":[36,\"value 36\"],\"member_number_37\":[37,\"value 37\"],\"member_number_38\":[38,\"value 38\"],\"member_number_39\":[39,\"value 39\"],\"member_number_40\":[40,\"value 40\"],\"member_number_41\":[41,\"value 41\"],\"member_number_42\":[42,\"value 42\"],\"member_number_43\":[43,\"value 43\"],\"member_number_44\":[44,\"value 44\"],\"member_number_45\":[45,\"value 45\"],\"member_number_46\":[46,\"value 46\"],\"member_number_47\":[47,\"value 47\"],\"member_number_48\":[48,\"value 48\"],\"member_number_49\":[49,\"value 49\"],\"member_number_50\":[50,\"value 50\"],\"member_number_51\":[51,\"value 51\"],\"member_number_52\":[52,\"value 52\"],\"member_number_53\":[53,\"value 53\"],\"member_number_54\":[54,\"value 54\"],\"member_number_55\":[55,\"value 55\"],\"member_number_56\":[56,\"value 56\"],\"member_number_57\":[57,\"value 57\"],\"member_number_58\":[58,\"value 58\"],\"member_number_59\":[59,\"value 59\"]}",
	"[{\"i\":0},1.5,3.0,4.5,6.0,7.5,9.0,{\"i\":7},12.0,13.5,15.0,16.5,18.0,19.5,{\"i\":14},22.5,24.0,25.5,27.0,28.5,30.0,{\"i\":21},33.0,34.5,36.0,37.5,39.0,40.5,{\"i\":28},43.5,45.0,46.5,48.0,49.5,51.0,{\"i\":35},54.0,55.5,57.0,58.5,60.0,61.5,{\"i\":42},64.5,66.0,67.5,69.0,70.5,72.0,{\"i\":49},75.0,76.5,78.0,79.5,81.0,82.5,{\"i\":56},85.5,87.0,88.5,90.0,91.5,93.0,{\"i\":63},96.0,97.5,99.0,100.5,102.0,103.5,{\"i\":70},106.5,108.0,109.5,111.0,112.5,114.0,{\"i\":77},117.0,118.5,120.0,121.5,123.0,124.5,{\"i\":84},127.5,129.0,130.5,132.0,133.5,135.0,{\"i\":91},138.0,139.5,141.0,142.5,144.0,145.5,{\"i\":98},148.5,150.0,151.5,153.0,154.5,156.0,{\"i\":105},159.0,160.5,162.0,163.5,165.0,166.5,{\"i\":112},169.5,171.0,172.5,174.0,175.5,177.0,{\"i\":119},180.0,181.5,183.0,184.5,186.0,187.5,{\"i\":126},190.5,192.0,193.5,195.0,196.5,198.0,{\"i\":133},201.0,202.5,204.0,205.5,207.0,208.5,{\"i\":140},211.5,213.0,214.5,216.0,217.5,219.0,{\"i\":147},222.0,223.5]",
};
#define NDOCS ((int)(sizeof DOCS / sizeof DOCS[0]))

/* ---------------- workloads ---------------- */
static void wl_parse_ex(struct ctx *c)
{
	const char *d = DOCS[c->param]; struct json_tokener *tok; struct json_object *o, *o2; enum json_tokener_error e;
	tok = json_tokener_new();
	ARM(c);
	o = json_tokener_parse_ex(tok, d, (int)strlen(d) + 1);
	DISARM(c);
	e = json_tokener_get_error(tok);
	if (!o && e == json_tokener_error_memory) c->failed = 1;
	else { ob_printf(&c->res, "err=%d ", (int)e); res_obj(c, o); }
	if (o && e != json_tokener_success) bad(c, "value-with-error-status");
	json_object_put(o);
	/* the parser must be reusable after the failure */
	json_tokener_reset(tok);
	{ static const char again[] = "[1,{\"a\":\"b\"},\"a token of forty bytes..................\",\"and one of about a hundred bytes........................................................................\"] ";
	  o2 = json_tokener_parse_ex(tok, again, (int)sizeof again - 1); }
	if (!o2 || json_object_array_length(o2) != 4) bad(c, "parser-not-reusable-after-failure");
	json_object_put(o2);
	json_tokener_free(tok);
}
static void wl_parse_simple(struct ctx *c)
{
	const char *d = DOCS[c->param]; struct json_object *o; enum json_tokener_error e = json_tokener_success;
	ARM(c);
	o = c->param & 1 ? json_tokener_parse_verbose(d, &e) : json_tokener_parse(d);
	DISARM(c);
	if (!o && (c->fired)) c->failed = 1; /* json_tokener_parse has no richer channel than NULL */
	else res_obj(c, o);
	if ((c->param & 1) && !o && c->fired && e != json_tokener_error_memory) bad(c, "parse_verbose-error-code:%d", (int)e);
	json_object_put(o);
}
static void wl_tokener_new(struct ctx *c)
{
	struct json_tokener *tok;
	ARM(c); tok = c->param ? json_tokener_new_ex(c->param) : json_tokener_new(); DISARM(c);
	if (!tok) c->failed = 1;
	else {
		/* a tokener that was handed out must have the depth it was asked for: a document nested one level less than the limit (at most 200) has to parse */
		int d = (c->param ? c->param : 32) - 1, i; struct obuf doc = {0}; struct json_object *o;
		if (d > 200) d = 200;
		for (i = 0; i < d; i++) ob_putc(&doc, '['); ob_putc(&doc, '1'); for (i = 0; i < d; i++) ob_putc(&doc, ']');
		o = json_tokener_parse_ex(tok, doc.b, (int)doc.n + 1);
		ob_printf(&c->res, "ok %d err %d", o != NULL, (int)json_tokener_get_error(tok)); json_object_put(o); free(doc.b);
	}
	json_tokener_free(tok);
}
static void wl_chunked_parse(struct ctx *c)
{
	/* param = doc (pieces of 7 bytes) or 100*piece + doc */
	const char *d = DOCS[c->param % 100]; size_t piece = c->param >= 100 ? (size_t)(c->param / 100) : 7; size_t n = strlen(d) + 1, off = 0; struct json_tokener *tok = json_tokener_new(); struct json_object *o = NULL; enum json_tokener_error e = json_tokener_continue;
	ARM(c);
	while (off < n) { size_t len = n - off < piece ? n - off : piece; o = json_tokener_parse_ex(tok, d + off, (int)len); e = json_tokener_get_error(tok); off += len; if (e != json_tokener_continue) break; }
	DISARM(c);
	if (!o && e == json_tokener_error_memory) c->failed = 1; else { ob_printf(&c->res, "err=%d ", (int)e); res_obj(c, o); }
	json_object_put(o); json_tokener_free(tok);
}
static void wl_construct(struct ctx *c)
{
	struct json_object *o = NULL; char big[120]; memset(big, 'q', sizeof big - 1); big[sizeof big - 1] = 0;
	ARM(c);
	switch (c->param) {
	case 0: o = json_object_new_object(); break;
	case 1: o = json_object_new_array_ext(5); break;
	case 2: o = json_object_new_string_len("abc", 3); break;
	case 3: o = json_object_new_string(big); break;
	case 4: o = json_object_new_double_s(1.5, "1.50"); break;
	case 5: o = json_object_new_int64(-5); break;
	case 6: o = json_object_new_uint64(5); break;
	case 7: o = json_object_new_boolean(1); break;
	case 8: o = json_object_new_double(2.5); break;
	case 9: o = json_object_new_array(); break;
	}
	DISARM(c);
	if (!o) c->failed = 1; else { res_obj(c, o); ob_puts(&c->res, json_object_to_json_string_ext(o, 0)); }
	json_object_put(o);
}
static void wl_object_add(struct ctx *c)
{
	/* param: number of members already present (resize boundaries 10/11, 21/22, 43); odd params use a constant key */
	int m = c->param / 2, constkey = c->param & 1, i, rc; struct json_object *o = json_object_new_object(), *v; char key[32];
	for (i = 0; i < m; i++) { snprintf(key, sizeof key, "member%d", i); json_object_object_add(o, key, json_object_new_int(i)); }
	v = P("{\"new\":[1,2]}");
	keep(c, o);
	ARM(c);
	rc = json_object_object_add_ex(o, "the-new-key", v, constkey ? JSON_C_OBJECT_ADD_CONSTANT_KEY : 0);
	DISARM(c);
	if (rc != 0) {
		c->failed = 1;
		check_keeps(c);                       /* the object is unchanged ... */
		if (json_object_put(v) != 1) bad(c, "failed-add-took-the-value"); /* ... and the value is still the caller's */
	} else { free(c->keepdump[0].b); memset(&c->keepdump[0], 0, sizeof c->keepdump[0]); dump_node(&c->keepdump[0], o, 0); res_obj(c, o); }
	check_keeps(c);
	put_keeps(c, 1);
}
static void wl_array_ops(struct ctx *c)
{
	/* param = n*8 + op ; op 0 add, 1 put beyond end, 2 insert at 0, 3 put over existing, 4 put over the LAST element of an array trimmed to exactly its length
	 * (capacity == length: the replacing put asks for room), 5 the same through json_pointer_set */
	int n = c->param / 8, op = c->param % 8, i, rc; struct json_object *a = json_object_new_array(), *v; char ptr[32];
	for (i = 0; i < n; i++) json_object_array_add(a, json_object_new_string("old element, separately allocated........"));
	if (op >= 4) json_object_array_shrink(a, 0);
	v = json_object_new_string("new element");
	keep(c, a);
	snprintf(ptr, sizeof ptr, "/%d", n - 1);
	ARM(c);
	rc = op == 0 ? json_object_array_add(a, v) : op == 1 ? json_object_array_put_idx(a, (size_t)n + 5, v) : op == 2 ? json_object_array_insert_idx(a, 0, v) : op == 3 ? json_object_array_put_idx(a, 0, v)
	   : op == 4 ? json_object_array_put_idx(a, (size_t)n - 1, v) : json_pointer_set(&a, ptr, v);
	DISARM(c);
	if (rc != 0) { c->failed = 1; check_keeps(c); if (json_object_put(v) != 1) bad(c, "failed-array-op-took-the-value"); }
	else { free(c->keepdump[0].b); memset(&c->keepdump[0], 0, sizeof c->keepdump[0]); dump_node(&c->keepdump[0], a, 0); res_obj(c, a); }
	check_keeps(c);
	put_keeps(c, 1);
}
/* json_object_array_shrink(arr, extra) used to RESERVE room (extra > free slots) or to trim; whatever it returns, the array must stay usable:
 * 40 more elements are added afterwards (unarmed) and everything is read back.  param = n*4 + mode (0 reserve 71, 1 trim to 0 extra, 2 reserve 1, 3 reserve 1000) */
static void wl_array_reserve(struct ctx *c)
{
	int n = c->param / 4, mode = c->param % 4, i, rc, extra = mode == 0 ? 71 : mode == 1 ? 0 : mode == 2 ? 1 : 1000; struct json_object *a = json_object_new_array_ext(n < 8 ? 8 : n * 2);
	for (i = 0; i < n; i++) json_object_array_add(a, json_object_new_int(i));
	ARM(c); rc = json_object_array_shrink(a, extra); DISARM(c);
	if (rc != 0) c->failed = 1;
	for (i = 0; i < 40; i++) if (json_object_array_add(a, json_object_new_int(1000 + i)) != 0) bad(c, "add-after-shrink-failed");
	if ((int)json_object_array_length(a) != n + 40) bad(c, "length-after-shrink-and-adds:%d", (int)json_object_array_length(a));
	for (i = 0; i < n + 40; i++) if (json_object_get_int(json_object_array_get_idx(a, (size_t)i)) != (i < n ? i : 1000 + i - n)) { bad(c, "element-%d-after-shrink-and-adds", i); break; }
	ob_printf(&c->res, "len %d", (int)json_object_array_length(a));
	if (json_object_put(a) != 1) bad(c, "array-refcount");
}
/* a string token in which an escape (or the end of a plain run) lands after exactly L plain characters: every growth point of the tokener's scratch buffer
 * is crossed by every kind of append.  param = kind*512 + L; kind 0 \u20ac, 1 \n, 2 surrogate pair, 3 plain run only, 4 the same as a member NAME with \u00e9, 5-8 unpaired surrogates */
static void wl_parse_token_boundary(struct ctx *c)
{
	int kind = c->param / 512, L = c->param % 512, i; struct obuf d = {0}; struct json_tokener *tok = json_tokener_new(); struct json_object *o; enum json_tokener_error e;
	ob_puts(&d, kind == 4 ? "{\"" : "[\"");
	for (i = 0; i < L; i++) ob_putc(&d, (char)('a' + i % 26));
	ob_puts(&d, kind == 0 ? "\\u20ac" : kind == 1 ? "\\n" : kind == 2 ? "\\ud83d\\ude00" : kind == 4 ? "\\u00e9" :
	            kind == 5 ? "\\ud83dx" : kind == 6 ? "\\ud83d\\n" : kind == 7 ? "\\ud83d\\u0041" : kind == 8 ? "\\ude00" : "");   /* 5-8: unpaired surrogates (each becomes U+FFFD) in front of a plain character, a short escape, a non-surrogate escape; a lone low one */
	ob_puts(&d, kind == 4 ? "tail\":[1]}" : "tail\"]");
	ARM(c); o = json_tokener_parse_ex(tok, d.b, (int)d.n + 1); DISARM(c);
	e = json_tokener_get_error(tok);
	if (!o && e == json_tokener_error_memory) c->failed = 1; else { ob_printf(&c->res, "err=%d ", (int)e); res_obj(c, o); }
	json_object_put(o); json_tokener_free(tok); free(d.b);
}
/* a document fed in TWO calls, the first one ending inside a token after exactly L of its characters: what the parser saves at the end of a call
 * (the part of the token seen so far) is appended to its scratch buffer right then, at every growth point.  param = kind*512 + L; kind 0 string value,
 * 1 member name, 2 number, 3 block comment, 4 line comment, 5 string value whose first part ends in a backslash */
static void wl_parse_split_token(struct ctx *c)
{
	int kind = c->param / 512, L = c->param % 512, i; struct obuf d = {0}; size_t cut; struct json_tokener *tok = json_tokener_new(); struct json_object *o; enum json_tokener_error e;
	ob_puts(&d, kind == 1 ? "{\"" : kind == 2 ? "[" : kind == 3 ? "[1/*" : kind == 4 ? "[1//" : "[\"");
	for (i = 0; i < L; i++) ob_putc(&d, kind == 2 ? (char)('1' + i % 9) : (char)('a' + i % 26));
	if (kind == 5) ob_putc(&d, '\\');
	cut = d.n;
	if (kind == 5) ob_putc(&d, 'n');
	for (i = 0; i < 9; i++) ob_putc(&d, kind == 2 ? (char)('1' + i % 9) : (char)('A' + i % 26));
	ob_puts(&d, kind == 1 ? "\":[1]}" : kind == 2 ? "]" : kind == 3 ? "*/,2]" : kind == 4 ? "\n,2]" : "\"]");
	ARM(c);
	o = json_tokener_parse_ex(tok, d.b, (int)cut); e = json_tokener_get_error(tok);
	if (!o && e == json_tokener_continue) { o = json_tokener_parse_ex(tok, d.b + cut, (int)(d.n - cut) + 1); e = json_tokener_get_error(tok); }
	DISARM(c);
	if (!o && e == json_tokener_error_memory) c->failed = 1; else { ob_printf(&c->res, "err=%d ", (int)e); res_obj(c, o); }
	json_object_put(o); json_tokener_free(tok); free(d.b);
}
/* a tokener that has just handled one very long token (its scratch buffer is big now) is reset and used again, the reset and the second parse under the fault:
 * whatever the reset does with that buffer, the tokener stays usable or the parse reports out-of-memory.  param = token length */
static void wl_reset_after_big_token(struct ctx *c)
{
	size_t n = (size_t)c->param, i; struct obuf d = {0}; struct json_tokener *tok = json_tokener_new(); struct json_object *o; enum json_tokener_error e;
	static const char small[] = "{\"k\":[1,\"a token of about forty bytes..............\",2.5]} ";
	ob_puts(&d, "[\""); for (i = 0; i < n; i++) ob_putc(&d, (char)('a' + i % 26)); ob_puts(&d, "\"]");
	o = json_tokener_parse_ex(tok, d.b, (int)d.n + 1); json_object_put(o);
	ARM(c);
	json_tokener_reset(tok);
	o = json_tokener_parse_ex(tok, small, (int)sizeof small - 1);
	DISARM(c);
	e = json_tokener_get_error(tok);
	if (!o && e == json_tokener_error_memory) c->failed = 1; else { ob_printf(&c->res, "err=%d ", (int)e); res_obj(c, o); }
	json_object_put(o);
	/* and once more, unarmed: a tokener that survived the fault must be as good as new */
	json_tokener_reset(tok);
	o = json_tokener_parse_ex(tok, small, (int)sizeof small - 1);
	if (!o) bad(c, "parser-not-reusable-after-failure");
	json_object_put(o); json_tokener_free(tok); free(d.b);
}
static void wl_set_string(struct ctx *c)
{
	struct json_object *s = json_object_new_string(c->param & 1 ? "short" : "a somewhat longer initial string value"); char big[300]; int rc; size_t n = c->param < 2 ? 100 : 250;
	memset(big, 'z', sizeof big);
	if (c->param >= 4) { json_object_set_string_len(s, big, 60); n = c->param == 4 ? 200 : 61; } /* already in a separate buffer: the SECOND grow is the one that fails */
	keep(c, s);
	ARM(c); rc = json_object_set_string_len(s, big, (int)n); DISARM(c);
	if (rc != 1) { c->failed = 1; check_keeps(c); }
	else { free(c->keepdump[0].b); memset(&c->keepdump[0], 0, sizeof c->keepdump[0]); dump_node(&c->keepdump[0], s, 0); res_obj(c, s); }
	check_keeps(c); put_keeps(c, 1);
}
static void wl_deep_copy(struct ctx *c)
{
	struct json_object *src = P(DOCS[c->param]), *dst = NULL; int rc;
	keep(c, src);
	ARM(c); rc = json_object_deep_copy(src, &dst, NULL); DISARM(c);
	if (rc < 0) { c->failed = 1; if (dst) bad(c, "failed-copy-left-a-result"); }
	else { res_obj(c, dst); ob_puts(&c->res, json_object_to_json_string_ext(dst, 0)); if (!json_object_equal(src, dst) && c->param != 6) bad(c, "copy-not-equal"); }
	json_object_put(dst);
	check_keeps(c); put_keeps(c, 1);
}
static const int SERFLAGS[] = {0, JSON_C_TO_STRING_SPACED, JSON_C_TO_STRING_PRETTY, JSON_C_TO_STRING_PRETTY | JSON_C_TO_STRING_PRETTY_TAB, JSON_C_TO_STRING_COLOR | JSON_C_TO_STRING_SPACED,
                               JSON_C_TO_STRING_NOZERO | JSON_C_TO_STRING_NOSLASHESCAPE, JSON_C_TO_STRING_PRETTY | JSON_C_TO_STRING_SPACED | JSON_C_TO_STRING_COLOR};
#define NSERFLAGS ((int)(sizeof SERFLAGS / sizeof SERFLAGS[0]))
static void wl_serialize(struct ctx *c)
{
	/* param = doc * NSERFLAGS + flagset ; outputs cross several printbuf doublings */
	struct json_object *o = P(DOCS[c->param / NSERFLAGS]); int flags = SERFLAGS[c->param % NSERFLAGS]; const char *s; size_t len = 0;
	keep(c, o);
	ARM(c); s = json_object_to_json_string_length(o, flags, &len); DISARM(c);
	if (!s) c->failed = 1;
	else { ob_puts(&c->res, s); if (strlen(s) != len) bad(c, "length-mismatch"); }
	check_keeps(c); put_keeps(c, 1);
}
static void wl_serialize_boundary(struct ctx *c)
{
	/* param = (pad * 8 + kind) * 3 + flagset: ["<pad bytes>", X] — the pad sweeps every offset, so that each append of X's serializer
	 * (colour prefix, literal, colour reset, separators) is in turn THE append that has to grow the 32- or 64-byte print buffer */
	static const char *XS[] = {"true", "false", "null", "-7", "2.5", "\"x\"", "{\"k\":true}", "[false,null]"};
	static const int FL[] = {0, JSON_C_TO_STRING_COLOR, JSON_C_TO_STRING_COLOR | JSON_C_TO_STRING_PRETTY};
	int flags = FL[c->param % 3], kind = (c->param / 3) % 8, pad = c->param / 24; char doc[160]; int n = 0, i; struct json_object *o; const char *s; size_t len = 0;
	doc[n++] = '['; doc[n++] = '"'; for (i = 0; i < pad; i++) doc[n++] = 'p'; doc[n++] = '"'; doc[n++] = ',';
	n += sprintf(doc + n, "%s]", XS[kind]);
	o = P(doc);
	keep(c, o);
	ARM(c); s = json_object_to_json_string_length(o, flags, &len); DISARM(c);
	if (!s) c->failed = 1;
	else { ob_puts(&c->res, s); if (strlen(s) != len) bad(c, "length-mismatch"); }
	check_keeps(c); put_keeps(c, 1);
}
static void wl_serialize_twice(struct ctx *c)
{
	/* the node's printbuf already exists: a fault can only hit its growth */
	struct json_object *o = P(DOCS[2]); const char *s;
	json_object_to_json_string_ext(o, 0);
	json_object_array_add(o, json_object_new_string("grow the output past the buffer that the first serialization left behind ..............................................................."));
	keep(c, o);
	ARM(c); s = json_object_to_json_string_ext(o, JSON_C_TO_STRING_PRETTY); DISARM(c);
	if (!s) c->failed = 1; else ob_puts(&c->res, s);
	check_keeps(c); put_keeps(c, 1);
}
static void wl_get_string_nonstring(struct ctx *c)
{
	struct json_object *o = P(DOCS[c->param]); const char *s;
	keep(c, o);
	ARM(c); s = json_object_get_string(o); DISARM(c);
	if (!s) c->failed = 1; else ob_puts(&c->res, s);
	check_keeps(c); put_keeps(c, 1);
}
static void wl_printbuf(struct ctx *c)
{
	struct printbuf *pb; char big[400]; int r = 0, i;
	memset(big, 'p', sizeof big - 1); big[sizeof big - 1] = 0;
	ARM(c);
	pb = printbuf_new();
	if (pb) {
		switch (c->param) {
		case 0: r = sprintbuf(pb, "%s|%d", big, 42); break;
		case 1: for (i = 0; i < 6 && r >= 0; i++) r = printbuf_memappend(pb, big, 100); break;
		case 2: r = printbuf_memset(pb, 300, 'm', 50); break;
		case 3: r = sprintbuf(pb, "short %d", 7); if (r >= 0) r = sprintbuf(pb, "%s", big); break;
		}
	}
	DISARM(c);
	if (!pb || r < 0) c->failed = 1;
	else { ob_printf(&c->res, "%d:", pb->bpos); ob_hex(&c->res, pb->buf, (size_t)pb->bpos); }
	if (pb && (pb->bpos > pb->size || (size_t)pb->size > vf_block_size(pb->buf))) bad(c, "printbuf-bounds");
	printbuf_free(pb);
}
static void wl_pointer(struct ctx *c)
{
	/* param 0 get, 1 getf, 2 set, 3 setf, 4 set 1-level with escaped key, 5 set append */
	struct json_object *o = P("{\"a\":{\"b\":[10,20,{\"c~d/e\":null}]},\"z\":1}"), *res = NULL, *v = NULL; int rc = 0;
	if (c->param >= 2) v = json_object_new_string("set value");
	if (c->param < 2) keep(c, o);
	ARM(c);
	switch (c->param) {
	case 0: rc = json_pointer_get(o, "/a/b/2/c~0d~1e", &res); break;
	case 1: rc = json_pointer_getf(o, &res, "/a/%s/%d", "b", 1); break;
	case 2: rc = json_pointer_set(&o, "/a/b/2/new~1key", v); break;
	case 3: rc = json_pointer_setf(&o, v, "/a/%s/%d", "b", 0); break;
	case 4: rc = json_pointer_set(&o, "/esc~0aped~1key", v); break;
	case 5: rc = json_pointer_set(&o, "/a/b/-", v); break;
	}
	DISARM(c);
	if (rc != 0) { c->failed = 1; if (c->param >= 2 && json_object_put(v) != 1) bad(c, "failed-set-took-the-value"); }
	else if (c->param < 2) ob_printf(&c->res, "found type %d", (int)json_object_get_type(res));
	if (c->param < 2) { check_keeps(c); put_keeps(c, 1); }
	else { if (!c->failed) res_obj(c, o); else { struct json_object *ref = P("{\"a\":{\"b\":[10,20,{\"c~d/e\":null}]},\"z\":1}"); if (!json_object_equal(o, ref)) bad(c, "failed-set-changed-the-tree"); json_object_put(ref); }
	       if (!json_object_to_json_string_ext(o, 0)) bad(c, "tree-unusable"); if (json_object_put(o) != 1) bad(c, "root-refcount"); }
}
static const char *PATCHES[] = {
	"[{\"op\":\"add\",\"path\":\"/a/b/1\",\"value\":{\"n\":[1,2,3]}}]",
	"[{\"op\":\"remove\",\"path\":\"/a/b/0\"},{\"op\":\"remove\",\"path\":\"/x~1y\"}]",
	"[{\"op\":\"replace\",\"path\":\"/z\",\"value\":\"a replacement string that is long enough to need its own block\"}]",
	"[{\"op\":\"move\",\"from\":\"/a/b\",\"path\":\"/moved\"}]",
	"[{\"op\":\"copy\",\"from\":\"/a\",\"path\":\"/copied\"},{\"op\":\"add\",\"path\":\"/copied/b/-\",\"value\":7}]",
	"[{\"op\":\"test\",\"path\":\"/a/b/1\",\"value\":20},{\"op\":\"add\",\"path\":\"/q\",\"value\":null}]",
	"[{\"op\":\"move\",\"from\":\"/x~1y\",\"path\":\"/a/b/0\"}]",
	"[{\"op\":\"copy\",\"from\":\"/x~1y\",\"path\":\"/t~0u\"},{\"op\":\"move\",\"from\":\"/t~0u\",\"path\":\"/v~1w\"},{\"op\":\"remove\",\"path\":\"/v~1w\"}]",
	"[{\"op\":\"move\",\"from\":\"/a/b/2/c\",\"path\":\"/a/b/2/e~1f\"},{\"op\":\"replace\",\"path\":\"/a/b/2/e~1f\",\"value\":[1]},{\"op\":\"test\",\"path\":\"/a/b/2/e~1f\",\"value\":[1]}]",
	"[{\"op\":\"add\",\"path\":\"/k1\",\"value\":1},{\"op\":\"add\",\"path\":\"/k2\",\"value\":2},{\"op\":\"add\",\"path\":\"/k3\",\"value\":3},{\"op\":\"add\",\"path\":\"/k4\",\"value\":4},{\"op\":\"add\",\"path\":\"/k5\",\"value\":5},{\"op\":\"add\",\"path\":\"/k6\",\"value\":6},{\"op\":\"add\",\"path\":\"/k7\",\"value\":7},{\"op\":\"add\",\"path\":\"/k8\",\"value\":8},{\"op\":\"add\",\"path\":\"/k9\",\"value\":9}]",
};
#define NPATCHES ((int)(sizeof PATCHES / sizeof PATCHES[0]))
static void wl_patch(struct ctx *c)
{
	/* param = patch*2 + mode (0 in place, 1 copy_from) */
	int mode = c->param & 1; struct json_object *doc = P("{\"a\":{\"b\":[10,20,{\"c\":null}]},\"z\":1,\"x/y\":[true]}"), *patch = P(PATCHES[c->param / 2]), *base = NULL; struct json_patch_error pe; int rc;
	keep(c, patch);
	if (mode) keep(c, doc); else base = doc;
	ARM(c); rc = json_patch_apply(mode ? doc : NULL, patch, &base, &pe); DISARM(c);
	if (rc < 0) { c->failed = 1; if (!c->k) bad(c, "patch-failed-without-fault:%s", pe.errmsg); }
	else res_obj(c, base);
	if (base && !json_object_to_json_string_ext(base, 0)) bad(c, "patched-document-unusable");
	check_keeps(c);
	if (mode) json_object_put(base); else if (json_object_put(base) != 1 && base) bad(c, "base-refcount");
	put_keeps(c, 1);
}
static int mem_fd(void) { int fd = memfd_create("vf", 0); return fd; }
static void wl_fd(struct ctx *c)
{
	/* param 0: from_fd_ex of a 9 KB document; 1: to_fd; 2: from_fd small */
	if (c->param == 1) {
		struct json_object *o = P(DOCS[3]); int fd = mem_fd(), rc; char buf[4096]; ssize_t k; struct obuf got = {0};
		keep(c, o);
		ARM(c); rc = json_object_to_fd(fd, o, JSON_C_TO_STRING_PRETTY); DISARM(c);
		lseek(fd, 0, SEEK_SET);
		while ((k = read(fd, buf, sizeof buf)) > 0) { ob_need(&got, (size_t)k); memcpy(got.b + got.n, buf, (size_t)k); got.n += (size_t)k; got.b[got.n] = 0; }
		close(fd);
		if (rc < 0) { c->failed = 1; if (got.n) bad(c, "failed-to_fd-wrote-%zu-bytes", got.n); }
		else ob_puts(&c->res, got.b ? got.b : "");
		free(got.b); check_keeps(c); put_keeps(c, 1);
	} else {
		int fd = mem_fd(); struct json_object *o; struct obuf doc = {0}; int i;
		if (c->param == 3) {
			/* 8-byte records, so that every read-sized block (4096) starts and ends on element boundaries: a block that is lost
			 * on the way (instead of failing the call) still leaves a well-formed, but different, document */
			ob_puts(&doc, "[       ");
			for (i = 0; i < 4094; i++) ob_printf(&doc, "%07d,", 1000000 + i);
			ob_puts(&doc, "      0]");
		} else {
		ob_puts(&doc, "[");
		for (i = 0; i < (c->param == 0 ? 700 : 5); i++) ob_printf(&doc, "%s\"item %d\"", i ? "," : "", i);
		ob_puts(&doc, "]");
		}
		if (write(fd, doc.b, doc.n) != (ssize_t)doc.n) bad(c, "harness-write");
		lseek(fd, 0, SEEK_SET);
		_json_c_set_last_err("%s", "");
		ARM(c); o = json_object_from_fd_ex(fd, 8); DISARM(c);
		close(fd);
		if (!o) { c->failed = 1; if (!json_util_get_last_err()) bad(c, "no-error-message"); }
		else if (c->param == 3) { size_t k, n = json_object_array_length(o); long long sum = 0; for (k = 0; k < n; k++) sum += json_object_get_int64(json_object_array_get_idx(o, k)); ob_printf(&c->res, "len=%zu sum=%lld", n, sum); }
		else res_obj(c, o);
		json_object_put(o); free(doc.b);
	}
}
static void wl_big_inputs(struct ctx *c)
{
	/* param 0: long member name + long string (scratch buffer grows several times, long strdup); 1: from_fd_ex of ~70 KiB;
	 * 2: json_patch_apply in copy_from mode on a document with 60 members (deep copy with table resizes) */
	if (c->param == 0) {
		struct obuf d = {0}; struct json_object *o; int i; struct json_tokener *tok = json_tokener_new(); enum json_tokener_error e;
		ob_puts(&d, "{\"");
		for (i = 0; i < 300; i++) ob_putc(&d, (char)('a' + i % 26));
		ob_puts(&d, "\":\"");
		for (i = 0; i < 2500; i++) ob_putc(&d, (char)('A' + i % 26));
		ob_puts(&d, "\",\"n\":[1,2,3]}");
		ARM(c); o = json_tokener_parse_ex(tok, d.b, (int)d.n + 1); DISARM(c);
		e = json_tokener_get_error(tok);
		if (!o && e == json_tokener_error_memory) c->failed = 1; else { ob_printf(&c->res, "err=%d ", (int)e); res_obj(c, o); }
		json_object_put(o); json_tokener_free(tok); free(d.b);
	} else if (c->param == 1) {
		int fd = mem_fd(); struct json_object *o; struct obuf doc = {0}; int i;
		ob_puts(&doc, "[");
		for (i = 0; i < 5500; i++) ob_printf(&doc, "%s\"item %d\"", i ? "," : "", i);
		ob_puts(&doc, "]");
		if (write(fd, doc.b, doc.n) != (ssize_t)doc.n) bad(c, "harness-write");
		lseek(fd, 0, SEEK_SET);
		_json_c_set_last_err("%s", "");
		ARM(c); o = json_object_from_fd_ex(fd, 4); DISARM(c);
		close(fd);
		if (!o) { c->failed = 1; if (!json_util_get_last_err()) bad(c, "no-error-message"); }
		else ob_printf(&c->res, "len=%zu", json_object_array_length(o));
		json_object_put(o); free(doc.b);
	} else {
		struct json_object *doc = P(DOCS[NDOCS - 2]), *patch = P("[{\"op\":\"add\",\"path\":\"/zz\",\"value\":[1]},{\"op\":\"copy\",\"from\":\"/member_number_5\",\"path\":\"/copy\"},{\"op\":\"remove\",\"path\":\"/member_number_7\"}]"), *base = NULL; struct json_patch_error pe; int rc;
		keep(c, patch); keep(c, doc);
		ARM(c); rc = json_patch_apply(doc, patch, &base, &pe); DISARM(c);
		if (rc < 0) c->failed = 1; else res_obj(c, base);
		if (base && !json_object_to_json_string_ext(base, 0)) bad(c, "patched-document-unusable");
		check_keeps(c); json_object_put(base); put_keeps(c, 1);
	}
}
static void wl_double_format(struct ctx *c)
{
	struct json_object *d = json_object_new_double(0.5); int rc; const char *s; char before[64];
	json_c_set_serialization_double_format(c->param & 1 ? "%.3f" : NULL, JSON_C_OPTION_GLOBAL);
	if (c->param & 2) json_c_set_serialization_double_format("%.2f", JSON_C_OPTION_THREAD);
	snprintf(before, sizeof before, "%s", json_object_to_json_string_ext(d, 0));   /* what this thread prints before the change */
	ARM(c); rc = json_c_set_serialization_double_format("%.5f", c->param & 4 ? JSON_C_OPTION_THREAD : JSON_C_OPTION_GLOBAL); DISARM(c);
	if (rc < 0) c->failed = 1;
	/* whatever happened, serializing a double afterwards must be safe and use the new or the previous format */
	s = json_object_to_json_string_ext(d, 0);
	if (!s) bad(c, "double-unserializable-after-format-change");
	else if (!c->failed) ob_puts(&c->res, s);
	else if (strcmp(s, before)) bad(c, "failed-format-change-changed-the-format:%s->%s", before, s);
	json_object_put(d);
	json_c_set_serialization_double_format(NULL, JSON_C_OPTION_THREAD);
	json_c_set_serialization_double_format(NULL, JSON_C_OPTION_GLOBAL);
}
static void wl_lh_table(struct ctx *c)
{
	struct lh_table *t; int i, rc = 0; static const char *ks[] = {"a","b","c","d","e","f","g","h","i","j","k","l"};
	ARM(c);
	t = lh_kchar_table_new(c->param ? c->param : 4, NULL);
	if (t) for (i = 0; i < 12 && rc == 0; i++) rc = lh_table_insert(t, ks[i], (void *)(intptr_t)(i + 1));
	DISARM(c);
	if (!t || rc != 0) c->failed = 1;
	if (t) {
		/* everything inserted before the failure must still be there */
		struct lh_entry *e; int n = 0; lh_foreach(t, e) { if (strcmp((const char *)lh_entry_k(e), ks[n]) || (intptr_t)lh_entry_v(e) != n + 1) bad(c, "table-corrupted-after-failed-insert"); n++; }
		if (n != lh_table_length(t)) bad(c, "table-length");
		if (!c->failed) ob_printf(&c->res, "n=%d", n);
		lh_table_free(t);
	}
}
static void wl_userdata_copy(struct ctx *c)
{
	/* deep copy of a tree with retained number text and a string built through the API */
	struct json_object *src = json_object_new_array(), *dst = NULL; int rc;
	json_object_array_add(src, json_object_new_double_s(1.25, "1.250"));
	json_object_array_add(src, P("{\"k\":[\"v\",1e3]}"));
	keep(c, src);
	ARM(c); rc = json_object_deep_copy(src, &dst, NULL); DISARM(c);
	if (rc < 0) { c->failed = 1; if (dst) bad(c, "failed-copy-left-a-result"); }
	else { ob_puts(&c->res, json_object_to_json_string_ext(dst, 0)); }
	json_object_put(dst); check_keeps(c); put_keeps(c, 1);
}

/* parse under a locale whose decimal point is ',' (synthesised xx_XX through LOCPATH): the parser's locale switching (duplocale/newlocale/uselocale/freelocale)
 * is on the path whatever shortcut an implementation takes for "C"-like locales.  param = doc*4 + mode (0 global, 1 per-thread, 2 global chunked, 3 per-thread verbose) */
static void wl_parse_locale(struct ctx *c)
{
	const char *d = DOCS[c->param / 4]; int mode = c->param & 3; struct json_tokener *tok = json_tokener_new(); struct json_object *o = NULL; enum json_tokener_error e = json_tokener_continue;
	locale_t mine = (locale_t)0, prev = (locale_t)0;
	if (mode & 1) { mine = newlocale(LC_ALL_MASK, "xx_XX", (locale_t)0); if (mine) prev = uselocale(mine); }
	else if (!setlocale(LC_ALL, "xx_XX")) mine = (locale_t)0;
	if (strcmp(localeconv()->decimal_point, ",") != 0) { bad(c, "HARNESS:comma-locale-not-in-effect"); goto done; }
	ARM(c);
	if (mode == 2) { size_t n = strlen(d) + 1, off = 0; while (off < n) { size_t len = n - off < 5 ? n - off : 5; o = json_tokener_parse_ex(tok, d + off, (int)len); e = json_tokener_get_error(tok); off += len; if (e != json_tokener_continue) break; } }
	else if (mode == 3) { o = json_tokener_parse_verbose(d, &e); }
	else { o = json_tokener_parse_ex(tok, d, (int)strlen(d) + 1); e = json_tokener_get_error(tok); }
	DISARM(c);
	if (!o && (e == json_tokener_error_memory || (mode == 3 && c->fired))) c->failed = 1; else { ob_printf(&c->res, "err=%d ", (int)e); res_obj(c, o); }
	if (strcmp(localeconv()->decimal_point, ",") != 0) bad(c, "callers-locale-not-restored");
	if ((mode & 1) && uselocale((locale_t)0) != mine) bad(c, "callers-thread-locale-object-replaced");
	json_object_put(o);
done:
	if (mode & 1) { if (mine) { uselocale(prev); freelocale(mine); } } else setlocale(LC_ALL, "C");
	json_tokener_free(tok);
}
/* json_pointer_set / json_patch add of a NEW member (escaped name) into an object holding exactly m members, m around the table's growth points:
 * the insert itself has to allocate (entry key, table resize).  param = m*2 + kind (0 pointer_set, 1 patch add) */
static void wl_pointer_grow(struct ctx *c)
{
	int m = c->param / 2, kind = c->param & 1, i, rc; struct json_object *o = json_object_new_object(), *v = NULL, *patch = NULL, *ref; struct json_patch_error pe; char kb[32];
	for (i = 0; i < m; i++) { snprintf(kb, sizeof kb, "member%d", i); json_object_object_add(o, kb, json_object_new_int(i)); }
	ref = NULL; json_object_deep_copy(o, &ref, NULL);
	if (kind == 0) v = json_object_new_string("set value");
	else { patch = P("[{\"op\":\"add\",\"path\":\"/new~1member~0x\",\"value\":[\"v\"]}]"); keep(c, patch); }
	ARM(c);
	if (kind == 0) rc = json_pointer_set(&o, "/new~1member~0x", v);
	else rc = json_patch_apply(NULL, patch, &o, &pe);
	DISARM(c);
	if (rc != 0) {
		c->failed = 1;
		if (kind == 0 && json_object_put(v) != 1) bad(c, "failed-set-took-the-value");
		if (kind == 0 && !json_object_equal(o, ref)) bad(c, "failed-set-changed-the-tree");
	} else res_obj(c, o);
	if (!json_object_to_json_string_ext(o, 0)) bad(c, "tree-unusable");
	if (json_object_put(o) != 1) bad(c, "root-refcount");
	json_object_put(ref);
	if (kind == 1) { check_keeps(c); put_keeps(c, 1); }
}

struct workload { const char *name; void (*fn)(struct ctx *); int param; const char *cat; };
#define MAXW 3800
static struct workload W[MAXW]; static int NW;
static void addw(const char *name, void (*fn)(struct ctx *), int param, const char *cat)
{
	char *n = (char *)malloc(64); snprintf(n, 64, "%s.%d", name, param);
	W[NW].name = n; W[NW].fn = fn; W[NW].param = param; W[NW].cat = cat; NW++;
}
static void build_table(void)
{
	int i;
	for (i = 0; i < NDOCS; i++) addw("parse_ex", wl_parse_ex, i, "parse");
	for (i = 0; i < NDOCS; i++) addw("parse_simple", wl_parse_simple, i, "parse");
	for (i = 0; i < NDOCS; i += 2) addw("parse_chunked", wl_chunked_parse, i, "parse");
	addw("tokener_new", wl_tokener_new, 0, "construct"); addw("tokener_new", wl_tokener_new, 3, "construct"); addw("tokener_new", wl_tokener_new, 1000, "construct");
	for (i = 0; i < 10; i++) addw("construct", wl_construct, i, "construct");
	{ static const int ms[] = {0, 1, 20, 21, 22, 23, 42, 43, 44, 45, 86, 87}; for (i = 0; i < 12; i++) addw("object_add", wl_object_add, ms[i], "add"); }
	{ static const int ns[] = {0, 31, 32, 33, 63, 64, 65}; int j; for (i = 0; i < 7; i++) for (j = 0; j < 6; j++) if (!(ns[i] == 0 && j >= 3)) addw("array_op", wl_array_ops, ns[i] * 8 + j, "add"); }
	for (i = 0; i < 6; i++) addw("set_string", wl_set_string, i, "setstring");
	for (i = 0; i < NDOCS; i++) addw("deep_copy", wl_deep_copy, i, "copy");
	addw("deep_copy_userdata", wl_userdata_copy, 0, "copy");
	for (i = 0; i < NDOCS * NSERFLAGS; i++) if (i % 3 == 0 || i < NSERFLAGS * 2) addw("serialize", wl_serialize, i, "serialize");
	addw("serialize_again", wl_serialize_twice, 2, "serialize");
	for (i = 0; i < 4; i++) addw("get_string", wl_get_string_nonstring, i, "serialize");
	for (i = 0; i < 4; i++) addw("printbuf", wl_printbuf, i, "printbuf");
	for (i = 0; i < 6; i++) addw("pointer", wl_pointer, i, "pointer");
	for (i = 0; i < NPATCHES * 2; i++) addw("patch", wl_patch, i, "patch");
	for (i = 0; i < 4; i++) addw("fd", wl_fd, i, i == 1 ? "serialize-fd" : "fd");
	for (i = 0; i < 8; i++) addw("double_format", wl_double_format, i, "config");
	for (i = 0; i < 3; i++) addw("big", wl_big_inputs, i, i == 2 ? "patch" : i == 1 ? "fd" : "parse");
	addw("lh_table", wl_lh_table, 0, "table"); addw("lh_table", wl_lh_table, 16, "table");
	{ static const int ns[] = {0, 5, 31, 32, 33, 64}; int j; for (i = 0; i < 6; i++) for (j = 0; j < 4; j++) addw("array_reserve", wl_array_reserve, ns[i] * 4 + j, "add"); }
	{ int k, L; for (k = 0; k < 9; k++) for (L = 0; L <= 260; L += (L < 70 || (L >= 120 && L < 135) || (L >= 250)) ? 1 : 5) addw("parse_token_boundary", wl_parse_token_boundary, k * 512 + L, "parse"); }
	{ static const int ps[] = {0 * 4 + 0, 5 * 4 + 0, 5 * 4 + 1, 5 * 4 + 2, 5 * 4 + 3, 6 * 4 + 1, 9 * 4 + 2}; for (i = 0; i < 7; i++) addw("parse_comma_locale", wl_parse_locale, ps[i], "parse"); }
	{ static const int ms[] = {0, 9, 10, 11, 12, 21, 22, 23, 43, 44}; int j; for (i = 0; i < 10; i++) for (j = 0; j < 2; j++) addw("pointer_grow", wl_pointer_grow, ms[i] * 2 + j, j ? "patch" : "pointer"); }
	for (i = 0; i < 48 * 24; i++) addw("serialize_boundary", wl_serialize_boundary, i, "serialize");
	{ int k, L; for (k = 0; k < 6; k++) for (L = 1; L <= 140; L += (L >= 24 && L < 40) || (L >= 60 && L < 68) || (L >= 124 && L < 132) ? 1 : 11) addw("parse_split_token", wl_parse_split_token, k * 512 + L, "parse"); }
	{ static const int ns[] = {100, 5000, 70000, 300000, 1200000, 5000000}; for (i = 0; i < 6; i++) addw("reset_after_big_token", wl_reset_after_big_token, ns[i], "parse"); }
	{ static const int ds[] = {1, 3, 5, 7, 9, 1301, 3101, 6401, 1308, 106}; for (i = 0; i < 10; i++) addw("parse_chunked", wl_chunked_parse, ds[i], "parse"); }
}

static uint32_t crc32s(const char *p, size_t n)
{
	uint32_t c = 0xFFFFFFFFu; size_t i; int j;
	for (i = 0; i < n; i++) { c ^= (unsigned char)p[i]; for (j = 0; j < 8; j++) c = (c & 1) ? 0xEDB88320u ^ (c >> 1) : c >> 1; }
	return c ^ 0xFFFFFFFFu;
}

static void run_one(struct ctx *c, int w, unsigned long k, unsigned long k2)
{
	memset(c, 0, sizeof *c);
	c->k = k; c->k2 = k2; c->param = W[w].param;
	W[w].fn(c);
	vf_disarm();
}

static void cmd_w(int nt, char **t)
{
	int w = (int)strtol(t[1], NULL, 0); unsigned long k0 = strtoul(t[2], NULL, 0), k1 = strtoul(t[3], NULL, 0), k2off = nt > 4 ? strtoul(t[4], NULL, 0) : 0, k, N;
	struct ctx ref, c; long live0, loc0, locff0; unsigned long serial0;
	if (w < 0 || w >= NW) { printf("! bad workload\n"); return; }
	/* warm-up run so that one-time allocations (hash seed, printbuf of shared nodes ...) are not attributed to the workload */
	run_one(&ref, w, 0, 0); free(ref.res.b);
	live0 = vf_live_blocks;
	run_one(&ref, w, 0, 0);
	N = ref.nalloc;
	printf("R %d %s cat=%s allocs=%lu res=%08x len=%zu%s%s live=%ld\n", w, W[w].name, W[w].cat, N, crc32s(ref.res.b ? ref.res.b : "", ref.res.n), ref.res.n, ref.bad[0] ? " refbad=" : "", ref.bad, vf_live_blocks - live0);
	if (ref.failed) printf("! reference run of %s reported failure\n", W[w].name);
	fflush(stdout);
	if (k1 == 0 || k1 > N) k1 = N;
	for (k = k0 ? k0 : 1; k <= k1; k++) {
		const char *v = "ok"; char vb[260];
		printf("K %d %lu\n", w, k); fflush(stdout); vf_progress++;
		live0 = vf_live_blocks;
		serial0 = vf_next_serial();
		loc0 = vf_loc_live; locff0 = vf_loc_foreign_free;
		run_one(&c, w, k, k2off ? k + k2off : 0);
		if (c.bad[0]) { snprintf(vb, sizeof vb, "%s", c.bad); v = vb; }
		else if (!c.fired) { if (c.failed) v = "failure-without-fault"; else if (c.res.n != ref.res.n || memcmp(c.res.b ? c.res.b : "", ref.res.b ? ref.res.b : "", c.res.n)) v = "result-differs-without-fault"; }
		else if (!c.failed && (c.res.n != ref.res.n || memcmp(c.res.b ? c.res.b : "", ref.res.b ? ref.res.b : "", c.res.n))) {
			snprintf(vb, sizeof vb, "wrong-result:%s:got-%zu-of-%zu-bytes", (c.res.n < ref.res.n && !memcmp(c.res.b ? c.res.b : "", ref.res.b, c.res.n)) ? "truncated" : "different", c.res.n, ref.res.n); v = vb;
		}
		if (!strcmp(v, "ok") && vf_live_blocks != live0) {
			const void *p, *site; size_t sz;
			snprintf(vb, sizeof vb, "leak:%ld-blocks", vf_live_blocks - live0);
			if (vf_live_blocks > live0 && vf_live_since(serial0, &p, &sz, &site)) snprintf(vb, sizeof vb, "leak:%ld-blocks:first-size-%zu:site-%lx", vf_live_blocks - live0, sz, (unsigned long)(uintptr_t)site);
			v = vb;
		}
		if (!strcmp(v, "ok") && vf_loc_live != loc0) { snprintf(vb, sizeof vb, "locale-object-leak:%ld", vf_loc_live - loc0); v = vb; }
		if (!strcmp(v, "ok") && vf_loc_foreign_free != locff0) { snprintf(vb, sizeof vb, "freed-a-locale-it-does-not-own"); v = vb; }
		{ char stk[256] = "-"; int q, pos = 0; for (q = 2; q < vf_fault_nframes && q < 8 && c.fired; q++) pos += snprintf(stk + pos, sizeof stk - (size_t)pos, "%s%lx", q > 2 ? "," : "", (unsigned long)(uintptr_t)vf_fault_stack[q]);
		  printf("F %d %lu fired=%d site=%lx kind=%s out=%s stack=%s v=%s\n", w, k, c.fired, (unsigned long)(uintptr_t)vf_fault_site[0], vf_fault_kind[0] ? vf_fault_kind[0] : "-", c.failed ? "failure" : "normal", stk, v); }
		fflush(stdout);
		free(c.res.b);
	}
	free(ref.res.b);
}

int main(int argc, char **argv)
{
	char *line = NULL; size_t cap = 0; ssize_t k; FILE *in = stdin; int i;
	if (argc > 1) { in = fopen(argv[1], "r"); if (!in) { perror(argv[1]); return 3; } }
	if (argc > 2) { if (!freopen(argv[2], "w", stdout)) { perror(argv[2]); return 3; } }
	build_table();
	vf_watchdog_init();
	while ((k = getline(&line, &cap, in)) > 0) {
		int nt = split_tokens(line, &tokv, &tokcap);
		vf_progress++;
		if (!nt) continue;
		if (!strcmp(tokv[0], "CASE")) { printf("C %s\n", nt > 1 ? tokv[1] : "?"); fflush(stdout); continue; }
		if (!strcmp(tokv[0], "END")) { printf("E live=0\n"); fflush(stdout); continue; }
		if (!strcmp(tokv[0], "L")) { printf("= %d", NW); for (i = 0; i < NW; i++) printf(" %s:%s", W[i].name, W[i].cat); printf("\n"); }
		else if (!strcmp(tokv[0], "W") && nt >= 4) cmd_w(nt, tokv);
		else printf("! unknown %s\n", tokv[0]);
		fflush(stdout);
	}
	(void)out;
	return 0;
}

/* libFuzzer target for C13 robustness (thorough tier): input = <document text> 0x00 <patch text>; any JSON value as patch.
 * Monitors: ASan/UBSan, the patch document's typed dump before/after, copy_from unchanged, ledger conservation. */
#include "vf_common.h"
#include "vf_shim.h"

int LLVMFuzzerTestOneInput(const uint8_t *data, size_t n)
{
	const uint8_t *z = (const uint8_t *)memchr(data, 0, n); char *a, *b; struct json_object *doc, *patch, *res = NULL; struct obuf d0 = {0}, d1 = {0}, c0 = {0}, c1 = {0}; struct json_patch_error pe; long live0 = vf_live_blocks; int bad = 0, mode;
	if (!z || n > 2048) return 0;
	a = (char *)malloc((size_t)(z - data) + 1); memcpy(a, data, (size_t)(z - data)); a[z - data] = 0;
	b = (char *)malloc(n - (size_t)(z - data)); memcpy(b, z + 1, n - (size_t)(z - data) - 1); b[n - (size_t)(z - data) - 1] = 0;
	mode = n & 1;
	doc = json_tokener_parse(a); patch = json_tokener_parse(b);
	if (doc && patch) {
		dump_node(&d0, patch, 0); dump_node(&c0, doc, 0);
		if (mode) { json_patch_apply(doc, patch, &res, &pe); dump_node(&c1, doc, 0); if (c0.n != c1.n || memcmp(c0.b, c1.b, c0.n)) bad = 2; json_object_put(res); }
		else { res = doc; json_patch_apply(NULL, patch, &res, &pe); doc = res; }
		dump_node(&d1, patch, 0);
		if (d0.n != d1.n || memcmp(d0.b, d1.b, d0.n)) bad = 1;
	}
	json_object_put(doc); json_object_put(patch);
	free(d0.b); free(d1.b); free(c0.b); free(c1.b); free(a); free(b);
	if (bad || vf_live_blocks != live0) { fprintf(stderr, "VF-FUZZ-VIOLATION patch %s live=%ld\n", bad == 1 ? "patch-document-modified" : bad == 2 ? "copy_from-modified" : "leak", vf_live_blocks - live0); abort(); }
	return 0;
}

/* libFuzzer target for C04 (thorough tier): arbitrary bytes, flags and depth taken from the input; monitors compiled in:
 * ASan/UBSan, exact-size copies, outcome trichotomy on every call, ledger conservation, reset-vs-new differential. */
#define main splitdrv_main
#include "splitdrv.c"
#undef main

int LLVMFuzzerTestOneInput(const uint8_t *data, size_t n)
{
	static const int DEPTHS[] = {0, 0, 1, 2, 3, 5, 32, 33};
	int flags, depth; size_t p, i; long live0 = vf_live_blocks; struct json_tokener *tok, *fresh; struct res r1, r2, rf; char *buf; struct json_object *o;
	if (n < 3 || n > 4096) return 0;
	flags = (data[0] & 1) | ((data[0] & 2) ? 2 : 0) | ((data[0] & 4) ? 0x10 : 0) | ((data[0] & 0x80) ? (int)(data[0] << 8) : 0);
	depth = DEPTHS[data[1] & 7];
	p = data[2] % (n - 2);
	data += 3; n -= 3;
	if (p > n) p = n;
	n_tri_viol = 0;
	/* (1) A = data[:p] in random-ish chunks, reset, Y = data[p:]  vs  fresh parser on Y */
	tok = depth ? json_tokener_new_ex(depth) : json_tokener_new(); json_tokener_set_flags(tok, flags);
	for (i = 0; i < p;) { size_t len = 1 + (data[i] & 7); if (len > p - i) len = p - i; buf = (char *)malloc(len); memcpy(buf, data + i, len); o = json_tokener_parse_ex(tok, buf, (int)len); take(tok, o, len, &r1); free(buf); i += len; if (r1.err != json_tokener_continue) break; }
	json_tokener_reset(tok);
	buf = (char *)malloc(n - p ? n - p : 1); memcpy(buf, data + p, n - p);
	o = json_tokener_parse_ex(tok, buf, (int)(n - p)); take(tok, o, n - p, &r2);
	json_tokener_free(tok);
	fresh = depth ? json_tokener_new_ex(depth) : json_tokener_new(); json_tokener_set_flags(fresh, flags);
	o = json_tokener_parse_ex(fresh, buf, (int)(n - p)); take(fresh, o, n - p, &rf);
	json_tokener_free(fresh); free(buf);
	/* (2) whole input with len = -1 semantics (up to the first NUL) */
	{ size_t sl = strnlen((const char *)data, n); buf = (char *)malloc(sl + 1); memcpy(buf, data, sl); buf[sl] = 0;
	  tok = json_tokener_new(); json_tokener_set_flags(tok, flags); o = json_tokener_parse_ex(tok, buf, -1); take(tok, o, sl + 1, &r1); json_tokener_free(tok); free(buf); }
	if (!same(&r2, &rf) || n_tri_viol || vf_live_blocks != live0) {
		fprintf(stderr, "VF-FUZZ-VIOLATION tokener reset_same=%d tri=%ld (%s) live=%ld flags=%d depth=%d p=%zu\n", same(&r2, &rf), n_tri_viol, tri_msg, vf_live_blocks - live0, flags, depth, p);
		abort();
	}
	return 0;
}

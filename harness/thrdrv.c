/* thrdrv — concurrency monitors for the threaded build (C18).  usage: thrdrv <scenario> <threads> <iters> [nodes]
 *   refcount : N threads each do <iters> net-zero get/put pairs on <nodes> shared nodes; afterwards the main thread's
 *              final put must free each node (lost decrement => it does not), the delete callback must not have run
 *              before (lost increment => premature free) and must run exactly once.
 *   release  : <iters> rounds; in each, N holders of one node release concurrently: exactly one put may report "freed",
 *              the callback runs exactly once; the winner's index is recorded (distinct winners = distinct schedules).
 *   disjoint : every thread builds, serializes, parses, copies and frees its own trees (no sharing at all).
 *   readers  : shared tree: some threads get/put it, others only read it through accessors and lookups.
 *   seed     : N threads released together into their first object creation; lh_get_hash(fixed key) early in every
 *              thread and late in main must all be equal (one process per trial).
 * Monitor state is kept in relaxed atomics only.  Output: one line "RESULT scenario=... key=value ..."
 */
#define _GNU_SOURCE 1
#include <pthread.h>
#include <stdio.h>
#include <stdlib.h>
#include <string.h>
#include <stdint.h>
#include <sched.h>
#include "json.h"
#include "linkhash.h"

#define MAXT 64
#define MAXN 8
static int NT, ITERS, NN;
static pthread_barrier_t bar;
static struct json_object *shared[MAXN];
static int cb_count[MAXN];        /* atomic */
static int freed_reports;         /* atomic */
static int premature;             /* atomic: callback seen while a thread still held a reference */
static int winner[MAXT];
static unsigned long hashes[MAXT + 1];
static long maxrefs_seen;
extern int vf_seed_entrants_max;

static void del_cb(struct json_object *o, void *ud) { (void)o; __atomic_add_fetch(&cb_count[(intptr_t)ud], 1, __ATOMIC_RELAXED); }

static unsigned rnd(unsigned *s) { *s = *s * 1664525u + 1013904223u; return *s >> 8; }

static void *t_refcount(void *arg)
{
	int me = (int)(intptr_t)arg, i; unsigned s = 12345u + (unsigned)me * 977u;
	pthread_barrier_wait(&bar);
	for (i = 0; i < ITERS; i++) {
		int n = (int)(rnd(&s) % (unsigned)NN); struct json_object *o = shared[n];
		json_object_get(o);
		if ((rnd(&s) & 7) == 0) json_object_get(o), json_object_put(o);
		if (__atomic_load_n(&cb_count[n], __ATOMIC_RELAXED)) __atomic_add_fetch(&premature, 1, __ATOMIC_RELAXED);
		if ((rnd(&s) & 63) == 0) sched_yield();
		if (json_object_put(o)) __atomic_add_fetch(&freed_reports, 1, __ATOMIC_RELAXED); /* a worker must never be the one that frees */
	}
	return NULL;
}

static int spin_arrivals;
static struct json_object *holder[MAXT];
static void *t_release(void *arg)
{
	int me = (int)(intptr_t)arg, i;
	for (i = 0; i < ITERS; i++) {
		pthread_barrier_wait(&bar);             /* main has prepared shared[0] with NT references */
		/* tighten the rendezvous: the kernel wakes barrier waiters microseconds apart, the window of a lost update is nanoseconds */
		{ int target = (i + 1) * NT; __atomic_add_fetch(&spin_arrivals, 1, __ATOMIC_ACQ_REL); long spins = 0; while (__atomic_load_n(&spin_arrivals, __ATOMIC_ACQUIRE) < target) { if (++spins > 4000) sched_yield(); } }
		if (holder[me]) {
			/* this thread's reference is held by a container of its own (array element / object member): releasing the container releases the node through the
			 * container's element-free path */
			int before = __atomic_load_n(&cb_count[0], __ATOMIC_ACQUIRE);
			if (NN == 3) {
				/* ... or only the slot: the element is overwritten / the member replaced or deleted, which releases the node through the container's replacement path */
				if (json_object_is_type(holder[me], json_type_array)) json_object_array_put_idx(holder[me], 1, json_object_new_int(0));
				else if (me & 2) json_object_object_add(holder[me], "shared", json_object_new_int(0));
				else json_object_object_del(holder[me], "shared");
			}
			json_object_put(holder[me]);
			if (!before && __atomic_load_n(&cb_count[0], __ATOMIC_ACQUIRE)) __atomic_add_fetch(&winner[me], 1, __ATOMIC_RELAXED);
		} else
		if (json_object_put(shared[0])) { __atomic_add_fetch(&freed_reports, 1, __ATOMIC_RELAXED); __atomic_add_fetch(&winner[me], 1, __ATOMIC_RELAXED); }
		pthread_barrier_wait(&bar);             /* main checks the round */
	}
	return NULL;
}

/* mutate: thread 0 (the owner of the node's contents) keeps re-registering the node's userdata/destructor while the others only acquire and release references:
 * a release that is not the last one has no business looking at the destructor fields */
static int cb2_count;
static void del_cb2(struct json_object *o, void *ud) { (void)o; (void)ud; __atomic_add_fetch(&cb2_count, 1, __ATOMIC_RELAXED); }
static void *t_mutate(void *arg)
{
	int me = (int)(intptr_t)arg, i;
	pthread_barrier_wait(&bar);
	for (i = 0; i < ITERS; i++) {
		if (me == 0) json_object_set_userdata(shared[0], (void *)(intptr_t)0, (i & 1) ? del_cb2 : del_cb);
		else { json_object_get(shared[0]); if (json_object_put(shared[0])) __atomic_add_fetch(&freed_reports, 1, __ATOMIC_RELAXED); }
	}
	return NULL;
}

/* fmtglobal: half of the threads give THEMSELVES the double format that happens to be the process-wide one at that moment; later (at a quiescent point) one of the others
 * changes the process-wide format: a thread that set its own keeps its own */
static void *t_fmtglobal(void *arg)
{
	int me = (int)(intptr_t)arg; int mine = (me % 2) == 0 && json_c_set_serialization_double_format("%.3f", JSON_C_OPTION_THREAD) == 0; int r;
	for (r = 0; r < 2; r++) {
		struct json_object *d; const char *ds;
		pthread_barrier_wait(&bar);
		d = json_object_new_double(0.52381); ds = json_object_to_json_string(d);
		if (strcmp(ds, (r == 0 || mine) ? "0.524" : "0.5")) __atomic_add_fetch(&premature, 1, __ATOMIC_RELAXED);
		json_object_put(d);
		pthread_barrier_wait(&bar);
		if (r == 0 && me == 1) json_c_set_serialization_double_format("%.1f", JSON_C_OPTION_GLOBAL);   /* everybody else is waiting at the next barrier */
	}
	if (mine) json_c_set_serialization_double_format(NULL, JSON_C_OPTION_THREAD);
	return NULL;
}
static void *t_disjoint(void *arg)
{
	int me = (int)(intptr_t)arg, i; char key[32];
	/* per-thread configuration is part of "working on one's own things": every third thread gives ITSELF a double format; nobody else's output may change */
	int mine = (me % 3) == 1 && json_c_set_serialization_double_format("%.2f", JSON_C_OPTION_THREAD) == 0;
	pthread_barrier_wait(&bar);
	for (i = 0; i < ITERS; i++) {
		struct json_object *o = json_object_new_object(), *a = json_object_new_array(), *p, *c = NULL; int j; const char *s;
		{ struct json_object *d = json_object_new_double(0.52381); const char *ds = json_object_to_json_string(d);
		  if (strcmp(ds, mine ? "0.52" : "0.52381")) __atomic_add_fetch(&premature, 1, __ATOMIC_RELAXED);
		  json_object_put(d); }
		for (j = 0; j < 12; j++) { snprintf(key, sizeof key, "k%d_%d", me, j); json_object_object_add(o, key, json_object_new_int(j * me)); json_object_array_add(a, json_object_new_double(j * 0.5)); }
		json_object_object_add(o, "arr", a);
		s = json_object_to_json_string_ext(o, JSON_C_TO_STRING_PRETTY);
		p = json_tokener_parse(s);
		if (!p || !json_object_equal(o, p)) __atomic_add_fetch(&premature, 1, __ATOMIC_RELAXED);
		json_object_deep_copy(o, &c, NULL);
		json_object_object_del(o, "k0_0"); snprintf(key, sizeof key, "k%d_3", me); json_object_object_del(o, key);
		json_object_put(c); json_object_put(p); json_object_put(o);
	}
	if (mine) json_c_set_serialization_double_format(NULL, JSON_C_OPTION_THREAD);
	return NULL;
}

static void *t_readers(void *arg)
{
	int me = (int)(intptr_t)arg, i; unsigned s = 99u + (unsigned)me;
	pthread_barrier_wait(&bar);
	for (i = 0; i < ITERS; i++) {
		struct json_object *o = shared[0];
		if (me & 1) { json_object_get(o); if (json_object_put(o)) __atomic_add_fetch(&freed_reports, 1, __ATOMIC_RELAXED); }
		else {
			struct json_object *v = NULL;
			if (!json_object_object_get_ex(o, "n", &v) || json_object_get_int64(v) != 42) __atomic_add_fetch(&premature, 1, __ATOMIC_RELAXED);
			if (json_object_array_length(json_object_object_get(o, "a")) != 3) __atomic_add_fetch(&premature, 1, __ATOMIC_RELAXED);
			json_object_get(v); json_object_put(v);
		}
		if ((rnd(&s) & 127) == 0) sched_yield();
	}
	return NULL;
}

static struct json_object *seedobj[MAXT];
static unsigned long hashes_second[MAXT];
static void *t_seed(void *arg)
{
	int me = (int)(intptr_t)arg; struct json_object *o = json_object_new_object(); /* creating an object does not hash anything yet */
	seedobj[me] = o;
	pthread_barrier_wait(&bar);
	/* the FIRST use of the key hash in this thread (and, for one of them, in the process): either a direct hash of the
	 * fixed key, or an insertion whose slot is derived from it */
	if (me & 1) { json_object_object_add(o, "the fixed key", json_object_new_int(me)); hashes[me] = lh_get_hash(json_object_get_object(o), "the fixed key"); }
	else { hashes[me] = lh_get_hash(json_object_get_object(o), "the fixed key"); json_object_object_add(o, "the fixed key", json_object_new_int(me)); }
	hashes_second[me] = lh_get_hash(json_object_get_object(o), "the fixed key");
	return NULL;
}

int main(int argc, char **argv)
{
	pthread_t th[MAXT]; int i, n; const char *sc; void *(*fn)(void *) = NULL; long bad = 0;
	if (argc < 4) { fprintf(stderr, "usage: thrdrv scenario threads iters [nodes]\n"); return 3; }
	sc = argv[1]; NT = atoi(argv[2]); ITERS = atoi(argv[3]); NN = argc > 4 ? atoi(argv[4]) : 1;
	if (NT > MAXT) NT = MAXT; if (NN > MAXN) NN = MAXN; if (NN < 1) NN = 1;
	pthread_barrier_init(&bar, NULL, (unsigned)NT + (strcmp(sc, "release") ? 0 : 1));
	if (!strcmp(sc, "refcount")) {
		for (n = 0; n < NN; n++) { shared[n] = n & 1 ? json_object_new_array() : json_object_new_string("shared"); json_object_set_userdata(shared[n], (void *)(intptr_t)n, del_cb); }
		fn = t_refcount;
	} else if (!strcmp(sc, "release")) fn = t_release;
	else if (!strcmp(sc, "disjoint")) fn = t_disjoint;
	else if (!strcmp(sc, "fmtglobal")) { json_c_set_serialization_double_format("%.3f", JSON_C_OPTION_GLOBAL); fn = t_fmtglobal; if (NT < 2) NT = 2; }
	else if (!strcmp(sc, "mutate")) { shared[0] = json_object_new_string("shared"); json_object_set_userdata(shared[0], (void *)(intptr_t)0, del_cb); fn = t_mutate; }
	else if (!strcmp(sc, "readers")) { shared[0] = json_tokener_parse("{\"n\":42,\"a\":[1,2,3],\"s\":\"x\"}"); json_object_set_userdata(shared[0], (void *)(intptr_t)0, del_cb); fn = t_readers; }
	else if (!strcmp(sc, "seed")) fn = t_seed;
	else { fprintf(stderr, "unknown scenario\n"); return 3; }
	for (i = 0; i < NT; i++) pthread_create(&th[i], NULL, fn, (void *)(intptr_t)i);
	if (!strcmp(sc, "release")) {
		long multi = 0, none = 0, cbbad = 0;
		for (i = 0; i < ITERS; i++) {
			int k;
			shared[0] = json_object_new_object(); json_object_set_userdata(shared[0], (void *)(intptr_t)0, del_cb);
			for (k = 1; k < NT; k++) {
				json_object_get(shared[0]);
				if (NN >= 2) {   /* container mode: holders 1.. keep their reference inside an array or an object of their own */
					if (k & 1) { holder[k] = json_object_new_array(); json_object_array_add(holder[k], json_object_new_int(k)); json_object_array_add(holder[k], shared[0]); }
					else { holder[k] = json_object_new_object(); json_object_object_add(holder[k], "before", json_object_new_int(k)); json_object_object_add(holder[k], "shared", shared[0]); }
				}
			}
			__atomic_store_n(&freed_reports, 0, __ATOMIC_RELAXED); __atomic_store_n(&cb_count[0], 0, __ATOMIC_RELAXED);
			pthread_barrier_wait(&bar);
			pthread_barrier_wait(&bar);
			k = NN >= 2 ? __atomic_load_n(&cb_count[0], __ATOMIC_RELAXED) : __atomic_load_n(&freed_reports, __ATOMIC_RELAXED);
			if (k > 1) multi++; else if (k == 0) none++;
			if (__atomic_load_n(&cb_count[0], __ATOMIC_RELAXED) != 1) cbbad++;
		}
		for (i = 0; i < NT; i++) pthread_join(th[i], NULL);
		{ int distinct = 0; for (i = 0; i < NT; i++) if (winner[i]) distinct++;
		  printf("RESULT scenario=release threads=%d rounds=%d multi_freed=%ld none_freed=%ld callback_not_once=%ld distinct_winners=%d winners=", NT, ITERS, multi, none, cbbad, distinct);
		  for (i = 0; i < NT; i++) printf("%s%d", i ? "," : "", winner[i]); printf("\n"); }
		return 0;
	}
	for (i = 0; i < NT; i++) pthread_join(th[i], NULL);
	if (!strcmp(sc, "refcount")) {
		long lost_dec = 0, cb_before = 0, cb_after_bad = 0;
		for (n = 0; n < NN; n++) {
			if (__atomic_load_n(&cb_count[n], __ATOMIC_RELAXED)) cb_before++;
			else { if (json_object_put(shared[n]) != 1) lost_dec++; if (__atomic_load_n(&cb_count[n], __ATOMIC_RELAXED) != 1) cb_after_bad++; }
		}
		printf("RESULT scenario=refcount threads=%d iters=%d nodes=%d lost_decrement=%ld destroyed_early=%ld premature_seen=%d worker_freed=%d callback_not_once=%ld\n", NT, ITERS, NN, lost_dec, cb_before,
		       __atomic_load_n(&premature, __ATOMIC_RELAXED), __atomic_load_n(&freed_reports, __ATOMIC_RELAXED), cb_after_bad);
	} else if (!strcmp(sc, "fmtglobal")) {
		printf("RESULT scenario=fmtglobal threads=%d iters=%d mismatches=%d\n", NT, ITERS, __atomic_load_n(&premature, __ATOMIC_RELAXED));
	} else if (!strcmp(sc, "disjoint")) {
		printf("RESULT scenario=disjoint threads=%d iters=%d mismatches=%d\n", NT, ITERS, __atomic_load_n(&premature, __ATOMIC_RELAXED));
	} else if (!strcmp(sc, "mutate")) {
		/* every re-registration released the previous one (ITERS callbacks spread over the two destructors); the final put frees the node and fires the last registration once more */
		int before = __atomic_load_n(&cb_count[0], __ATOMIC_RELAXED) + __atomic_load_n(&cb2_count, __ATOMIC_RELAXED);
		int r = json_object_put(shared[0]);
		int after = __atomic_load_n(&cb_count[0], __ATOMIC_RELAXED) + __atomic_load_n(&cb2_count, __ATOMIC_RELAXED);
		printf("RESULT scenario=mutate threads=%d iters=%d worker_freed=%d final_put=%d callbacks_before=%d expected_before=%d callbacks_at_final_put=%d\n", NT, ITERS, __atomic_load_n(&freed_reports, __ATOMIC_RELAXED), r, before, ITERS, after - before);
	} else if (!strcmp(sc, "readers")) {
		int r = json_object_put(shared[0]);
		printf("RESULT scenario=readers threads=%d iters=%d read_mismatches=%d worker_freed=%d final_put=%d callbacks=%d\n", NT, ITERS, __atomic_load_n(&premature, __ATOMIC_RELAXED), __atomic_load_n(&freed_reports, __ATOMIC_RELAXED), r, __atomic_load_n(&cb_count[0], __ATOMIC_RELAXED));
	} else {
		struct json_object *o; int distinct = 1; long notfound = 0;
		/* iters == 2: before the late observation the application (re)selects its string hash -- the other one and back to the default, the documented
		 * configuration call; "fixed exactly once per process" leaves no room for a new seed here */
		if (ITERS == 2) { json_global_set_string_hash(JSON_C_STR_HASH_PERLLIKE); json_global_set_string_hash(JSON_C_STR_HASH_DFLT); }
		o = json_object_new_object();
		hashes[NT] = lh_get_hash(json_object_get_object(o), "the fixed key"); json_object_put(o);
		for (i = 0; i < NT; i++) if (hashes[i] != hashes[NT] || hashes_second[i] != hashes[NT]) { distinct = 2; bad++; }
		/* a key inserted during the race must be found (and deletable) afterwards, from another thread */
		for (i = 0; i < NT; i++) {
			struct json_object *v = NULL;
			if (!json_object_object_get_ex(seedobj[i], "the fixed key", &v) || json_object_get_int(v) != i) notfound++;
			json_object_object_del(seedobj[i], "the fixed key");
			if (json_object_object_length(seedobj[i]) != 0) notfound++;
			json_object_put(seedobj[i]);
		}
		printf("RESULT scenario=seed threads=%d hashes_differing_from_late=%ld keys_lost=%ld simultaneous_entrants=%d late=%lu distinct=%d\n", NT, bad, notfound, vf_seed_entrants_max, hashes[NT], distinct);
	}
	(void)maxrefs_seen;
	return 0;
}

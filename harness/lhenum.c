/* lhenum — small-scope exhaustive monitor for linkhash (C06).
 * usage: lhenum <table size> <hash kind 0 identity|1 constant|2 last slot|3 pairs|4 three+neighbour|5 adjacent pairs|6 wide (differs above bit 31)> <max len> <shard> <nshards>
 * Enumerates ALL operation sequences of length <= max len over {add, delete, lookup} x 4 keys on
 * lh_table_new(size, ...) with a caller-supplied hash; "add" is what json_object_object_add_ex does (lookup, then
 * set value or insert).  After EVERY step: lookup of each key, length, lh_foreach order and values, and the
 * head/tail/next/prev chain are compared with an ordered-map model (40 lines below).
 * Output: one line  "lhenum size=.. hash=.. len=.. histories=.. steps=.. resizes=.. tombreuse=.. wrap=.. maxprobe=.. full=.. states=.. mism=.."
 * and, on mismatch, "WITNESS <ops>" (first one) — ops are like a2 d0 l3.
 */
#include <stdio.h>
#include <stdlib.h>
#include <string.h>
#include <stdint.h>
#include "linkhash.h"
#include "json_object.h"
#include <signal.h>
#include <sys/time.h>
#include <unistd.h>

#define NK 4
static const char *KEYS[NK] = {"k0", "k1", "k2", "k3"};
static int hash_kind, tsize;

static unsigned long my_hash(const void *k)
{
	int id = ((const char *)k)[1] - '0';
	switch (hash_kind) {
	case 0: return (unsigned long)id;
	case 1: return 7;
	case 2: return (unsigned long)-1;          /* h % size lands wherever ULONG_MAX % size does; probes wrap around */
	case 3: return (unsigned long)(id / 2) * 3; /* two pairs of colliding keys */
	case 4: return id == 2 ? 1 : 0;              /* three keys share a home slot, the fourth lives in the NEXT slot */
	case 5: return (unsigned long)(id & 1);      /* two keys per home slot, homes adjacent */
	default: return ((unsigned long)(id + 1) << 32) | 5ul; /* full-width hashes that differ only above bit 31 (a caller-supplied 64-bit hash, pointer hashes) */
	}
}
static int my_equal(const void *a, const void *b) { return strcmp((const char *)a, (const char *)b) == 0; }

/* ordered-map model */
struct model { int n; int key[NK]; long val[NK]; };
static int m_find(struct model *m, int k) { int i; for (i = 0; i < m->n; i++) if (m->key[i] == k) return i; return -1; }
static void m_add(struct model *m, int k, long v) { int i = m_find(m, k); if (i >= 0) m->val[i] = v; else { m->key[m->n] = k; m->val[m->n] = v; m->n++; } }
static void m_del(struct model *m, int k) { int i = m_find(m, k); if (i < 0) return; for (; i + 1 < m->n; i++) { m->key[i] = m->key[i + 1]; m->val[i] = m->val[i + 1]; } m->n--; }

static unsigned long long histories, steps, resizes, tombreuse, wraps, fulltables, mism;
static int maxprobe;
static unsigned char seen_state[64][8][64]; /* (size<64, count, tombstones<64) */
static unsigned long long nstates;
static char witness[256];

static const char *check(struct lh_table *t, struct model *m)
{
	int k, i, n = 0; struct lh_entry *e, *last = NULL;
	if (lh_table_length(t) != m->n) return "length";
	for (k = 0; k < NK; k++) {
		void *v = (void *)0x1; int f = lh_table_lookup_ex(t, KEYS[k], &v); int mi = m_find(m, k);
		if (f != (mi >= 0)) return "lookup-found";
		if (f && (long)(intptr_t)v != m->val[mi]) return "lookup-value";
		if (!f && v != NULL) return "lookup-miss-value";
	}
	lh_foreach(t, e) {
		if (n >= m->n) return "iteration-too-long";
		if (strcmp((const char *)lh_entry_k(e), KEYS[m->key[n]]) != 0) return "iteration-order";
		if ((long)(intptr_t)lh_entry_v(e) != m->val[n]) return "iteration-value";
		if (e->prev != last) return "chain-prev";
		last = e; n++;
	}
	if (n != m->n) return "iteration-too-short";
	if (t->tail != last) return "chain-tail";
	if ((t->head == NULL) != (m->n == 0)) return "chain-head";
	/* recorded only: slot-level facts */
	{ int live = 0, tomb = 0, empty = 0;
	  for (i = 0; i < t->size; i++) { if (t->table[i].k == LH_EMPTY) empty++; else if (t->table[i].k == LH_FREED) tomb++; else live++; }
	  if (!empty) fulltables++;
	  if (t->size < 64 && live < 8 && tomb < 64 && !seen_state[t->size][live][tomb]) { seen_state[t->size][live][tomb] = 1; nstates++; } }
	return NULL;
}

static const int *cur_ops; static int cur_len; static volatile int cur_step; static unsigned long long wd_last; static int wd_stalls;
static void wd_tick(int sig)
{
	(void)sig;
	if (steps == wd_last) {
		if (++wd_stalls >= 2) {
			char w[256]; int n = 0, j;
			n += snprintf(w + n, sizeof w - n, "WITNESS hang after step %d:", cur_step);
			for (j = 0; j <= cur_step && j < cur_len; j++) n += snprintf(w + n, sizeof w - n, " %c%d", "adl"[cur_ops[j] / NK], cur_ops[j] % NK);
			n += snprintf(w + n, sizeof w - n, "\n");
			if (write(1, w, (size_t)n)) {}
			_exit(4);
		}
	} else { wd_last = steps; wd_stalls = 0; }
}

static void run(const int *ops, int len)
{
	struct lh_table *t = lh_table_new(tsize, NULL, my_hash, my_equal); struct model m; int i; long ctr = 100;
	m.n = 0;
	histories++; cur_ops = ops; cur_len = len;
	for (i = 0; i < len; i++) {
		int op = ops[i] / NK, k = ops[i] % NK; const char *bad; int oldsize = t->size;
		steps++; cur_step = i;
		if (op == 0) {
			unsigned long h = lh_get_hash(t, KEYS[k]); struct lh_entry *e = lh_table_lookup_entry_w_hash(t, KEYS[k], h);
			ctr++;
			if (e) lh_entry_set_val(e, (void *)(intptr_t)ctr);
			else {
				/* evidence: will this insert reuse a tombstone / wrap around? (computed before the call, from public fields) */
				unsigned long n = h % (unsigned long)t->size; int probes = 0, wrapped = 0;
				if (!(t->count >= t->size * LH_LOAD_FACTOR)) {
					while (t->table[n].k != LH_EMPTY && t->table[n].k != LH_FREED && probes <= t->size) { if ((int)++n == t->size) { n = 0; wrapped = 1; } probes++; }
					if (probes <= t->size && t->table[n].k == LH_FREED) tombreuse++;
					if (wrapped) wraps++;
					if (probes > maxprobe) maxprobe = probes;
				}
				if (lh_table_insert_w_hash(t, KEYS[k], (void *)(intptr_t)ctr, h, JSON_C_OBJECT_ADD_CONSTANT_KEY) != 0) { bad = "insert-failed"; goto fail; }
			}
			m_add(&m, k, ctr);
			if (t->size != oldsize) resizes++;
		} else if (op == 1) {
			struct lh_entry *e = lh_table_lookup_entry(t, KEYS[k]); int r = lh_table_delete(t, KEYS[k]); int present = m_find(&m, k) >= 0;
			if ((r == 0) != present) { bad = "delete-return"; goto fail; }
			/* deleting the same ENTRY a second time: documented to report "not found" (-1) and, of course, to change nothing */
			if (e && r == 0) { int n0 = lh_table_length(t); if (lh_table_delete_entry(t, e) != -1) { bad = "stale-entry-delete-return"; goto fail; } if (lh_table_length(t) != n0) { bad = "stale-entry-delete-changed-length"; goto fail; } }
			m_del(&m, k);
		} else {
			/* lookup only: the check below does it for every key */
		}
		bad = check(t, &m);
		if (bad) {
		fail:
			mism++;
			if (!witness[0]) { int j; char *w = witness; w += sprintf(w, "%s after step %d:", bad, i); for (j = 0; j <= i; j++) w += sprintf(w, " %c%d", "adl"[ops[j] / NK], ops[j] % NK); }
			break;
		}
	}
	lh_table_free(t);
}

int main(int argc, char **argv)
{
	int maxlen, shard, nshards, len; int ops[16];
	if (argc < 6) { fprintf(stderr, "usage\n"); return 3; }
	tsize = atoi(argv[1]); hash_kind = atoi(argv[2]); maxlen = atoi(argv[3]); shard = atoi(argv[4]); nshards = atoi(argv[5]);
	if (maxlen > 12) maxlen = 12;
	{ struct itimerval it; signal(SIGALRM, wd_tick); it.it_interval.tv_sec = 10; it.it_interval.tv_usec = 0; it.it_value = it.it_interval; setitimer(ITIMER_REAL, &it, NULL); }
	for (len = 1; len <= maxlen; len++) {
		/* odometer over (3*NK)^len; sharded by sequence number */
		unsigned long long total = 1, s; int i;
		for (i = 0; i < len; i++) total *= 3 * NK;
		for (s = (unsigned long long)shard; s < total; s += (unsigned long long)nshards) {
			unsigned long long x = s;
			for (i = 0; i < len; i++) { ops[i] = (int)(x % (3 * NK)); x /= 3 * NK; }
			run(ops, len);
		}
	}
	printf("lhenum size=%d hash=%d len=%d histories=%llu steps=%llu resizes=%llu tombreuse=%llu wrap=%llu maxprobe=%d full=%llu states=%llu mism=%llu\n",
	       tsize, hash_kind, maxlen, histories, steps, resizes, tombreuse, wraps, maxprobe, fulltables, nstates, mism);
	if (witness[0]) printf("WITNESS %s\n", witness);
	return 0;
}

/* Shared helpers for the drivers: hex coding, output buffer, canonical typed dump, tree builder. */
#ifndef VF_COMMON_H
#define VF_COMMON_H
#define _GNU_SOURCE 1
#include <errno.h>
#include <inttypes.h>
#include <limits.h>
#include <math.h>
#include <stdarg.h>
#include <stdint.h>
#include <stdio.h>
#include <stdlib.h>
#include <string.h>
#include <unistd.h>

#include "json.h"
#include "json_visit.h"
#include "json_pointer.h"
#include "json_patch.h"
#include "printbuf.h"
#include "linkhash.h"
#include "arraylist.h"

/* ---------- growable output ---------- */
struct obuf { char *b; size_t n, cap; };
static void ob_need(struct obuf *o, size_t k)
{
	if (o->n + k + 1 > o->cap) {
		size_t nc = o->cap ? o->cap * 2 : 1024;
		while (nc < o->n + k + 1) nc *= 2;
		o->b = (char *)realloc(o->b, nc);
		if (!o->b) { fprintf(stderr, "driver: oom\n"); _exit(3); }
		o->cap = nc;
	}
}
static void ob_putc(struct obuf *o, char c) { ob_need(o, 1); o->b[o->n++] = c; o->b[o->n] = 0; }
static void ob_puts(struct obuf *o, const char *s) { size_t k = strlen(s); ob_need(o, k); memcpy(o->b + o->n, s, k); o->n += k; o->b[o->n] = 0; }
static void ob_printf(struct obuf *o, const char *fmt, ...) __attribute__((format(printf, 2, 3)));
static void ob_printf(struct obuf *o, const char *fmt, ...)
{
	char tmp[256]; va_list ap; int k;
	va_start(ap, fmt); k = vsnprintf(tmp, sizeof tmp, fmt, ap); va_end(ap);
	if (k < 0) return;
	if ((size_t)k >= sizeof tmp) { char *t = (char *)malloc((size_t)k + 1); va_start(ap, fmt); vsnprintf(t, (size_t)k + 1, fmt, ap); va_end(ap); ob_puts(o, t); free(t); }
	else ob_puts(o, tmp);
}
static const char hexd[] = "0123456789abcdef";
static void ob_hex(struct obuf *o, const void *p, size_t n)
{
	const unsigned char *s = (const unsigned char *)p; size_t i;
	ob_need(o, 2 * n);
	for (i = 0; i < n; i++) { o->b[o->n++] = hexd[s[i] >> 4]; o->b[o->n++] = hexd[s[i] & 15]; }
	o->b[o->n] = 0;
}
static void ob_reset(struct obuf *o) { o->n = 0; if (o->b) o->b[0] = 0; }

static int hexval(int c) { if (c >= '0' && c <= '9') return c - '0'; if (c >= 'a' && c <= 'f') return c - 'a' + 10; if (c >= 'A' && c <= 'F') return c - 'A' + 10; return -1; }
/* decode hex (token may start with 'x'); returns malloc'd exact-size buffer (+1 NUL byte), length in *n */
static unsigned char *unhex(const char *t, size_t *n)
{
	size_t L, i; unsigned char *b;
	if (*t == 'x' || *t == 's' || *t == 'k') t++;
	L = strlen(t) / 2;
	b = (unsigned char *)malloc(L + 1);
	for (i = 0; i < L; i++) b[i] = (unsigned char)((hexval(t[2 * i]) << 4) | hexval(t[2 * i + 1]));
	b[L] = 0;
	*n = L;
	return b;
}

/* ---------- canonical typed dump (independent of the json-c serializer) ----------
 * tokens separated by single spaces:
 *   n | t | f | i<decimal> | d<16 hex bits> | s<hex bytes> | [ v* ] | { (k<hex> v)* }
 * with_ptr: every non-null node token gets the suffix @<pointer hex>
 */
static void dump_node(struct obuf *o, struct json_object *j, int with_ptr)
{
	switch (json_object_get_type(j)) {
	case json_type_null: ob_putc(o, 'n'); return;
	case json_type_boolean: ob_putc(o, json_object_get_boolean(j) ? 't' : 'f'); break;
	case json_type_int: {
		int64_t v; errno = 0; v = json_object_get_int64(j);
		if (errno == ERANGE && v == INT64_MAX) { uint64_t u = json_object_get_uint64(j); ob_printf(o, "i%" PRIu64, u); }
		else ob_printf(o, "i%" PRId64, v);
		break; }
	case json_type_double: { double d = json_object_get_double(j); uint64_t b; memcpy(&b, &d, 8); ob_printf(o, "d%016" PRIx64, b); break; }
	case json_type_string: { int L = json_object_get_string_len(j); ob_putc(o, 's'); ob_hex(o, json_object_get_string(j), (size_t)L); break; }
	case json_type_array: {
		size_t i, L = json_object_array_length(j);
		ob_putc(o, '[');
		if (with_ptr) ob_printf(o, "@%lx", (unsigned long)(uintptr_t)j);
		for (i = 0; i < L; i++) { ob_putc(o, ' '); dump_node(o, json_object_array_get_idx(j, i), with_ptr); }
		ob_puts(o, " ]");
		return; }
	case json_type_object: {
		ob_putc(o, '{');
		if (with_ptr) ob_printf(o, "@%lx", (unsigned long)(uintptr_t)j);
		{ json_object_object_foreach(j, k, v) { ob_puts(o, " k"); ob_hex(o, k, strlen(k)); ob_putc(o, ' '); dump_node(o, v, with_ptr); } }
		ob_puts(o, " }");
		return; }
	}
	if (with_ptr) ob_printf(o, "@%lx", (unsigned long)(uintptr_t)j);
}

/* ---------- tree builder from tokens ----------
 *   n t f i<dec> u<dec> d<hexbits> D<hexbits>:<hex text> s<hex> [ ... ] { k<hex> v ... }
 * returns 0 on success; *out may legitimately be NULL (JSON null) */
/* names handed to JSON_C_OBJECT_ADD_CONSTANT_KEY: caller-owned storage.  vf_interned_scramble(1) overwrites every non-empty name in place (as a caller
 * recycling its buffers would, once the objects built from them are gone), vf_interned_scramble(0) restores them. */
static char *vf_interned[4096]; static int vf_ninterned;
static void vf_interned_scramble(int on)
{
	static int scrambled; int i;
	if (!!on == scrambled) return;
	for (i = 0; i < vf_ninterned; i++) if (vf_interned[i][0]) vf_interned[i][0] ^= 0x15;
	scrambled = !!on;
}
static int build_node(char **tok, int ntok, int *pos, struct json_object **out)
{
	char *t;
	if (*pos >= ntok) return -1;
	t = tok[(*pos)++];
	switch (t[0]) {
	case 'n': *out = NULL; return 0;
	case 't': *out = json_object_new_boolean(1); return *out ? 0 : -1;
	case 'f': *out = json_object_new_boolean(0); return *out ? 0 : -1;
	case 'i': *out = json_object_new_int64(strtoll(t + 1, NULL, 10)); return *out ? 0 : -1;
	case 'u': *out = json_object_new_uint64(strtoull(t + 1, NULL, 10)); return *out ? 0 : -1;
	case 'd': { uint64_t b = strtoull(t + 1, NULL, 16); double d; memcpy(&d, &b, 8); *out = json_object_new_double(d); return *out ? 0 : -1; }
	case 'D': { char *c = strchr(t, ':'); uint64_t b; double d; size_t n; unsigned char *s;
		if (!c) return -1; *c = 0; b = strtoull(t + 1, NULL, 16); memcpy(&d, &b, 8); s = unhex(c + 1, &n);
		*out = json_object_new_double_s(d, (char *)s); free(s); *c = ':'; return *out ? 0 : -1; }
	case 's': { size_t n; unsigned char *s = unhex(t, &n); *out = json_object_new_string_len((char *)s, (int)n); free(s); return *out ? 0 : -1; }
	case '[': {
		struct json_object *a = json_object_new_array();
		if (!a) return -1;
		while (*pos < ntok && tok[*pos][0] != ']') {
			struct json_object *c = NULL;
			if (build_node(tok, ntok, pos, &c) < 0 || json_object_array_add(a, c) != 0) { json_object_put(c); json_object_put(a); return -1; }
		}
		if (*pos >= ntok) { json_object_put(a); return -1; }
		(*pos)++;
		*out = a; return 0; }
	case '{': {
		struct json_object *ob = json_object_new_object();
		if (!ob) return -1;
		while (*pos < ntok && tok[*pos][0] != '}') {
			struct json_object *c = NULL; size_t n; unsigned char *k;
			int constant;
			if (tok[*pos][0] != 'k' && tok[*pos][0] != 'K') { json_object_put(ob); return -1; }
			constant = tok[*pos][0] == 'K';   /* K<hex>: member added with JSON_C_OBJECT_ADD_CONSTANT_KEY (the key is interned for the life of the process) */
			k = unhex(tok[(*pos)++] + 1, &n);
			if (constant) {
				int ii;
				for (ii = 0; ii < vf_ninterned; ii++) if (!strcmp(vf_interned[ii], (char *)k)) break;
				if (ii == vf_ninterned) { if (vf_ninterned < 4096) vf_interned[vf_ninterned++] = strdup((char *)k); else constant = 0; }
				if (constant) { free(k); k = NULL;
					if (build_node(tok, ntok, pos, &c) < 0 || json_object_object_add_ex(ob, vf_interned[ii], c, JSON_C_OBJECT_ADD_CONSTANT_KEY) != 0) { json_object_put(c); json_object_put(ob); return -1; }
					continue; }
			}
			if (build_node(tok, ntok, pos, &c) < 0 || json_object_object_add(ob, (char *)k, c) != 0) { free(k); json_object_put(c); json_object_put(ob); return -1; }
			free(k);
		}
		if (*pos >= ntok) { json_object_put(ob); return -1; }
		(*pos)++;
		*out = ob; return 0; }
	}
	return -1;
}

/* ---------- progress watchdog ----------
 * A driver command normally takes micro- to milliseconds.  If the progress counter does not move for two consecutive
 * ticks (2 x VF_WATCHDOG_TICK seconds, default 15 s each) the library call in flight does not return: say so and exit
 * with status 124, so that a hang is attributed to its case within seconds instead of after the shard's long timeout. */
#include <signal.h>
#include <sys/time.h>
static volatile unsigned long vf_progress;
static unsigned long vf_wd_last; static int vf_wd_stalls;
static void vf_wd_tick(int sig)
{
	(void)sig;
	if (vf_progress == vf_wd_last) {
		if (++vf_wd_stalls >= 2) { static const char m[] = "VF-WATCHDOG: no progress, the call in flight does not return\n"; if (write(2, m, sizeof m - 1)) {} _exit(124); }
	} else { vf_wd_last = vf_progress; vf_wd_stalls = 0; }
}
/* stale errno: VF_AMBIENT_ERRNO=<n> makes the driver set errno = n before every command */
static int vf_ambient_errno_v = -1;
static inline void vf_ambient_errno(void)
{
	if (vf_ambient_errno_v == -1) { const char *e = getenv("VF_AMBIENT_ERRNO"); vf_ambient_errno_v = e ? atoi(e) : 0; }
	if (vf_ambient_errno_v > 0) errno = vf_ambient_errno_v;
}
static void vf_watchdog_init(void)
{
	struct itimerval it; const char *e = getenv("VF_WATCHDOG_TICK"); int tick = e ? atoi(e) : 15;
	if (tick <= 0) return;
	signal(SIGALRM, vf_wd_tick);
	it.it_interval.tv_sec = tick; it.it_interval.tv_usec = 0; it.it_value = it.it_interval;
	setitimer(ITIMER_REAL, &it, NULL);
}

/* split a line in place into tokens */
static int split_tokens(char *line, char ***tokv, int *cap)
{
	int n = 0; char *p = line;
	for (;;) {
		while (*p == ' ' || *p == '\n' || *p == '\r') p++;
		if (!*p) break;
		if (n >= *cap) { *cap = *cap ? *cap * 2 : 64; *tokv = (char **)realloc(*tokv, sizeof(char *) * (size_t)*cap); }
		(*tokv)[n++] = p;
		while (*p && *p != ' ' && *p != '\n' && *p != '\r') p++;
		if (*p) *p++ = 0;
	}
	return n;
}

#endif

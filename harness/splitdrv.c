/* splitdrv — differential monitors for the incremental parser (C03, C04).
 *
 * X <flagmask> <max3> <nrand> <seed> <hex>    split independence:
 *     for each flag set f selected by flagmask (bit i = combination i of STRICT/ALLOW_TRAILING/VALIDATE_UTF8)
 *       one-shot result of a FRESH parser on EVERY prefix S[0..p)   (exact-size heap copies: ASan sees any over-read)
 *       then partitions: all 2-chunk splits if n <= 256, all 3-chunk splits if n <= max3, all-1-byte, nrand random
 *       partitions (empty chunks allowed); every call j of a partition is compared with oneshot[p_j]
 *       (status+error code, end position counted from the start, typed-dump hash); a partition stops as soon as a
 *       call did not report "continue" (the property's premise).
 * T <flagmask> <nrand> <seed> <hex>           stream of concatenated documents resumed at the reported end:
 *       sequence of (value, global end) for one-shot feeding vs chunked feeding.
 * R <flags> <depth> <hexA> <hexY>             reset/reuse: parse A, json_tokener_reset, parse Y  vs  fresh parse of Y;
 *       ledger: blocks held after reset vs new parser / parser after a completed parse; growth over 100 cycles.
 * G <flags> <depth> <hex>                     guard-page placement + len=-1 interface + trichotomy (C04)
 * Z                                           histogram of (state,saved_state) seen at chunk boundaries
 */
#include "vf_common.h"
#include "vf_shim.h"
#include <sys/mman.h>

static struct obuf out, dtmp;
static char **tokv; static int tokcap;
static long base_live;

static const int FLAGSETS[8] = {0, 1, 2, 3, 0x10, 0x11, 0x12, 0x13};

struct res { int err; int nonnull; size_t end; uint64_t dh; };

static uint64_t fnv(const char *s, size_t n) { uint64_t h = 1469598103934665603ull; size_t i; for (i = 0; i < n; i++) { h ^= (unsigned char)s[i]; h *= 1099511628211ull; } return h; }

static uint64_t sm_state;
static uint64_t sm(void) { uint64_t z = (sm_state += 0x9E3779B97F4A7C15ull); z = (z ^ (z >> 30)) * 0xBF58476D1CE4E5B9ull; z = (z ^ (z >> 27)) * 0x94D049BB133111EBull; return z ^ (z >> 31); }

static unsigned long hist[32][32];
static unsigned long errhist[32];
static unsigned long reset_state_hist[32][32];
static long n_tri_viol;
static char tri_msg[256];

static void take(struct json_tokener *tok, struct json_object *o, size_t len, struct res *r)
{
	vf_progress++;   /* a library call has returned: the watchdog judges single calls, not whole driver commands (a 650 KB number fed in 70 000 small pieces is slow, not stuck) */
	r->err = (int)json_tokener_get_error(tok);
	r->end = json_tokener_get_parse_end(tok);
	r->nonnull = o != NULL;
	r->dh = 0;
	if (r->err >= 0 && r->err < 32) errhist[r->err]++;
	if (o || r->err == json_tokener_success) { ob_reset(&dtmp); dump_node(&dtmp, o, 0); r->dh = fnv(dtmp.b, dtmp.n); }
	/* C04 trichotomy, checked on every single call this driver makes */
	if ((o && r->err != json_tokener_success) || r->err < 0 || r->err > (int)json_tokener_error_memory || r->end > len) {
		if (!n_tri_viol) snprintf(tri_msg, sizeof tri_msg, "nonnull=%d err=%d end=%zu len=%zu", r->nonnull, r->err, r->end, len);
		n_tri_viol++;
	}
	json_object_put(o);
}

static void oneshot(const unsigned char *s, size_t p, int flags, int depth, struct res *r)
{
	struct json_tokener *tok = depth > 0 ? json_tokener_new_ex(depth) : json_tokener_new();
	char *buf = (char *)malloc(p ? p : 1);
	struct json_object *o;
	memcpy(buf, s, p);
	json_tokener_set_flags(tok, flags);
	o = json_tokener_parse_ex(tok, buf, (int)p);
	take(tok, o, p, r);
	json_tokener_free(tok);
	free(buf);
}

static int same(const struct res *a, const struct res *b) { return a->err == b->err && a->end == b->end && a->dh == b->dh && a->nonnull == b->nonnull; }

struct stats { unsigned long calls, parts, vac, mism, bcont, strlen_last, null_empty; int nwit; };

/* one-shot results are computed on demand for long inputs (a fresh parser on every prefix is quadratic) */
static unsigned char *os_have; static unsigned long os_lazy_calls;
static const struct res *OS(const unsigned char *s, struct res *os, size_t i, int flags)
{
	if (os_have && !os_have[i]) { oneshot(s, i, flags, 0, &os[i]); os_have[i] = 1; os_lazy_calls++; }
	return &os[i];
}
/* check one partition; cuts[0..nc) are the chunk end positions (non-decreasing, last == n) */
static void check_partition(const unsigned char *s, size_t n, int flags, struct res *os, const size_t *cuts, int nc, struct stats *st)
{
	struct json_tokener *tok = json_tokener_new();
	size_t prev = 0; int j;
	json_tokener_set_flags(tok, flags);
	st->parts++; vf_progress++;
	for (j = 0; j < nc; j++) {
		size_t len = cuts[j] - prev;
		char *buf = (char *)malloc(len ? len : 1);
		struct json_object *o; struct res r;
		memcpy(buf, s + prev, len);
		/* when the input ends in a NUL and the last piece holds no other one, every other partition hands that piece over as a C string (len = -1): the documented
		 * alternative way of saying the same thing, also in the middle of a document */
		/* an empty piece may come as (NULL, 0) -- a caller that has nothing to hand over has no buffer either */
		if (len == 0 && (st->parts & 2)) { free(buf); buf = NULL; st->null_empty++; }
		if (j == nc - 1 && len > 0 && cuts[j] == n && s[n - 1] == 0 && !memchr(s + prev, 0, len - 1) && (st->parts & 1)) { o = json_tokener_parse_ex(tok, buf, -1); st->strlen_last++; }
		else o = json_tokener_parse_ex(tok, buf, (int)len);
		take(tok, o, len, &r);
		free(buf);
		st->calls++;
		r.end += prev;
		if (!same(&r, OS(s, os, cuts[j], flags))) {
			st->mism++;
			if (st->nwit < 2) {
				int k;
				st->nwit++;
				ob_printf(&out, " | f=%d cuts=", flags);
				for (k = 0; k < nc; k++) ob_printf(&out, "%s%zu", k ? "," : "", cuts[k]);
				ob_printf(&out, " call=%d exp=%d,%zu,%d,%016" PRIx64 " got=%d,%zu,%d,%016" PRIx64, j, os[cuts[j]].err, os[cuts[j]].end, os[cuts[j]].nonnull, os[cuts[j]].dh, r.err, r.end, r.nonnull, r.dh);
			}
			break;
		}
		if (r.err != json_tokener_continue) { if (j + 1 < nc) st->vac++; break; }
		if (j + 1 < nc) {
			int a = (int)tok->stack[tok->depth].state, b = (int)tok->stack[tok->depth].saved_state;
			if (a >= 0 && a < 32 && b >= 0 && b < 32) hist[a][b]++;
			st->bcont++;
		}
		prev = cuts[j];
	}
	json_tokener_free(tok);
}

static void cmd_split(int nt, char **t)
{
	int mask, f; size_t n, max3, i, j; long nrand; unsigned char *s; struct res *os; struct stats st;
	if (nt < 6) { ob_puts(&out, "! X args"); return; }
	mask = (int)strtol(t[1], NULL, 0); max3 = (size_t)strtol(t[2], NULL, 0); nrand = strtol(t[3], NULL, 0); sm_state = strtoull(t[4], NULL, 0);
	s = unhex(t[5], &n);
	os = (struct res *)malloc(sizeof(*os) * (n + 1));
	memset(&st, 0, sizeof st);
	ob_puts(&out, "=");
	for (f = 0; f < 8; f++) {
		int flags = FLAGSETS[f];
		size_t cuts[64];
		if (!(mask & (1 << f))) continue;
		if (n > 8192) { free(os_have); os_have = (unsigned char *)calloc(n + 1, 1); os_lazy_calls = 0; }
		else { free(os_have); os_have = NULL; for (i = 0; i <= n; i++) oneshot(s, i, flags, 0, &os[i]); st.calls += n + 1; }
		if ((n <= 256 || nrand < 0) && n <= 8192)
			for (i = 0; i <= n; i++) { cuts[0] = i; cuts[1] = n; check_partition(s, n, flags, os, cuts, 2, &st); }
		if (n <= max3)
			for (i = 0; i <= n; i++) for (j = i; j <= n; j++) { cuts[0] = i; cuts[1] = j; cuts[2] = n; check_partition(s, n, flags, os, cuts, 3, &st); }
		if (n > 0 && n <= 4096) {
			size_t *c1 = (size_t *)malloc(sizeof(size_t) * n);
			for (i = 0; i < n; i++) c1[i] = i + 1;
			check_partition(s, n, flags, os, c1, (int)n, &st);
			free(c1);
		}
		for (i = 0; (long)i < (nrand < 0 ? -nrand : nrand); i++) {
			int nc = 1 + (int)(sm() % 6), k;
			for (k = 0; k < nc - 1; k++) cuts[k] = n ? (size_t)(sm() % (n + 1)) : 0;
			cuts[nc - 1] = n;
			{ int a, b; for (a = 0; a < nc; a++) for (b = a + 1; b < nc; b++) if (cuts[b] < cuts[a]) { size_t x = cuts[a]; cuts[a] = cuts[b]; cuts[b] = x; } }
			check_partition(s, n, flags, os, cuts, nc, &st);
		}
		if (os_have) st.calls += os_lazy_calls;
	}
	{ /* everything the parsers held must be gone */
		struct obuf tmp = out; (void)tmp;
	}
	{
		char head[200];
		snprintf(head, sizeof head, " n=%zu calls=%lu parts=%lu vac=%lu bcont=%lu strlenlast=%lu nullempty=%lu mism=%lu tri=%ld live=%ld", n, st.calls, st.parts, st.vac, st.bcont, st.strlen_last, st.null_empty, st.mism, n_tri_viol, vf_live_blocks - base_live);
		/* prepend the head after "=" : simplest is to append; the reader parses key=value pairs anywhere */
		ob_puts(&out, head);
		if (n_tri_viol) { ob_printf(&out, " | trichotomy %s", tri_msg); }
	}
	free(os); free(s);
}

/* ---- streams ---- */
/* Feed the chunks to ONE parser; after each completed value resume at the reported end.  Every call that is made is
 * compared with a fresh parser's single call on the bytes from the point where the current document began up to the
 * end of the current chunk -- the property's statement applied to each document of the stream. */
static void cmd_stream(int nt, char **t)
{
	int mask, f; size_t n; long nrand; unsigned char *s; unsigned long parts = 0, mism = 0, vals = 0, calls = 0; int nwit = 0;
	if (nt < 5) { ob_puts(&out, "! T args"); return; }
	mask = (int)strtol(t[1], NULL, 0); nrand = strtol(t[2], NULL, 0); sm_state = strtoull(t[3], NULL, 0);
	s = unhex(t[4], &n);
	ob_puts(&out, "=");
	for (f = 0; f < 8; f++) {
		int flags = FLAGSETS[f]; long it;
		if (!(mask & (1 << f))) continue;
		for (it = 0; it < nrand + (long)(n <= 128 ? n + 1 : 0) + 1; it++) {
			size_t cuts[8], prev = 0, vstart = 0; int nc, k, x, y, j, stop = 0, guard = 0;
			struct json_tokener *tok;
			if (it < nrand) {
				nc = 2 + (int)(sm() % 5);
				for (k = 0; k < nc - 1; k++) cuts[k] = (size_t)(sm() % (n + 1));
				cuts[nc - 1] = n;
				for (x = 0; x < nc; x++) for (y = x + 1; y < nc; y++) if (cuts[y] < cuts[x]) { size_t z = cuts[x]; cuts[x] = cuts[y]; cuts[y] = z; }
			} else if (it == nrand) { nc = 1; cuts[0] = n; }
			else { nc = 2; cuts[0] = (size_t)(it - nrand - 1); cuts[1] = n; }
			tok = json_tokener_new(); json_tokener_set_flags(tok, flags);
			parts++;
			for (j = 0; j < nc && !stop; j++) {
				size_t off = prev;
				while (!stop && guard++ < 2000) {
					size_t len = cuts[j] - off; char *buf = (char *)malloc(len ? len : 1); struct json_object *o; struct res r, fr;
					memcpy(buf, s + off, len);
					o = json_tokener_parse_ex(tok, buf, (int)len);
					take(tok, o, len, &r); free(buf);
					calls++;
					oneshot(s + vstart, cuts[j] - vstart, flags, 0, &fr);
					if (r.err != fr.err || r.dh != fr.dh || r.nonnull != fr.nonnull || off + r.end != vstart + fr.end) {
						mism++; stop = 1;
						if (nwit < 2) {
							nwit++;
							ob_printf(&out, " | f=%d cuts=", flags);
							for (k = 0; k < nc; k++) ob_printf(&out, "%s%zu", k ? "," : "", cuts[k]);
							ob_printf(&out, " exp=%d,%zu,%d,%016" PRIx64 ",doc@%zu got=%d,%zu,%d,%016" PRIx64, fr.err, vstart + fr.end, fr.nonnull, fr.dh, vstart, r.err, off + r.end, r.nonnull, r.dh);
						}
						break;
					}
					if (r.err == json_tokener_continue) break;
					if (r.err != json_tokener_success) { stop = 1; break; }
					vals++;
					off += r.end; vstart = off;
					if (off >= cuts[j]) break;
				}
				prev = cuts[j];
			}
			json_tokener_free(tok);
		}
	}
	ob_printf(&out, " n=%zu parts=%lu calls=%lu vals=%lu mism=%lu tri=%ld live=%ld", n, parts, calls, vals, mism, n_tri_viol, vf_live_blocks - base_live);
	free(s);
}

/* ---- reset / reuse ---- */
static void cmd_reset(int nt, char **t)
{
	int flags, flags_y, depth; size_t na, ny; unsigned char *a, *y; struct json_tokener *tok, *fresh; struct res r1, r2, rf; long live_new, live_after_ok, live_reset, live_cycle1 = 0, live_cycleN = 0; int i;
	char *buf; struct json_object *o; int a_err; int st_a, ss_a, depth_a; size_t chunk_len[64]; int nchunks = 0;
	if (nt < 5) { ob_puts(&out, "! R args"); return; }
	flags = (int)strtol(t[1], NULL, 0); depth = (int)strtol(t[2], NULL, 0);
	{ /* A may be given as comma-separated hex chunks */
	  char *p = t[3], *q; size_t tot = 0; nchunks = 0;
	  if (*p == 'x') p++;
	  a = (unsigned char *)malloc(strlen(p) / 2 + 2);
	  while (nchunks < 64) {
		size_t L; unsigned char *part;
		q = strchr(p, ','); if (q) *q = 0;
		part = unhex(p, &L); memcpy(a + tot, part, L); free(part);
		chunk_len[nchunks++] = L; tot += L;
		if (!q) break;
		p = q + 1;
	  }
	  na = tot;
	}
	y = unhex(t[4], &ny);
	flags_y = nt > 5 ? (int)strtol(t[5], NULL, 0) : flags;   /* the second document may be parsed under other flags (set after the reset) */
	/* reference: blocks a new parser holds, and what it holds after one completed parse */
	{ long b0 = vf_live_blocks; struct json_tokener *t0 = depth > 0 ? json_tokener_new_ex(depth) : json_tokener_new();
	  live_new = vf_live_blocks - b0;
	  o = json_tokener_parse_ex(t0, "[1,\"abcdefghijklmnopqrstuvwxyzabcdefghijklmnopqrstuvwxyz\"] ", 60); json_object_put(o);
	  live_after_ok = vf_live_blocks - b0; json_tokener_free(t0); }
	{ long b0 = vf_live_blocks;
	tok = depth > 0 ? json_tokener_new_ex(depth) : json_tokener_new();
	json_tokener_set_flags(tok, flags);
	{ /* feed A in the chunks given (comma-separated in the command) until a call does not report continue */
	  size_t offa = 0; int ci;
	  r1.err = json_tokener_continue;
	  for (ci = 0; ci < nchunks && r1.err == json_tokener_continue; ci++) {
		size_t len = chunk_len[ci];
		buf = (char *)malloc(len ? len : 1); memcpy(buf, a + offa, len);
		o = json_tokener_parse_ex(tok, buf, (int)len); take(tok, o, len, &r1); free(buf);
		offa += len;
	  }
	}
	a_err = r1.err; st_a = (int)tok->stack[tok->depth].state; ss_a = (int)tok->stack[tok->depth].saved_state; depth_a = tok->depth;
	if (st_a >= 0 && st_a < 32 && ss_a >= 0 && ss_a < 32) reset_state_hist[st_a][ss_a]++;
	if (flags_y != flags && nt > 6) json_tokener_set_flags(tok, flags_y);   /* 7th token present: the new flags are set BEFORE the reset (whatever state the tokener is in) */
	json_tokener_reset(tok);
	live_reset = vf_live_blocks - b0;
	/* repeated interrupt-then-reset cycles must not accumulate anything */
	for (i = 0; i < 100; i++) {
		buf = (char *)malloc(na ? na : 1); memcpy(buf, a, na);
		o = json_tokener_parse_ex(tok, buf, (int)na); json_object_put(o); free(buf);
		json_tokener_reset(tok);
		if (i == 0) live_cycle1 = vf_live_blocks - b0;
	}
	live_cycleN = vf_live_blocks - b0;
	if (flags_y != flags && nt <= 6) json_tokener_set_flags(tok, flags_y);
	buf = (char *)malloc(ny ? ny : 1); memcpy(buf, y, ny);
	o = json_tokener_parse_ex(tok, buf, (int)ny); take(tok, o, ny, &r2); free(buf);
	json_tokener_free(tok);
	}
	fresh = depth > 0 ? json_tokener_new_ex(depth) : json_tokener_new();
	json_tokener_set_flags(fresh, flags_y);
	buf = (char *)malloc(ny ? ny : 1); memcpy(buf, y, ny);
	o = json_tokener_parse_ex(fresh, buf, (int)ny); take(fresh, o, ny, &rf); free(buf);
	json_tokener_free(fresh);
	ob_printf(&out, "= a_err=%d st=%d ss=%d depth=%d same=%d reused=%d,%zu,%016" PRIx64 " fresh=%d,%zu,%016" PRIx64 " live_new=%ld live_ok=%ld live_reset=%ld live_c1=%ld live_cN=%ld tri=%ld live=%ld",
	          a_err, st_a, ss_a, depth_a, same(&r2, &rf), r2.err, r2.end, r2.dh, rf.err, rf.end, rf.dh, live_new, live_after_ok, live_reset, live_cycle1, live_cycleN, n_tri_viol, vf_live_blocks - base_live);
	free(a); free(y);
}

/* ---- guard page + len=-1 ---- */
static void cmd_guard(int nt, char **t)
{
	int flags, depth; size_t n; unsigned char *s; long pg = sysconf(_SC_PAGESIZE); size_t span; char *m, *p; struct json_tokener *tok; struct json_object *o; struct res r1, r2, r3;
	if (nt < 4) { ob_puts(&out, "! G args"); return; }
	flags = (int)strtol(t[1], NULL, 0); depth = (int)strtol(t[2], NULL, 0);
	s = unhex(t[3], &n);
	span = ((n + 1 + (size_t)pg - 1) / (size_t)pg) * (size_t)pg;
	m = (char *)mmap(NULL, span + (size_t)pg, PROT_READ | PROT_WRITE, MAP_PRIVATE | MAP_ANONYMOUS, -1, 0);
	if (m == MAP_FAILED) { ob_puts(&out, "! mmap"); free(s); return; }
	mprotect(m + span, (size_t)pg, PROT_NONE);
	/* (1) exactly n bytes flush against the inaccessible page */
	p = m + span - n; memcpy(p, s, n);
	tok = depth > 0 ? json_tokener_new_ex(depth) : json_tokener_new(); json_tokener_set_flags(tok, flags);
	o = json_tokener_parse_ex(tok, p, (int)n); take(tok, o, n, &r1); json_tokener_free(tok);
	/* (2) len = -1: the bytes up to the first NUL plus that NUL, then the guard page */
	{ size_t sl = strnlen((char *)s, n); p = m + span - (sl + 1); memcpy(p, s, sl); p[sl] = 0;
	  tok = depth > 0 ? json_tokener_new_ex(depth) : json_tokener_new(); json_tokener_set_flags(tok, flags);
	  o = json_tokener_parse_ex(tok, p, -1); take(tok, o, sl + 1, &r2); json_tokener_free(tok);
	  /* the same bytes with an explicit length must give the same result */
	  tok = depth > 0 ? json_tokener_new_ex(depth) : json_tokener_new(); json_tokener_set_flags(tok, flags);
	  o = json_tokener_parse_ex(tok, p, (int)sl + 1); take(tok, o, sl + 1, &r3); json_tokener_free(tok);
	}
	munmap(m, span + (size_t)pg);
	{ /* (3) len < -1 must be refused with the size error; (4) random chunking with these flags/depth: outcome trichotomy only */
	  struct res r4; size_t off = 0; int sizeerr;
	  tok = depth > 0 ? json_tokener_new_ex(depth) : json_tokener_new(); json_tokener_set_flags(tok, flags);
	  o = json_tokener_parse_ex(tok, (char *)s, -2); sizeerr = (int)json_tokener_get_error(tok); if (sizeerr >= 0 && sizeerr < 32) errhist[sizeerr]++; json_object_put(o);
	  if (o || sizeerr != (int)json_tokener_error_size) { if (!n_tri_viol) snprintf(tri_msg, sizeof tri_msg, "len=-2 gave err=%d nonnull=%d", sizeerr, o != NULL); n_tri_viol++; }
	  json_tokener_reset(tok);
	  /* the same refusal from a tokener that has parsed something before and was reset: it consumed nothing, so it reports position 0, like a fresh one */
	  o = json_tokener_parse_ex(tok, (char *)s, (int)n); json_object_put(o); json_tokener_reset(tok);
	  o = json_tokener_parse_ex(tok, (char *)s, -2); json_object_put(o);
	  if (json_tokener_get_error(tok) != json_tokener_error_size || json_tokener_get_parse_end(tok) != 0) { if (!n_tri_viol) snprintf(tri_msg, sizeof tri_msg, "len=-2 after use+reset gave err=%d end=%zu", (int)json_tokener_get_error(tok), json_tokener_get_parse_end(tok)); n_tri_viol++; }
	  json_tokener_reset(tok);
	  sm_state = n * 31 + (size_t)flags;
	  while (off < n) {
		size_t len = 1 + (size_t)(sm() % 17); char *b2;
		if (len > n - off) len = n - off;
		b2 = (char *)malloc(len); memcpy(b2, s + off, len);
		o = json_tokener_parse_ex(tok, b2, (int)len); take(tok, o, len, &r4); free(b2);
		if (r4.err != json_tokener_continue) json_tokener_reset(tok);
		off += len;
	  }
	  json_tokener_free(tok);
	}
	ob_printf(&out, "= n=%zu r=%d,%zu m1=%d,%zu explicit_same=%d tri=%ld live=%ld", n, r1.err, r1.end, r2.err, r2.end, same(&r2, &r3), n_tri_viol, vf_live_blocks - base_live);
	if (n_tri_viol) ob_printf(&out, " | trichotomy %s", tri_msg);
	free(s);
}

static void flush_out(void) { if (out.n) { fwrite(out.b, 1, out.n, stdout); ob_reset(&out); } fflush(stdout); }

static int flush_each;
int main(int argc, char **argv)
{
	flush_each = getenv("VF_FLUSH") != NULL;
	vf_watchdog_init();
	char *line = NULL; size_t cap = 0; ssize_t k; FILE *in = stdin;
	if (argc > 1) { in = fopen(argv[1], "r"); if (!in) { perror(argv[1]); return 3; } }
	if (argc > 2) { if (!freopen(argv[2], "w", stdout)) { perror(argv[2]); return 3; } }
	while ((k = getline(&line, &cap, in)) > 0) {
		int nt = split_tokens(line, &tokv, &tokcap);
		if (!nt) continue;
		if (!strcmp(tokv[0], "CASE")) { base_live = vf_live_blocks; n_tri_viol = 0; ob_printf(&out, "C %s\n", nt > 1 ? tokv[1] : "?"); flush_out(); continue; }
		if (!strcmp(tokv[0], "END")) { ob_printf(&out, "E live=%ld bad=%ld\n", vf_live_blocks - base_live, vf_bad_frees); flush_out(); continue; }
		vf_progress++;
		vf_ambient_errno();
		if (!strcmp(tokv[0], "K") && nt >= 4) {
			/* K <flags> <hex> <cut>...: status of ONE call on the first <cut> bytes (fresh tokener, exact-size block) for every cut given: = <err>,<end> ... */
			size_t n; unsigned char *b = unhex(tokv[2], &n); int i;
			ob_puts(&out, "=");
			for (i = 3; i < nt; i++) {
				size_t cut = (size_t)strtoul(tokv[i], NULL, 0); char *ex; struct json_tokener *tk = json_tokener_new(); struct json_object *o;
				if (cut > n) cut = n;
				ex = (char *)malloc(cut ? cut : 1); memcpy(ex, b, cut);
				json_tokener_set_flags(tk, (int)strtol(tokv[1], NULL, 0));
				o = json_tokener_parse_ex(tk, ex, (int)cut);
				ob_printf(&out, " %d,%zu", (int)json_tokener_get_error(tk), json_tokener_get_parse_end(tk));
				json_object_put(o); json_tokener_free(tk); free(ex);
			}
			free(b);
		}
		else if (!strcmp(tokv[0], "X")) cmd_split(nt, tokv);
		else if (!strcmp(tokv[0], "T")) cmd_stream(nt, tokv);
		else if (!strcmp(tokv[0], "R")) cmd_reset(nt, tokv);
		else if (!strcmp(tokv[0], "G")) cmd_guard(nt, tokv);
		else if (!strcmp(tokv[0], "Z")) {
			int a, b; ob_puts(&out, "= hist");
			for (a = 0; a < 32; a++) for (b = 0; b < 32; b++) if (hist[a][b]) ob_printf(&out, " %d/%d:%lu", a, b, hist[a][b]);
			ob_puts(&out, " errs");
			for (a = 0; a < 32; a++) if (errhist[a]) ob_printf(&out, " e%d:%lu", a, errhist[a]);
			ob_puts(&out, " resetat");
			for (a = 0; a < 32; a++) for (b = 0; b < 32; b++) if (reset_state_hist[a][b]) ob_printf(&out, " r%d/%d:%lu", a, b, reset_state_hist[a][b]);
		}
		else ob_printf(&out, "! unknown %s", tokv[0]);
		ob_putc(&out, '\n');
		if (flush_each) flush_out();
	}
	flush_out();
	return 0;
}

/* iso_consumer.c -- a consumer of the PUBLIC headers compiled as strict ISO C (-std=c99): json_object.h then selects the non-GNU
 * variants of its iteration macros (no statement expressions / typeof).  Same contract, other code: deleting the current key while
 * iterating must not disturb the rest of the iteration.  Linked into jcdrv; used by OITDEL ... i */
#include "json.h"
#include <stddef.h>

int vf_iso_foreach_del(struct json_object *o, unsigned long mask, void (*emit)(const char *key, struct json_object *val, void *arg), void *arg)
{
	int i = 0;
	json_object_object_foreach(o, key, val)
	{
		emit(key, val, arg);
		if (i < 64 && ((mask >> i) & 1))
			json_object_object_del(o, key);
		i++;
	}
	return i;
}

#!/bin/sh
# usage: tools/fixcommit.sh <commit message file>   -- commits /repo's working tree as a fix only if the pinned suite passes
set -e
cd /verif
out=$(VF_BASELINE_FAST=1 ./vf baseline | tail -1)
echo "$out"
case "$out" in
  *"25 passed, 0 failed"*) git -C /repo commit -q -a -F "$1" && git -C /repo log --oneline | head -1 ;;
  *) echo "NOT COMMITTED: suite does not pass"; exit 1 ;;
esac

#!/usr/bin/python3
"""tools/reseed.py [-j N] [<seed id or property prefix>...]: regression of the CURRENT checks against the kept seeded changes.
For each /verif/seeded/<id>/ (all, or those whose id starts with one of the arguments): scratch worktree of /repo under /tmp,
apply patch.diff, run `VF_REPO=<worktree> ./vf check <P> --tier quick` for the checks that meta.json lists under caught_by
(the property's own check if none), remove the worktree.  Nothing in /repo or in /verif's evidence/replay is touched
(VF_REPO runs write below build/out-<hash>, removed afterwards).
Prints one line per seed: `<id> <check>=<exit>... still-caught|LOST|still-not-caught|now-caught` and writes seeded/RECHECK.json."""
import concurrent.futures
import hashlib
import json
import os
import re
import shutil
import subprocess
import sys

VERIF = os.path.dirname(os.path.dirname(os.path.abspath(__file__)))


def sh(cmd, **kw):
    return subprocess.run(cmd, shell=True, stdout=subprocess.PIPE, stderr=subprocess.STDOUT, text=True, errors="replace", **kw)


def one(sid):
    d = os.path.join(VERIF, "seeded", sid)
    meta = json.load(open(os.path.join(d, "meta.json")))
    prop = meta.get("property", sid.split("_")[0])
    checks = meta.get("caught_by") or [prop]
    wt = "/tmp/reseed_%s" % sid
    sh("git -C /repo worktree remove --force %s" % wt)
    shutil.rmtree(wt, ignore_errors=True)
    a = sh("git -C /repo worktree add -q --detach %s HEAD" % wt)
    res = {}
    try:
        a = sh("git -C %s apply %s" % (wt, os.path.join(d, "patch.diff")))
        if a.returncode != 0:
            return sid, {"error": "patch does not apply: " + a.stdout[-200:]}, "ERROR"
        env = dict(os.environ)
        env["VF_REPO"] = wt
        for c in checks:
            for attempt in range(2):
                r = subprocess.run("cd %s && timeout 1800 ./vf check %s --tier quick" % (VERIF, c), shell=True, stdout=subprocess.PIPE, stderr=subprocess.STDOUT, text=True, errors="replace", env=env)
                if r.returncode in (0, 1):
                    break
            res[c] = {"exit": r.returncode, "keys": re.findall(r"key=(.*?) :: ", r.stdout)[:6], "summary": r.stdout.strip().split("\n")[-1][:200]}
    finally:
        sh("git -C /repo worktree remove --force %s" % wt)
        shutil.rmtree(wt, ignore_errors=True)
        shutil.rmtree(os.path.join(VERIF, "build", "out-" + hashlib.sha1(wt.encode()).hexdigest()[:8]), ignore_errors=True)
    was = bool(meta.get("caught_by"))
    now = any(r["exit"] == 1 for r in res.values())
    bad = any(r["exit"] not in (0, 1) for r in res.values())
    verdict = "INCONCLUSIVE" if bad and not now else ("still-caught" if was and now else "LOST" if was else "now-caught" if now else "still-not-caught")
    return sid, res, verdict


def main():
    args = sys.argv[1:]
    j = 3
    if "-j" in args:
        i = args.index("-j")
        j = int(args[i + 1])
        args = args[:i] + args[i + 2:]
    ids = sorted(x for x in os.listdir(os.path.join(VERIF, "seeded")) if os.path.exists(os.path.join(VERIF, "seeded", x, "meta.json")))
    if args:
        ids = [x for x in ids if any(x == a or x.startswith(a + "_") or (a.endswith("*") and x.startswith(a[:-1])) for a in args)]
    if os.environ.get("RESEED_SKIP"):
        ids = [x for x in ids if not re.search(os.environ["RESEED_SKIP"], x)]
    out = {}
    p = os.path.join(VERIF, "seeded", "RECHECK.json")
    if os.path.exists(p) and (args or os.environ.get("RESEED_SKIP")):
        out = json.load(open(p)).get("seeds", {})
    head = sh("git -C %s rev-parse --short HEAD" % VERIF).stdout.strip()
    with concurrent.futures.ThreadPoolExecutor(j) as ex:
        for sid, res, verdict in ex.map(one, ids):
            print(sid, " ".join("%s=%s" % (c, r.get("exit")) for c, r in res.items() if isinstance(r, dict)), verdict, flush=True)
            out[sid] = {"verdict": verdict, "checks": res, "verif_commit_at_or_after": head}
    json.dump({"_comment": "written by tools/reseed.py: the current quick checks re-run against every kept seeded change", "seeds": out}, open(p, "w"), indent=1, sort_keys=True)
    n = {}
    for v in out.values():
        n[v["verdict"]] = n.get(v["verdict"], 0) + 1
    print(n)


if __name__ == "__main__":
    main()

#!/usr/bin/python3
"""tools/mutate.py — mutation sampling: how much of json-c's behaviour do the checks actually pin down?

  mutate.py run <n> [--seed S] [--jobs J] [--files a.c,b.c]   sample n single-point mutants of the library sources,
        keep those that still compile AND pass the pinned test suite, run the quick checks relevant to the mutated file on
        each (scratch tree through VF_REPO, private build root through VF_BUILD), append one JSON line per mutant to
        /verif/mutants/results.jsonl
  mutate.py report                                                summary + list of survivors (candidates for blind spots or
        equivalent mutants; they have to be read by a human)

Nothing here is a registered check; it is a way of finding out what to strengthen.
"""
import hashlib
import json
import os
import random
import re
import shutil
import subprocess
import sys
from concurrent.futures import ThreadPoolExecutor

VERIF = os.path.dirname(os.path.dirname(os.path.abspath(__file__)))
OUT = os.path.join(VERIF, "mutants")
REPO = "/repo"

CHECKS = {
    "json_tokener.c": ["C01", "C03", "C04", "C15", "C16", "C14", "C08"],
    "json_object.c": ["C02", "C05", "C07", "C09", "C10", "C11", "C06", "C08", "C14"],
    "linkhash.c": ["C06", "C05", "C08", "C01", "C18"],
    "arraylist.c": ["C07", "C05", "C08", "C01"],
    "printbuf.c": ["C19", "C02", "C03", "C08"],
    "json_pointer.c": ["C12", "C13", "C08"],
    "json_patch.c": ["C13", "C08", "C05"],
    "json_visit.c": ["C17"],
    "json_util.c": ["C20", "C10", "C01", "C08"],
    "json_object_iterator.c": ["C06"],
}
WEIGHT = {"json_tokener.c": 5, "json_object.c": 6, "linkhash.c": 3, "arraylist.c": 2, "printbuf.c": 2, "json_pointer.c": 2, "json_patch.c": 2,
          "json_visit.c": 1, "json_util.c": 2, "json_object_iterator.c": 1}

OPS = [
    ("rel", re.compile(r"(?<![<>=!\-])(<=|>=|<|>)(?![<>=])"), lambda m: {"<": "<=", "<=": "<", ">": ">=", ">=": ">"}[m.group(1)]),
    ("eq", re.compile(r"(==|!=)"), lambda m: {"==": "!=", "!=": "=="}[m.group(1)]),
    ("logic", re.compile(r"(&&|\|\|)"), lambda m: {"&&": "||", "||": "&&"}[m.group(1)]),
    ("plus1", re.compile(r"([+-]) 1\b(?!\.)"), lambda m: m.group(1) + " 0"),
    ("arith", re.compile(r"(?<=[\w\)\]]) ([+-]) (?=[\w\(])"), lambda m: " " + {"+": "-", "-": "+"}[m.group(1)] + " "),
    ("ret", re.compile(r"return (-1|0|1);"), lambda m: "return " + {"-1": "0", "0": "-1", "1": "0"}[m.group(1)] + ";"),
    ("neg", re.compile(r"\bif \((.+)\)\s*$"), lambda m: "if (!(" + m.group(1) + "))"),
    ("const", re.compile(r"\b(0x[0-9A-Fa-f]+|[2-9]\d*|1\d+)\b"), None),
    ("del", re.compile(r"^(\s*)((?:json_object_put|free|printbuf_free|printbuf_reset|json_tokener_reset_level|lh_table_free|array_list_free|memset|json_object_get)\s*\(.*\);|[\w\->\.\[\]\(\)\* ]+ = [^=].*;|[\w\->\.\[\]]+(?:\+\+|--);)\s*$"), None),
]


def candidates(path):
    """[(lineno, opname, new_line)] for one file; crude lexical filter: no preprocessor, no comment lines, no string-only lines"""
    out = []
    lines = open(path).read().split("\n")
    in_comment = False
    for i, ln in enumerate(lines):
        st = ln.strip()
        if in_comment:
            if "*/" in st:
                in_comment = False
            continue
        if st.startswith("/*") and "*/" not in st:
            in_comment = True
            continue
        if not st or st.startswith(("#", "//", "*", "/*")) or "MC_DEBUG" in st or "_set_last_err" in st or "fprintf" in st or "assert(" in st or "JASSERT" in st:
            continue
        code = re.sub(r'"(?:[^"\\]|\\.)*"', '""', ln)
        code = re.sub(r"'(?:[^'\\]|\\.)'", "'x'", code)
        code = code.split("//")[0]
        for name, rx, fn in OPS:
            if name == "del":
                m = rx.match(code)
                if m and "=" not in m.group(1) and not st.startswith(("return", "case", "default", "static", "const", "struct", "int ", "char ", "size_t", "unsigned", "double", "uint", "int64", "ssize_t", "json_bool", "enum")):
                    out.append((i, "del", m.group(1) + ";"))
                continue
            for m in rx.finditer(code):
                if code != ln and (ln[m.start():m.end()] != code[m.start():m.end()]):
                    continue
                if name == "const":
                    v = m.group(1)
                    try:
                        nv = int(v, 0)
                    except ValueError:
                        continue
                    new = ln[:m.start()] + (hex(nv + 1) if v.lower().startswith("0x") else str(nv + 1)) + ln[m.end():]
                else:
                    new = ln[:m.start()] + fn(m) + ln[m.end():]
                if new != ln:
                    out.append((i, name, new))
    return lines, out


def sh(cmd, **kw):
    return subprocess.run(cmd, shell=True, stdout=subprocess.PIPE, stderr=subprocess.STDOUT, text=True, errors="replace", **kw)


def one(job):
    idx, fname, lineno, op, newline, oldline = job
    mid = hashlib.sha1(("%s:%d:%s:%s" % (fname, lineno, op, newline)).encode()).hexdigest()[:10]
    wt = "/tmp/mut/%s" % mid
    rec = {"id": mid, "file": fname, "line": lineno + 1, "op": op, "before": oldline.strip(), "after": newline.strip()}
    try:
        shutil.rmtree(wt, ignore_errors=True)
        os.makedirs(wt)
        sh("cd %s && git archive HEAD | tar -x -C %s" % (REPO, wt))
        p = os.path.join(wt, fname)
        lines = open(p).read().split("\n")
        if lines[lineno] != oldline:
            rec["status"] = "stale"
            return rec
        lines[lineno] = newline
        open(p, "w").write("\n".join(lines))
        b = wt + "_b"
        shutil.rmtree(b, ignore_errors=True)
        r = sh("cmake -S %s -B %s -DCMAKE_BUILD_TYPE=RelWithDebInfo -DCMAKE_C_FLAGS=-Wno-error -G Ninja >/dev/null 2>&1 && cmake --build %s 2>&1 | tail -2" % (wt, b, b), timeout=600)
        if not os.path.exists(os.path.join(b, "libjson-c.a")) or not os.path.exists(os.path.join(b, "tests/test_parse")):
            rec["status"] = "does-not-compile"
            return rec
        try:
            t = sh("cd %s && USE_VALGRIND=0 ctest -j4 --timeout 60 2>&1 | tail -6" % b, timeout=900)
        except subprocess.TimeoutExpired:
            rec["status"] = "killed-by-suite"
            rec["suite"] = "timeout"
            return rec
        if "100% tests passed" not in t.stdout:
            rec["status"] = "killed-by-suite"
            m = re.findall(r"- (\w+) \(", t.stdout)
            rec["suite"] = ",".join(m[:4])
            return rec
        shutil.rmtree(b, ignore_errors=True)
        env = dict(os.environ)
        env.update({"VF_REPO": wt, "VF_BUILD": wt + "_vb", "VF_JOBS": "4", "VF_WATCHDOG_TICK": "15"})
        caught = []
        for c in CHECKS.get(fname, []):
            try:
                r = subprocess.run("cd %s && timeout 900 ./vf check %s --tier quick" % (VERIF, c), shell=True, stdout=subprocess.PIPE, stderr=subprocess.STDOUT, text=True, errors="replace", env=env, timeout=1000)
                rc = r.returncode
            except subprocess.TimeoutExpired:
                rc = 124
            if rc == 1:
                keys = re.findall(r"key=(\S+)", r.stdout)
                caught.append({"check": c, "key": (keys or ["?"])[0]})
                break
            if rc not in (0, 1):
                rec.setdefault("inconclusive", []).append("%s:%s" % (c, rc))
        rec["status"] = "caught" if caught else "SURVIVED"
        rec["caught_by"] = caught
        return rec
    except Exception as e:  # noqa
        rec["status"] = "harness-error"
        rec["error"] = repr(e)[:300]
        return rec
    finally:
        shutil.rmtree(wt, ignore_errors=True)
        shutil.rmtree(wt + "_b", ignore_errors=True)
        shutil.rmtree(wt + "_vb", ignore_errors=True)


def run(n, seed, jobs, only):
    rng = random.Random(seed)
    pool = []
    for f, w in WEIGHT.items():
        if only and f not in only:
            continue
        lines, cands = candidates(os.path.join(REPO, f))
        for (i, op, new) in cands:
            pool.append((f, i, op, new, lines[i], w / max(1, len(cands))))
    os.makedirs(OUT, exist_ok=True)
    done = set()
    resf = os.path.join(OUT, "results.jsonl")
    if os.path.exists(resf):
        for l in open(resf):
            done.add(json.loads(l)["id"])
    weights = [p[5] for p in pool]
    picks, seen = [], set()
    tries = 0
    while len(picks) < n and tries < n * 50:
        tries += 1
        f, i, op, new, old, _w = rng.choices(pool, weights)[0]
        mid = hashlib.sha1(("%s:%d:%s:%s" % (f, i, op, new)).encode()).hexdigest()[:10]
        if mid in seen or mid in done:
            continue
        seen.add(mid)
        picks.append((len(picks), f, i, op, new, old))
    print("pool of %d candidate mutants; running %d" % (len(pool), len(picks)), flush=True)
    with ThreadPoolExecutor(jobs) as ex, open(resf, "a") as out:
        for rec in ex.map(one, picks):
            out.write(json.dumps(rec) + "\n")
            out.flush()
            print(rec["status"], rec["file"], rec["line"], rec["op"], "|", rec["before"][:60], "=>", rec["after"][:60], rec.get("caught_by", rec.get("suite", "")), flush=True)


def report():
    recs = [json.loads(l) for l in open(os.path.join(OUT, "results.jsonl"))]
    by = {}
    for r in recs:
        by.setdefault(r["status"], []).append(r)
    print({k: len(v) for k, v in by.items()})
    beyond = len(by.get("caught", [])) + len(by.get("SURVIVED", []))
    if beyond:
        print("mutants that pass the pinned suite: %d; caught by the checks: %d (%.0f%%)" % (beyond, len(by.get("caught", [])), 100.0 * len(by.get("caught", [])) / beyond))
    for r in by.get("SURVIVED", []):
        print("SURVIVED %s:%d [%s] %s  =>  %s %s" % (r["file"], r["line"], r["op"], r["before"][:80], r["after"][:80], r.get("inconclusive", "")))


if __name__ == "__main__":
    if len(sys.argv) > 1 and sys.argv[1] == "run":
        n = int(sys.argv[2])
        seed = int(sys.argv[sys.argv.index("--seed") + 1]) if "--seed" in sys.argv else 1
        jobs = int(sys.argv[sys.argv.index("--jobs") + 1]) if "--jobs" in sys.argv else 4
        only = sys.argv[sys.argv.index("--files") + 1].split(",") if "--files" in sys.argv else None
        run(n, seed, jobs, only)
    else:
        report()

#!/usr/bin/python3
"""Regenerates the table of DESIGN.md section 8.6 from /verif/seeded/*/meta.json (between the two markers)."""
import glob
import json
import os
import re

HERE = os.path.dirname(os.path.dirname(os.path.abspath(__file__)))
REMARKS = {
 'C17_r3': 'NOT CAUGHT, deliberately: needs a non-zero future_flags argument, which json_visit.h reserves ("Set to 0"); no call the property quantifies over passes one',
 'C20_r1': 'first run: MISSED (unopenable paths were nonexistent ones); json_object_from_file on a DIRECTORY (open succeeds, read fails): NULL, a message, descriptors balanced',
 'C20_r3': 'first run: MISSED (descriptors were always handed over at offset 0); a third of the reads start in the middle of a file, behind bytes that are no JSON',
 'C19_r2': 'first run: MISSED (the buffer was formatted into itself through "%s|%s" only); fmts1: sprintbuf(pb, "%s", pb->buf + k)',
 'C05_r3': 'an index token of 2^64+1 wrapping onto element 1: caught by C13 (and now by C12: at every sampled node an index that lands on an existing element modulo 2^32 or 2^64 must fail)',
 'C09_r2': 'first run: MISSED (the process-wide string hash never changed between two compared trees); a tenth of the triples rebuild one tree after switching it, a tenth of the copies are taken after switching it',
 'C09_r3': 'first run: missed by C09 (default copy callback only), caught by C05; a fifth of the C09 copies now go through a callback that answers 2 for every node without serializer data',
 'C11_r3': 'caught by C05 (delete callbacks read the node they are handed); C11 registers no callbacks on its strings',
 'C02_r1': 'first run: MISSED (integers were changed in place through json_object_set_int64 only); 40% of those changes now go through json_object_int_inc',
 'C02_r2': 'needs the numeric locale to change between two serializations in one thread: caught by C14 (a quarter of its trees are built and serialized once under "C" before the configuration is installed -- added earlier in this session, after C14_q1)',
 'C01_r1': 'flags wiped by json_tokener_reset: caught by C16 (one strict tokener across documents) and C04',
 'C01_r2': 'short reads through the descriptor API: caught by C20',
 'C01_r3': 'first run: MISSED, and invisible to any comparison of one parse result with the denoted value (the tree is right; its boolean nodes are shared with the parser); one text in eight is now parsed twice by ONE parser with every scalar of the first result changed in place before it is released',
 'C16_r2': 'first run: MISSED (one or two superfluous zeros); runs of 3..300 zeros',
 'C06_r1': 'first run: MISSED (no member was ever more than a few hundred slots away from its home slot); OLONGRUN: n consecutively occupied slots, every key at home, plus one key whose home is the first of them, n = 2..90000, both hash functions, keys picked by asking the library for their hashes',
 'C06_r2': 'an object added to itself under a name it already holds: caught by C05 (failing self-adds must release nothing)',
 'C08_r3': 'caught by C11 (every 5th set fails by injected fault, later sets land between the real and the claimed capacity), like C11_q1',
 'C15_r1': 'first run: MISSED (limits up to 12000); limits of 2^26+1, 2^27 (and 2^27+1, 2^28+1 where the allocator grants them) with documents a few thousand deep',
 'C15_r2': 'short reads through the descriptor API: caught by C20',
 'C15_r3': 'first run: MISSED (empty containers at the boundary were "[]" / "{}"); empty containers that hold a comment, default mode',
 'C03_r1': 'first run: MISSED (pieces were always passed with their length); when the input ends in a NUL every other partition hands its last piece over as a C string (len = -1), and 15% of the inputs are also run with their terminator appended',
 'C04_q3': 'a fault case (scratch-buffer growth failing, then a token that fits the capacity the buffer only claims to have): see the C08 column',
 'C02_q2': 'first run: MISSED (nothing was hung on a node after it had been changed in place); a third of the in-place mutations are now followed by json_object_set_userdata on the same node',
 'C05_q3': 'a fault case (strdup inside the removal step of a "move" whose from-name needs unescaping): caught by C08 (patch workloads over x/y, t~u, v/w); C05 injects no faults into patches',
 'C06_q1': 'needs a second thread (per-thread hash seed): caught by C18 (seed trials: every thread must hash the fixed key like the late observer, keys inserted during the race must be found from another thread)',
 'C07_q1': 'caught by C05 (a node stored back into its own slot, see C07_l2); C07 counts releases of overwritten elements but never stored an element over itself',
 'C07_q2': 'first run: MISSED (one comparator, keyed on something no operation changes); a second order by the CURRENT value of integer elements: sort, json_object_set_int64 on an element (or array_list_add on json_object_get_array), sort again',
 'C07_q3': 'a fault case (realloc while replacing the last element of an exactly full array): caught by C08 (array_op workloads 4/5), like C07_l1',
 'C08_q2': 'first run: MISSED (7-byte pieces over even-numbered documents only, none of which has a token of 32 bytes or more); parse_split_token: the first call ends inside a string / name / number / comment after L = 1..140 characters, plus chunked parses of every document at piece sizes 1, 7, 13, 31, 64',
 'C09_q1': 'first run: MISSED (custom serializers on copied nodes always came with userdata); copies of nodes carrying only a serializer FUNCTION (set_serializer(node, fn, NULL, NULL)) must serialize like the source under all 64 flag sets',
 'C12_q3': 'caught by C05 (json_pointer_set of a node at its own location, see C07_l2)',
 'C17_q2': 'caught by C06 (visitor form of delete-current-while-iterating), like C17_p1',
 'C17_q3': 'first run: MISSED (trees at most 150 levels deep); 0.06% of the trees are nested 300..6000 levels (around 2^10, 2^11, 2^12), one traversal always reaches the innermost node',
 'C18_q2': 'first run: MISSED (nobody called json_global_set_string_hash between the racing first use and the late observation); every other group of seed trials re-selects perl-like and then the default hash before the late look; the seed hook of the single-threaded drivers now hands out a NEW value on any further draw and C06 switches the hash away AND back on live objects',
 'C19_q1': 'first run: MISSED (the fast-append macro always got an int length); fastu: printbuf_memappend_fast with a size_t length (as with strlen), in particular right after a fill that ends exactly at the capacity',
 'C19_q2': 'first run: MISSED (big-buffer requests were sized from what had been appended, which made every one of them more than twice the capacity); requests are now sized as a fraction of the CURRENT capacity: 1.001x .. 2.6x at 64 KiB+, 1-4 MiB and 8 MiB+',
 'C20_q3': 'first run: MISSED (nine flag sets, none with COLOR); any of the 64 flag sets through every writer',
 'C14_q1': 'first run: MISSED (every parse used a tokener created under the locale in force); LPT: the tokener is created (and every other time used) under "C", then the comma locale is installed, then the text is parsed',
 'C14_q3': 'a fault case (newlocale failing after duplocale succeeded): caught by C08 (parse workloads + locale-object ledger per fault point), like C08_h2',
 'C16_q1': 'first run: missed by C16 (default mode was only parsed in one call), caught by C03; 30% of the inner variants are now also fed to a default-mode tokener in 1-7 byte pieces (same value required)',
 'C16_q2': 'first run: missed by C16 (one document per tokener), caught by C04 (reset parser vs new parser with the same flags); C16 now runs the original document and then the variant through ONE strict tokener (reset always / as required)',
 'C16_q3': 'first run: MISSED (STRICT|ALLOW_TRAILING_CHARS was only tried on trailing bytes); half of the inner variants are also parsed under that flag pair and must be refused',
 'C01_q2': 'a fault case (realloc while appending the U+FFFD of an unpaired surrogate): first missed by C08 as well (no unpaired surrogates in the token-boundary workloads); kinds 5-8 added (high surrogate before a plain character / a short escape / a non-surrogate \\u escape, lone low surrogate)',
 'C15_q1': 'json_object_from_fd_ex(fd, 0): caught by C20 (depth limits 0 and below must be refused with a message); C15 itself only drives json_tokener_new_ex',
 'C15_q2': 'a fault case (calloc of the level stack failing for D > 32): caught by C08 (tokener_new workloads parse a document nested limit-1 deep with the tokener they were handed)',
 'C15_q3': 'short reads: caught by C20',
 'C17_p3': 'NOT CAUGHT, deliberately: the callback shortens the array being visited (see C17_m1)',
 'C02_p3': 'NOT CAUGHT, deliberately: needs a custom double format with an UPPER-case exponent (%E/%G), for which the unchanged tree already produces invalid JSON ("1E+20.0", DESIGN 8.3); the generator uses lower-case formats only',
 'C08_p3': 'first run: not caught — the broad known-finding key C08/serializer-ignores-printbuf-failure covered every serializer site; the finding is now listed per call site (function + statement, from the backtrace of the failed allocation) and serialize_boundary sweeps the growth boundary over every append, so the newly unchecked append of the literal is a new key',
 'C04_p3': 'NOT CAUGHT, deliberately: json_tokener_error_desc() with an out-of-range code; no property speaks about it',
 'C20_p3': 'first run: MISSED (json_object_to_file[_ext] never got a NULL object); FDF mode 3: -1 and nothing created, descriptors balanced',
 'C20_p1': 'first run: exit 2 (edit in progress); caught by FDF mode 4: the round trip in a process whose descriptor 0 is free',
 'C09_p3': 'first run: MISSED (the shallow-copy callback never gave up); DCOPY mode 2: the callback returns -1 on its k-th node without touching *dst',
 'C18_p2': 'first run: MISSED (nobody changed a node while others released it); mutate scenario: the owner re-registers userdata/destructor while the other threads get/put -- TSan sees the early read, and the destructor accounting is checked',
 'C14_p2': 'first run: MISSED twice (the comma locale was only ever installed by name, and then every configuration ran under the same environment); the reference now runs in a silent environment, all others with LC_ALL/LANG naming the comma locale, plus a "C by name" configuration under that environment',
 'C17_p1': 'caught by C06 (visitor form of delete-current-while-iterating)',
 'C08_p2': 'first run: MISSED (after a failed format change any of three outputs was accepted); the workload now requires exactly what the thread printed before the call',
 'C11_p1': 'first run: MISSED (own bytes were only handed back from offset 0); SSELF with an offset: a later, non-overlapping part of the own bytes',
 'C04_p1': 'first run: MISSED (the refused len=-2 call was only made on a fresh tokener); it is repeated after use + reset and must report position 0',
 'C10_p2': 'caught after \\r, \\v, \\f were added to the white space in front of numeric strings (same round)',
 'C12_p1': 'caught after ":" tokens were added to the malformed array indices (same round)',
 'C07_p3': 'caught after indices around SIZE_MAX/8 .. SIZE_MAX/2 were added to the must-fail puts (same round)',
 'C20_p2': 'caught after files were written under a custom double format with trailing zeros (same round)',
 'C17_n2': 'NOT CAUGHT, deliberately: same as C17_m1 (the callback resizes the array being visited; undocumented)',
 'C19_n2': 'NOT CAUGHT, deliberately: needs a caller that passes an unsigned length >= 2^31 through the printbuf_memappend_fast MACRO (2 GiB of source bytes); the function form and every int-typed length behave as before',
 'C05_n1': 'NOT CAUGHT, deliberately: needs json_object_set_userdata() on a text-retaining double, which leaves that node\'s serializer pointing at userdata that is not its text any more (the next serialization or deep copy of such a node reads the caller\'s pointer as a string) -- not a state the ownership property speaks about',
 'C19_n1': 'first run: harness build collision; then caught once the buffer could be formatted into itself (fmts: sprintbuf(pb, "%s|%s", pb->buf, pb->buf), 14k times per run, 10k on the long path)',
 'C17_n1': 'first runs: harness build collisions; caught after the invalid codes got the 0x20000 offsets as well (every k*65536 for k in 1,2,3,4,-1,-2,256,0x7FFF and single high bits)',
 'C13_n2': 'first run: MISSED (SCRAMBLE gave every scalar the same new value, so a node sitting at two places of the result looked fine); every scalar now gets a running number and the result is compared with the model',
 'C20_n2': 'first run: MISSED (only regular files and memfds); json_object_from_file on a FIFO whose writer opens late and writes in two pieces (reported as a hang: the reader gave up, the writer blocks)',
 'C06_n2': 'first run: MISSED (the object\'s table was never resized by hand); a fifth of the churn histories call lh_table_resize on it with a size that is not a power of two',
 'C11_n1': 'first run: MISSED (the new bytes never came from the node itself); SSELF: set_string_len(o, get_string(o), n) for n in 0,1,len/2,len-1,len (24k times per run)',
 'C11_n2': 'caught by C05 and C11 after the delete callback of the driver started reading the node it is handed (string bytes, first children, scalar value)',
 'C05_n2': 'first run: MISSED (patch values were always 777); a third of the replaced string/boolean leaves now get an equal value',
 'C07_n2': 'first run: MISSED (the comparator returned -1/0/1); it now returns a scaled difference like most hand-written comparators',
 'C15_n1': 'caught only because limits of 10001..12000 had just been added (same round)',
 'C12_n2': 'caught only because the whole-document set on a NULL document had just been added (same round)',
 'C17_m1': 'NOT CAUGHT, deliberately: the change only shows when the callback appends to / shrinks the very array being visited; the visitor documents no behaviour under mutation from the callback (C06 asserts deletion of the current object member, which the property names), so there is nothing to assert',
 'C20_m1': 'NOT CAUGHT, deliberately: retrying a write that failed with EINTR and delivering every byte exactly once is accepted by the recorded assumption ("retry-and-complete or clean failure"); the inconsistency (only after a partial write) changes no observable byte',
 'C10_m2': 'first run: build collision in the seedtest run (exit 2); caught on re-run (set_int on a node in unsigned representation)',
 'C09_m2': 'first run: MISSED (copies were taken before mutations); histories now re-set doubles in place to the value they already have, then copy',
 'C05_m1': 'caught by C09 after adding copies of nodes that use json_object_userdata_to_json_string with a deleter of the caller\'s (the copy must call the same deleter exactly once)',
 'C12_m2': 'caught by C05 (see C07_l2)',
 'C20_m2': 'first run: MISSED (unopenable paths were short); paths of 150..1000 characters: there must still be a message',
 'C13_m1': 'first run: MISSED by C13 (C09 sees it); target documents of C13 now also carry strings that were longer for a while',
 'C16_m2': 'first run: MISSED by C16 and C04 (flags were changed after the reset only); half of the flag changes in C04 now happen before the reset, i.e. while the abandoned document is still pending',
 'C19_m1': 'first run: MISSED (only the first allocation of an operation was failed: in sprintbuf\'s long path that is vasprintf, the buffer growth is the second); a third of the injected faults hit the second allocation',
 'C15_m1': 'first run: MISSED (arguable, says its author; but "exact" cuts both ways: a document within the limit is never "nested too deep"); truncated within-limit documents, in particular cut right after the D-th opener, must not give the depth error',
 'C15_m2': 'caught by C08 after the tokener_new workloads started parsing a document nested limit-1 deep with the tokener they were handed',
 'C07_m1': 'caught by C08 (array_reserve workload) -- and now also by C07: puts at index 2^33 must fail cleanly and the array must go on working',
 'C07_m2': 'first run: MISSED (the bsearch key was an element of the array, the comparator symmetric); the comparator now checks that its first argument is the key',
 'C06_m1': 'caught only because names with bytes >= 0x80 were added to the universes while this batch was being written (M6 described it; the first run already had them)',
 'C06_m2': 'first run: MISSED (entries were only ever deleted by key); lhenum now deletes every successfully deleted ENTRY a second time: -1 and unchanged length',
 'C04_m2': 'caught by C08 after the "parser reusable after a failed parse" step got 40- and 100-byte tokens',
 'C01_m1': 'caught only after exponents below -324 and 300+ leading fraction zeros were added (same round)',
 'C01_m2': 'outside C01 (an empty first piece of a chunked feed); caught by C03',
 'C06_l1': 'first run: MISSED (the string hash function was chosen per history, never switched while an object was alive); a quarter of the churn histories now switch json_global_set_string_hash mid-history',
 'C06_l2': 'first run: MISSED (delete-current-while-iterating only through the foreach macro); OITDEL has a visitor form: the callback deletes the member it is looking at and returns SKIP',
 'C19_l1': 'first run: MISSED (formatted output never contained a NUL); fmtc: sprintbuf("%s%c%s", a, 0, b) with short and long parts',
 'C19_l2': 'first run: MISSED (buffers up to 400 KB); huge-buffer phase: 8-12 MiB then single requests of 1.2x-2.5x the capacity',
 'C09_l2': 'first run: MISSED (constant-key names were immortal in the driver); after the SOURCE of a copy is destroyed the driver overwrites the name storage it lent to it (KSCR) before the copy is read',
 'C18_l1': 'first run: MISSED (concurrent release only through json_object_put on the node itself); container mode: all holders but one keep their reference inside an array/object of their own and release the container',
 'C20_l1': 'caught by C08 (fd workload with 8-byte records, added after C20_j1); C20 alone cannot see it (no allocation faults there)',
 'C20_l2': 'first run: MISSED (serialization never failed in C20); a custom serializer of a random node reports failure: to_fd/to_file[_ext] must return -1 and write nothing',
 'C10_l2': 'first run: MISSED (no text-retaining doubles in C10, no sets to an equal-comparing value); 30% of doubles are new_double_s nodes, first mutation may be the other zero / a 1-ulp neighbour',
 'C07_l1': 'caught by C08 after adding "replace the LAST element of an array trimmed to exactly its length" (directly and through json_pointer_set); C07 has no faults',
 'C07_l2': 'caught by C05 after the generator started storing a node the caller holds a reference to back into its own slot / under its own name / at its own pointer (4.8k + 20k + 2.4k times per run)',
 'C13_l1': 'first run: MISSED (nothing was changed after the patch was applied); every scalar of the result is now changed through the setters (SCRAMBLE) and the patch / copy_from document dumped again',
 'C13_l2': 'first run: harness edit in progress (exit 2); caught on re-run by the move semantics oracle',
 'C08_l1': 'see C07_l1',
 'C14_l2': 'first run: MISSED (incremental parses always passed explicit lengths); half of the LPC runs hand the last piece over NUL-terminated with len = -1',
 'C02_l1': 'first run: MISSED (mutations were applied to the tree as built); 12% of the C02 trees are deep-copied first (source destroyed), then mutated and serialized',
 'C02_l2': 'outside C02 as stated (needs a second thread); caught by C18: the disjoint scenario now lets every third thread give ITSELF a double format and checks that nobody else sees it (also a TSan race on the new global)',
 'C05_l2': 'first run: MISSED (userdata was always a non-zero id); 8% of the set_userdata operations register the callback with a NULL userdata pointer',
 'C12_l1': 'caught by C05 (pointer_set of a node at its own location), see C07_l2',
 'C17_l1': 'first run: MISSED (invalid return codes were small numbers); invalid codes that coincide with a valid code in their low 16 bits, after negation or with high bits set',
 'C17_l2': 'first run: MISSED (callbacks never re-entered the visitor); a fifth of the schedules run a nested json_c_visit on another tree (ending in an error or normally) inside callbacks',
 'C15_l1': 'first run: MISSED (leaves at the limit were strict JSON); boundary documents with leaves only the default mode knows (Infinity, NaN, nUll, single quotes, leading zero)',
 'C15_l2': 'first run: MISSED (only well-formed documents at the limit); malformed text right at / beyond the limit (missing value, stray separator/closer) under ASan',
 'C04_l1': 'first run: harness edit in progress (exit 2); caught on re-run',
 'C16_l1': 'first run: MISSED (line comments always ended in a newline); a // comment that runs to the end of the text after the complete value',
 'C03_l1': 'first run: MISSED, and not visible to the split-vs-prefix comparison at all (both sides end at the same byte); absolute expectation added: a call that ends inside a comment following a complete container/string root must ask for more input',
 'C03_l2': 'first run: harness edit in progress (exit 2); caught on re-run',
 'C01_l1': 'first run: MISSED (strict mode meant flags == STRICT exactly); three quarters of the C01 documents now switch on the orthogonal flags (ALLOW_TRAILING_CHARS, VALIDATE_UTF8 on valid UTF-8)',
 'C01_l2': 'outside C01 (json_object_from_fd on short reads); caught by C20',
 'C13_k1': 'first run: MISSED (pointers were always produced by escaping names, so a raw "~" never occurred); a third of the tildes not followed by 0/1 are now spelled raw (same member per RFC 6901 evaluation), names "a~2", "t~", "~", "~~" added',
 'C13_k2': 'first run: MISSED (errno was 0 on entry); C12 and C13 shards now also run with a stale errno (ENOMEM/ERANGE/EINVAL/EINTR) on entry to every call',
 'C07_k1': 'first run: MISSED (arrays up to 16384 slots); four huge-array histories (2^20 .. 2*10^7 slots) with a sparse model and whole-array digests',
 'C07_k2': 'first run: MISSED, same strengthening (json_object_new_array_ext(2*10^7), writes beyond 2^24)',
 'C08_k1': 'first run: MISSED (escapes never sat exactly where the tokener scratch buffer grows); parse_token_boundary workloads: \\u escape / short escape / surrogate pair / plain / member name after every L = 0..70, 120..135, 250..260 plain characters',
 'C08_k2': 'first run: MISSED (json_object_array_shrink only used to trim); array_reserve workloads reserve/trim under a fault and then add 40 elements and read everything back',
 'C18_k1': 'first run: MISSED in the seedtest run, caught in 1 of 340 jobs by hand (barrier wake-ups are microseconds apart, the lost-update window is nanoseconds); the release scenario now spins to a tight rendezvous and runs with 2/3/4/8/16 holders: caught in every run',
 'C18_k2': 'first run: MISSED (the seed source never returned -1); VF_SEED_MODE=minus1 trials: the first draw of the process is the library\'s own "unset" sentinel',
 'C09_k2': 'first run: MISSED (grow/shrink histories covered containers only); histories now also grow a string for a while and set it back',
 'C06_k1': 'first run: MISSED (names were 2-5 bytes long and always at malloc alignment); names of every length 1..48, and the driver passes name pointers at rotating offsets 0..7',
 'C06_k2': 'first run: MISSED (enumeration hashes all fitted in 32 bits); lhenum hash kind 6: 64-bit values that differ only above bit 31',
 'C02_k2': 'first run: MISSED (set_double never received a value comparing equal to the old one); in-place mutation now sets the other zero / a 1-ulp neighbour on 60% of the doubles it touches',
 'C04_k2': 'first run: MISSED (tokens up to 1.5 KB in reset pairs); reset pairs whose first document holds a 64 KiB..200 KB token and whose second holds a 4-70 KB token',
 'C19_j1': 'first run: MISSED (no allocation failures inside print-buffer operations); C19 now injects a failing allocation into 15% of the operations of a third of its histories: the operation must fail with the buffer byte-identical and still terminated',
 'C10_j1': 'first run: MISSED (string nodes always came from json_object_new_string); 40% of C10 string nodes now receive their text through set_string[_len] on an existing node (grown / shrunk / inline / separately allocated)',
 'C10_j2': 'first run: MISSED (no decimal texts in the subnormal band); numeric strings now cover every exponent decade incl. 1e-308..5e-324, the overflow band and %.17g of random doubles (refnum models strtod inf/nan)',
 'C11_j2': 'first run: MISSED (strings stayed below 64 KiB); pattern-generated strings of 64 KiB..3 MB (SSTRP/GSTRC) with a third of the sets failing by injected fault',
 'C14_j2': 'first run: MISSED (custom formats had no width/flags/literal text); formats are now drawn from the printf grammar at large',
 'C17_j1': 'first run: MISSED (trees at most ~40 deep and only 8% of them); 6% of C17 trees are now wrapped in 30..150 levels (arrays / objects / mixed, siblings before and after the nested child)',
 'C17_j2': 'first run: MISSED, same strengthening as C17_j1',
 'C16_j1': 'first run: missed by C16 (one-shot parses only), caught by C03; half of the C16 variants are now also fed to a strict tokener in 1-7 byte chunks',
 'C16_j2': 'first run: MISSED by C16, C01, C03 (VT/FF never in whitespace positions); trailing bytes now include VT, FF and a random byte',
 'C20_j1': 'first run: missed by C20 and C08 (a lost read block always broke the syntax); C08 got an fd workload of 8-byte records aligned to the read size, so that a dropped block leaves a well-formed but different array',
 'C20_j2': 'first run: MISSED (the file was only read back through json_object_from_file, over a fresh path); FDF now writes over an existing shorter/longer file and compares the raw bytes with the serialization',
 'C15_j1': 'first run: missed by C15 (one document per tokener), caught by C04; C15 now runs 2-4 documents through one tokener per depth limit with reset always / after errors, each compared with a fresh tokener and the token-scan oracle',
 'C15_j2': 'first run: MISSED (json_tokener_parse_verbose never given malformed bracket-heavy input); PV vs default-tokener differential on random bracket strings and truncated nests',
 'C05_j1': 'first run: missed by C05, C08, C13 (no patch workload moved a member whose name needs unescaping); C08 patch workloads now move/copy/remove members named x/y, t~u, v/w',
 'C05_j2': 'first run: MISSED (no node ever had more than a few hundred owners); C05 now runs one node through 65537, 2^24+1 and 2^31+1 owners (GETN/PUTN)',
 'C09_h2': 'first run: MISSED (every compared tree was freshly built, so table sizes always matched); a quarter of the C09 triples/copies now grow one container by 1..180 fillers and shrink it back before comparing',
 'C13_h2': 'first run: MISSED (member names came from a fixed pool of short names); C13 and C12 now add names whose escaped length sits on / next to powers of two (8..300) to the per-document pool',
 'C02_h2': 'first run: MISSED (no long runs of bytes that all need escaping); the tree generator now emits strings made only of such bytes, 10..130 long',
 'C08_h2': 'first run: MISSED by C08 and C14 (fault enumeration ran under the C locale only and faultdrv did not read the locale ledger); parse workloads under the comma locale (global / per-thread / chunked / verbose) + locale-object ledger per fault point',
 'C08_h3': 'first run: MISSED (pointer/patch workloads inserted into small objects only); workloads insert an escaped new member into objects of 0,9..12,21..23,43,44 members through json_pointer_set and a patch add',
 'C06_h2': 'first run: MISSED (random churn hits it in <0.2% of histories; exhaustive scope had no three-keys-one-home + neighbour hash); lhenum hash kinds 4/5 (adjacent homes) and adjacent-bucket universes in the churn',
 'C01_h2': 'first run: MISSED (fractions were random digits, so never <=15 significant digits after >=23 leading zeros); structured decimals: integer digits x leading fraction zeros x significant digits x exponent form',
 'C05_2': 'first run: missed by C05 (no failing deep copy in the histories), caught by C08; C05 now drives deep copies that must fail and catches it through the ledger',
 'C08_2': 'first run: missed by C08 (set_string workload grew only once), caught by C11; C08 got a "second grow fails" workload',
 'C18_2': 'first run: MISSED (the seed monitor observed each thread\'s second hash; the defect affects only the first); the racing call itself is now the observed hash/insert and the key is looked up again afterwards',
 'C14_1': 'first run: MISSED (depth error only produced through the array path); every error class now comes through several syntactic routes + hostile inputs with small depth limits',
 'C14_2': 'first run: MISSED (custom double formats not exercised under the comma locale); global, per-thread and per-node formats are now serialized under every locale configuration',
 'C02_2': 'first run: MISSED (trees built with json_object_object_add only); 15% of members are now added with JSON_C_OBJECT_ADD_CONSTANT_KEY, and C06 universes contain names that need escaping',
 'C12_h1': 'first run: MISSED (no pointer of exactly 256 characters); C12 now sweeps every total pointer length 1..1100 and around 4096 through get/getf/set/setf',
 'C19_h1': 'first run: MISSED (buffers stayed below 64 KiB / single requests below 1.5x capacity); a large-buffer phase was added',
 'C07_h1': 'first run: MISSED (arrays never reached 8192 slots); a large-array phase was added',
 'C14_h1': 'first run: MISSED (parses were single calls); numbers are now also fed incrementally (1-7 byte chunks) with the monitors around every call',
 'C03_h1': 'first run: MISSED (exponents had at most 4 digits); number-like tokens with long digit runs in every part were added to the input generator',
 'C16_h1': 'first run: MISSED (STRICT never combined with VALIDATE_UTF8); the orthogonal flag is now randomised',
 'C06_h1': 'a hang: first run exceeded the time budget instead of reporting; drivers got a progress watchdog (no progress for 2 ticks -> exit 124, isolated re-run, then "hang" with the command as witness)',
 'C05_h1': 'first run: missed by C05 (no constant keys there), caught by C06 (ledger); C05 now adds 20% of members with CONSTANT_KEY',
}


def main():
    rows = []
    n = ok = 0
    for f in sorted(glob.glob(os.path.join(HERE, "seeded/*/meta.json"))):
        m = json.load(open(f))
        sid = f.split("/")[-2]
        if not m.get("confirmed"):
            continue
        n += 1
        need = re.sub(r"\s+", " ", m.get("needs_to_manifest", "")).replace("|", "/")
        need = re.sub(r"^[#\- ]*(patch\S*|PROPERTY: \S+)[ :—-]*", "", need)
        need = need[:200] + ("…" if len(need) > 200 else "")
        keys = []
        for c, r in m.get("checks", {}).items():
            if r["exit"] == 1:
                keys.append("%s: `%s`" % (c, (r["violation_keys"] or ["?"])[0]))
        if keys:
            ok += 1
        rows.append("| %s | %s | %s | %s |" % (sid, need, "; ".join(keys) or "**none**", REMARKS.get(sid, "")))
    table = "| id | what it needs to manifest (from the author's notes) | caught by (first key) | remarks |\n|---|---|---|---|\n" + "\n".join(rows) + "\n"
    p = os.path.join(HERE, "DESIGN.md")
    s = open(p).read()
    a, b = s.index("<!-- SEEDTABLE-BEGIN -->"), s.index("<!-- SEEDTABLE-END -->")
    s = s[:a] + "<!-- SEEDTABLE-BEGIN -->\n" + table + s[b:]
    s = re.sub(r"\d+ confirmed changes, all caught by the quick tier[^\n]*\n[^\n]*\n", "%d confirmed changes; %d caught by the quick tier as it stands now (strengthenings prompted by first-run misses are in the last column).\n\n" % (n, ok), s)
    open(p, "w").write(s)
    print(n, "confirmed,", ok, "caught")


if __name__ == "__main__":
    main()

#!/usr/bin/python3
"""Regenerates MANIFEST.json from the table below (single source of truth for the interface)."""
import json
import os

HERE = os.path.dirname(os.path.dirname(os.path.abspath(__file__)))

CHECKS = {
    "C01": dict(
        level="exploration", design="DESIGN.md §3 C01",
        technique="runtime monitoring: ASan/UBSan build driven by a value-first text generator; typed dump of every parse result compared with the denoted value by an independent reference (constructive expectation + reference parser)",
        text="Real parser (ASan+UBSan build of the working tree) run on ~10^5 (quick) / ~10^6 (thorough) generated RFC 8259 texts in default, strict and len=-1 modes, "
             "plus completely enumerated sub-spaces (all \\uXXXX units; thorough: every Unicode scalar raw and escaped, all 2048x2048 surrogate-unit pairs). "
             "Held-on-what-was-explored, not a proof.",
        note="trusted: CPython float() as correctly rounded strtod reference, the Python reference parser/generator (self-tested against CPython json), gcc sanitizers"),
    "C03": dict(
        level="exploration", design="DESIGN.md §3 C03",
        technique="runtime monitoring: differential oracle inside an ASan/UBSan driver — chunked feeding vs a fresh parser's single call on every prefix, all 2-splits/3-splits enumerated per input; thorough adds a coverage-guided libFuzzer target (clang) with the same checker compiled in",
        text="For ~10^4 (quick) / ~3*10^5 (thorough) hostile inputs x 8 flag sets the real tokener is fed every 2-chunk split (n<=256), every 3-chunk split (n<=32), the all-1-byte partition and "
             "random partitions; every call is compared (status, error code, value hash, global end) with a fresh parser on the concatenation; streams are resumed at reported ends. "
             "Evidence lists the lexical situations in which a chunk boundary was placed (all 43 required kinds or the run is inconclusive).",
        note="trusted: the library's own one-shot behaviour on a fresh parser is the reference (differential), gcc ASan/UBSan, the shim's allocation ledger"),
    "C04": dict(
        level="exploration", design="DESIGN.md §3 C04",
        technique="runtime monitoring: ASan+UBSan (exact-size heap blocks, PROT_NONE guard page), allocation-ledger conservation, outcome-trichotomy assertion on every call, reset-vs-new differential; thorough adds valgrind memcheck and a libFuzzer target (flags/depth/split point from the input) with the same monitors compiled in",
        text="~8*10^6 (quick) parse calls on arbitrary bytes / hostile documents / 10^6-deep nesting / 1 MiB tokens with random flag words, depth limits and chunkings under sanitizers; every call's outcome "
             "asserted to be one of the three legal ones with end<=len; ledger must return to zero after free; (interrupted A, reset, sensitive Y) pairs compared with a new parser; 100 interrupt+reset cycles must not grow. "
             "All 15 producible error codes must be observed or the run is inconclusive.",
        note="trusted: gcc ASan/UBSan, the shim ledger (validated by seeded leaks), 30-min watchdog as the termination criterion"),
    "C15": dict(
        level="exploration", design="DESIGN.md §3 C15",
        technique="runtime monitoring: ASan build on a 256 KiB-stack thread; outcome/error offset compared with an independent token scan; shim high-water marks (live blocks, stack) compared between nesting D+1 and nesting 10D..10^6",
        text="Every limit D in 1..64,100,1000 x container shapes x boundary reached via only/first/middle/last child x enclosure D-2..D+2 x leaf kinds, one-shot and chunked (~3*10^4 quick), plus hostile "
             "inputs nested up to 10^6 deep whose peak memory/stack must equal that of nesting D+1; json_tokener_new_ex(D<1) must be refused.",
        note="trusted: reference tokenizer on generator-valid documents, shim peak counters (stack sampled at allocation time), gcc ASan"),
    "C16": dict(
        level="exploration", design="DESIGN.md §3 C16",
        technique="runtime monitoring with a metamorphic oracle: one documented extension injected at every admissible token position of a valid document; strict/default/strict+trailing outcomes and values compared with the original document's value",
        text="~2*10^5 (quick) variant texts: every inter-token gap x comment forms, every string/name x single quotes and each control byte, every container x trailing comma, every literal x case forms, "
             "every number x leading zeros and digit-less exponents, trailing garbage; strict must reject, default must accept with the original value, STRICT|ALLOW_TRAILING_CHARS must report the value end.",
        note="trusted: reference parser for the original document's value; for digit-less exponents on integers only success is required in default mode"),
    "C02": dict(
        level="exploration", design="DESIGN.md §3 C02",
        technique="runtime monitoring: ASan/UBSan build; every serialization (all 64 flag sets) observed at the API and fed to an independent reference parser; in-driver json-c re-parse/equal/re-serialize monitors",
        text="~16k trees (quick) / 100k (thorough) built through the API x 64 flag sets, plus 5*10^5 / 2*10^6 single doubles under PLAIN/NOZERO: each distinct text must be accepted by the reference "
             "RFC 8259 parser and denote exactly the tree (ints exact, doubles bit-exact, strings byte-exact, member order), length = strlen; json-c re-parse must be equal and re-serialize to the same bytes.",
        note="trusted: reference parser (CPython float() for number tokens); NaN/Infinity and custom double formats are outside the statement"),
    "C10": dict(
        level="exploration", design="DESIGN.md §3 C10",
        technique="runtime monitoring: UBSan (float-cast-overflow, signed overflow) + exact-arithmetic reference tables (Python int/Fraction) compared with every getter's value and errno after each construct/set/inc step",
        text="~2*10^5 (quick) / 4*10^6 (thorough) node histories over all kinds and lattice/random values; 5 getters x every state; saturation, errno and representation switching of int_inc checked exactly; "
             "any undefined conversion aborts under UBSan and is reported with the command it died in.",
        note="trusted: reference tables (self-tested), gcc UBSan incl. float-cast-overflow; corners the documentation leaves open are listed in the evidence assumptions and not asserted"),
    "C06": dict(
        level="exploration", design="DESIGN.md §3 C06",
        technique="runtime monitoring: (a) small-scope exhaustive enumeration of operation sequences on tiny linkhash tables inside an ASan driver with an in-driver ordered-map oracle; (b) model-checked churn histories at json_object level with colliding keys, both hash functions, 32 hash seeds",
        text="(a) every add/delete/lookup sequence of length <= 6 (thorough 7, selected configs 8) over 4 keys on lh_table_new(size 1..5) x 4 caller-supplied hashes (~3.8*10^8 checked steps in quick); "
             "(b) ~2k (quick) / 100k histories of 30-5000 operations; six iteration forms, length, lookups, release sets, delete-current-while-iterating after steps.",
        note="trusted: the ordered-map models (C, 40 lines; Python dict), hashes for collision construction are read from the library itself; slot-level facts are evidence only"),
    "C07": dict(
        level="exploration", design="DESIGN.md §3 C07",
        technique="runtime monitoring: ASan driver + list-with-gaps reference model compared after every operation (length, every index 0..len+2, return codes, destruction callbacks)",
        text="~6k (quick) / 300k histories of 20-100 array operations with indices/counts inside, at and beyond the bounds incl. SIZE_MAX-adjacent; sort/bsearch; failed operations must leave ownership with the caller.",
        note="trusted: Python list model; uid destruction callbacks as the release observation"),
    "C09": dict(
        level="exploration", design="DESIGN.md §3 C09",
        technique="runtime monitoring: equal() matrices over generated tree triples compared with a value-equality model (+ reflexive/symmetric/transitive monitors); deep copies checked for equality, identical serialization under 64 flag sets, pointer-set disjointness and independence under mutation/destruction (ASan)",
        text="~24k triples + 6k copies (quick) / 1.5M + 200k (thorough).",
        note="trusted: the value-equality model; ASan for use-after-free through shared nodes"),
    "C11": dict(
        level="exploration", design="DESIGN.md §3 C11",
        technique="runtime monitoring: ASan driver + byte-string model after every set; shim-injected allocation failures; ledger conservation; equality/copy/serialization probes; thorough adds a valgrind memcheck pass",
        text="~8k (quick) / 500k histories x 10-40 sets with lengths crossing the inline threshold both ways, injected malloc failures on every 5th set, refused lengths with a 2-byte source.",
        note="trusted: byte-string model, shim fault schedule (the check verifies whether the fault fired), reference parser for the serialization probe"),
    "C19": dict(
        level="exploration", design="DESIGN.md §3 C19",
        technique="runtime monitoring: ASan driver + byte-array model; sizes chosen by the driver relative to the buffer's CURRENT capacity; crc32 of contents, terminator, bpos<=size<=real block size (shim) after every step",
        text="16k (quick) / 10^6 histories of 10-60 print-buffer operations incl. must-refuse arguments near INT_MAX.",
        note="trusted: byte-array model; growth policy not asserted"),
    "C05": dict(
        level="exploration", design="DESIGN.md §3 C05",
        technique="runtime monitoring: histories generated online against an ownership model (owner multisets), destruction observed through userdata delete callbacks + allocation ledger + ASan (use-after-free/double free); thorough adds a valgrind memcheck pass",
        text="24k (quick) / 200k histories of 30-300 API calls over 24 handles incl. shared sub-trees, failing calls, tracked and failing deep copies, pointer_set and patch steps; after every call the destroyed-uid set, put's return value and (on probes) the whole uid structure are compared with the model.",
        note="trusted: the Python ownership model (owner multisets over a DAG of nodes), incl. json_pointer_set and in-place json_patch_apply (remove/move/add/replace) steps"),
    "C12": dict(
        level="exploration", design="DESIGN.md §3 C12",
        technique="runtime monitoring: ASan driver + RFC 6901 reference evaluator over observed node identities (pointer-annotated dumps) for get/getf/set/setf; full-tree dump diff after every set; ownership probe after failed sets; sweep of every total pointer length 1..1100 and around 4096 through all four entry points",
        text="16k (quick) / 200k trees with adversarial member names, null members/elements; the canonical pointer to every node plus malformed/dangling pointers; 1-3 sets per tree.",
        note="trusted: reference evaluator (self-tested on the RFC 6901 section 5 table); '~' not followed by 0/1 and NULL roots are not asserted"),
    "C13": dict(
        level="exploration", design="DESIGN.md §3 C13",
        technique="runtime monitoring: ASan driver + RFC 6902 reference evaluator (deep-copy semantics) comparing rc, failure index, result dump, patch dump before/after and copy_from dump; violating cases are bisected op by op for their key; thorough adds a libFuzzer target for arbitrary (document, patch) pairs",
        text="10^5 conformance patches generated against the evolving reference document + 6*10^4 malformed/damaged patches (quick); 10^6 + 10^6 thorough.",
        note="trusted: reference evaluator (self-tested on RFC 6902 appendix A); document state after a failed patch, whole-document removal and null whole documents are not asserted"),
    "C08": dict(
        level="fault_enumeration", design="DESIGN.md §3 C08",
        technique="fault enumeration under ASan/UBSan: the shim fails allocation k for EVERY k of each of 155 workloads (+ sampled double faults); differential oracle against the fault-free run, allocation-ledger conservation, before/after dumps of caller-owned objects, continued use of touched state",
        text="Every allocation index of every workload in the corpus is failed in turn (~2.5k fault points, 29 of the 32 allocation call sites in the sources; the other 3 are compiled out); the outcome must be the "
             "fault-free result or the documented failure value, with no leak, no crash and caller-owned objects unchanged and still freeable.",
        note="trusted: shim fault schedule and ledger, gcc ASan/UBSan; complete for the corpus, not for the library; one listed known finding (serializers ignore print-buffer growth failures)"),
    "C14": dict(
        level="exploration", design="DESIGN.md §3 C14",
        technique="runtime monitoring under a synthesised comma-decimal locale (global, per-thread, both): result bytes differential against the C-locale run; uselocale handle, printf/strtod behaviour and a locale-object ledger observed before/after every call, for one-shot and incremental (1-7 byte chunks) parsing and for default, global, per-thread and per-node double formats",
        text="~2*10^4 monitored parse/serialize calls (quick) covering every parser outcome class (success, continue, all 14 producible error codes incl. size) under each locale configuration.",
        note="trusted: localedef-synthesised xx_XX locale (setup verifies it is in effect), shim locale ledger; LeakSanitizer off (glibc locale loader keeps LOCPATH buffers)"),
    "C17": dict(
        level="exploration", design="DESIGN.md §3 C17",
        technique="runtime monitoring: full callback log (node identity, flags, parent, key/index, returned code) and return value compared with a reference traversal written from json_visit.h, for random trees x random return-code schedules",
        text="4*10^5 (quick) / 3*10^6 (tree, schedule) pairs incl. SKIP/POP/STOP/ERROR/invalid codes on first and second visits.",
        note="trusted: reference traversal (50 lines)"),
    "C18": dict(
        level="exploration", design="DESIGN.md §3 C18",
        technique="ThreadSanitizer (asserts on and -DNDEBUG builds of the ENABLE_THREADING configuration) with log-based report classification + -O2 multi-thread stress with atomic monitors (lost update, premature/double destroy, exactly-one freeing put) + seed-race trials with a rendezvous inside json_c_get_random_seed()",
        text="12 TSan runs over 6 scenarios, 27 stress runs with 4-16 threads x ~10^6 operations, 300 one-process seed trials with all entrants held inside the seed function (quick); thorough: 200 stress runs up to 32 threads, 20k seed trials.",
        note="trusted: gcc TSan (sees executed accesses only), relaxed-atomic monitors; TSan reports on the random_seed global are recorded, the seed clause is decided behaviourally"),
    "C20": dict(
        level="fault_enumeration", design="DESIGN.md §3 C20",
        technique="runtime monitoring with an interposed read/write layer on a real memfd: per-call transfer caps and one injected errno at every call index of small transfers; bytes that arrived vs serialization, value read vs one-shot in-memory parse, message/ledger/descriptor accounting",
        text="~3*10^4 transfers (quick) with schedules around the 4096-byte buffer, EIO/ENOSPC/EINTR/EAGAIN injected at call 0..5 in 40% and at EVERY call index for 48 small documents.",
        note="trusted: shim I/O script (forwarding to a real descriptor), one-shot parse as reference; EINTR retry policy not asserted"),
}


MORE = {
    "C01": " One text in eight is parsed twice by one parser with every scalar of the first result changed in place in between; ties between adjacent doubles broken by a digit up to 5000 places on.",
    "C02": " Trees also reach their value through in-place mutation (setters, int_inc, userdata attached afterwards), deep copies, custom/reset serializers; strings of specially treated code points; trees 64-300 levels deep.",
    "C03": " Also: the last piece handed over as a C string (len=-1), empty pieces as (NULL,0), single tokens of 4k-70k bytes under random partitions (one-shot references computed lazily).",
    "C06": " Also: operations through lh_table_* on json_object_get_object(), seven iteration forms (incl. lh_foreach_safe and backwards), hash function switched away and back on live objects, and OLONGRUN: runs of up to 90 000 occupied slots with one member that far from its home slot.",
    "C07": " Also: one operation in eight through array_list_* on json_object_get_array() (accessors must agree after every step), value-order sorts with elements changed in place, arrays of millions of slots with targets at 1.6x-2.3x of what is owned.",
    "C09": " Also: copy callbacks answering 2, string hash switched between compared trees / source and copy, serializer-function-only nodes, trees nested 300-5000 levels.",
    "C10": " A quarter of the cases end with a round of getters entered with a stale errno (values asserted).",
    "C11": " Sources of a set include the node's own bytes (any offset) and its own serialization.",
    "C12": " Also: indices that wrap onto existing elements modulo 2^32/2^64, trees and pointers 30-150 levels further down.",
    "C13": " Also: patches applied without an error struct, documents and paths 30-150 levels further down.",
    "C14": " Also: tokeners and trees that are older than the locale configuration, and a 2 GiB text with len=-1 (the size outcome with a real text).",
    "C15": " Also: limits of 2^26+1 .. 2^28+1 records, comments inside empty containers at the boundary.",
    "C16": " Also: STRICT|ALLOW_TRAILING on extensions inside the value, default and strict mode fed in pieces, one strict parser across documents, runs of up to 300 leading zeros, trailing bytes that begin with a slash.",
    "C17": " Trees nested up to 6000 levels.",
    "C18": " Also: holders that release by overwriting/replacing/deleting the slot holding their reference, the default hash re-selected before the late seed observation, a thread's own double format surviving a change of the process-wide one.",
    "C19": " Also: requests sized as 1.001x-2.6x of the current capacity at 64 KiB / MiB / 8 MiB, the fast-append macro with an unsigned length, own contents through %s, and PBGIANT: one buffer taken to INT_MAX-64 bytes (2 GiB) and asked for a little more in every way.",
    "C20": " Also: all 64 flag sets, reads that start in the middle of a file, directories, early nesting errors followed by more read blocks, depth limits <= 0.",
    "C08": " Workloads include documents split inside long tokens at every growth point of the scratch buffer, unpaired-surrogate escapes at those points, and a tokener reset and reused after tokens of up to 5 MB.",
}

NOT_YET = {}

ALL = ["C%02d" % i for i in range(1, 21)]


def main():
    checks = []
    for pid in ALL:
        if pid not in CHECKS:
            continue
        c = CHECKS[pid]
        checks.append({
            "property_id": pid,
            "quick_cmd": "./vf check %s --tier quick" % pid,
            "thorough_cmd": "./vf check %s --tier thorough" % pid,
            "evidence_file": "/verif/evidence/%s.json" % pid,
            "replay_cmd_template": "./vf replay {path}",
            "engine": "vf",
            "level_claimed": {"category": c["level"], "text": c["text"] + MORE.get(pid, ""), "design_ref": c["design"]},
            "level_note": c["note"],
            "technique": c["technique"],
        })
    na = [{"property_id": p, "reason": NOT_YET.get(p, "check not built yet at this commit (runtime-monitoring design exists in DESIGN.md §3; not claimed until the check runs clean)")}
          for p in ALL if p not in CHECKS]
    m = {
        "version": 1,
        "setup_cmd": "./vf setup",
        "hooks": {
            "guard": "JSON_C_VERIF",
            "enable": "no source hooks: library TUs are compiled from /repo's working tree with '-include /verif/shim/vf_rename.h' "
                      "(malloc/free/strdup/vasprintf/newlocale/duplocale/freelocale/uselocale/read/write/open/close -> vf_*) and the project's own "
                      "-DOVERRIDE_GET_RANDOM_SEED='return vf_seed_hook()'; JSON_C_VERIF is reserved and unused",
            "baseline_off_cmd": "./vf baseline",
            "source_commits": [],
            "add_only": True,
        },
        "engines": [{"name": "vf", "path": "/verif/vf", "serves_properties": [c["property_id"] for c in checks],
                     "kind_free_text": "runtime monitoring: sanitizer builds (gcc ASan+UBSan, TSan; clang libFuzzer) of the working tree + libc-edge shim (allocation/locale/fd ledgers, fault schedule) + reference-model oracles over recorded call/return logs"}],
        "checks": checks,
        "not_applicable": na,
        "notes": "exit 0 held / 1 VIOLATION / 2 inconclusive (harness failure, build failure, too few events). known_findings.json lists genuine defects (known / fixed).",
    }
    with open(os.path.join(HERE, "MANIFEST.json"), "w") as f:
        json.dump(m, f, indent=1)
    print("MANIFEST.json: %d checks, %d not claimed" % (len(checks), len(na)))


if __name__ == "__main__":
    main()

#!/usr/bin/python3
"""tools/seedtest.py <PROP> <n> [extra checks...]: confirm a sub-agent's seeded change and run the checks against it.
Input: /tmp/seed/<PROP>/out/patch<n>.diff + demo<n>.c (+ NOTES.md).  Steps, all on a scratch worktree except the checks
(which by contract rebuild from /repo itself, so the patch is applied to /repo and reverted straight afterwards):
  1. scratch worktree: clean build + suite (must pass), demo exits 0
  2. scratch worktree + patch: build + suite (must still pass), demo exits non-zero
  3. git -C /repo apply; ./vf check <PROP> (and extras); git -C /repo checkout -- .
Writes /verif/seeded/<PROP>_<n>/{patch.diff, demo.c, meta.json}."""
import json
import os
import re
import shutil
import subprocess
import sys

VERIF = os.path.dirname(os.path.dirname(os.path.abspath(__file__)))


def sh(cmd, **kw):
    return subprocess.run(cmd, shell=True, stdout=subprocess.PIPE, stderr=subprocess.STDOUT, text=True, errors="replace", **kw)


def build_and_test(wt, b, threading=False):
    shutil.rmtree(b, ignore_errors=True)
    r = sh("cmake -S %s -B %s -DCMAKE_BUILD_TYPE=RelWithDebInfo -DCMAKE_C_FLAGS=-Wno-error -G Ninja %s >/dev/null && cmake --build %s 2>&1 | tail -3" % (wt, b, "-DENABLE_THREADING=ON" if threading else "", b))
    if not os.path.exists(os.path.join(b, "libjson-c.a")):
        return False, "build failed: " + r.stdout[-500:]
    t = sh("cd %s && USE_VALGRIND=0 ctest -j8 2>&1 | tail -4" % b)
    ok = "100% tests passed" in t.stdout
    return ok, t.stdout.strip().split("\n")[0]


def run_demo(demo, wt, b, extra=""):
    exe = os.path.join(b, "demo_bin")
    flags = "-O1 -g"
    src = open(demo).read()
    m = re.search(r"(?:BUILD|build|compile)[^\n]*?:\s*(gcc[^\n]*)", src)
    c = sh("gcc %s %s -o %s %s -I %s -I %s %s/libjson-c.a -lm -lpthread" % (flags, extra, exe, demo, wt, b, b))
    if c.returncode != 0:
        return None, "demo does not compile: " + c.stdout[-400:]
    rcs = []
    for _ in range(3):
        try:
            r = sh(exe, timeout=120)
            rcs.append(r.returncode)
            out = r.stdout[-300:]
        except subprocess.TimeoutExpired:
            rcs.append(124)
            out = "timeout"
    return rcs, out


def main():
    prop, n = sys.argv[1], sys.argv[2]
    args = sys.argv[3:]
    ld = ""
    if "--ld" in args:
        i = args.index("--ld")
        ld = args[i + 1]
        args = args[:i] + args[i + 2:]
    checks = [prop] + args
    src = "/tmp/seed/%s/out" % prop
    patch = os.path.join(src, "patch%s.diff" % n)
    demo = os.path.join(src, "demo%s.c" % n)
    dst = os.path.join(VERIF, "seeded", "%s_%s" % (prop, n))
    os.makedirs(dst, exist_ok=True)
    shutil.copy(patch, os.path.join(dst, "patch.diff"))
    if os.path.exists(demo):
        shutil.copy(demo, os.path.join(dst, "demo.c"))
    notes = open(os.path.join(src, "NOTES.md")).read() if os.path.exists(os.path.join(src, "NOTES.md")) else ""
    meta = {"demo_build": "gcc -O1 -g %s demo.c -I <tree> -I <build> <build>/libjson-c.a -lm -lpthread" % ld, "property": prop, "patch": "patch.diff", "demo": "demo.c", "author": "independent sub-agent given only the property text and a scratch worktree", "ran": []}
    wt = "/tmp/seedchk_%s_%s" % (prop, n)
    sh("git -C /repo worktree remove --force %s" % wt)
    sh("git -C /repo worktree add -q --detach %s HEAD" % wt)
    thr = prop == "C18"
    demo_extra = ld
    mm = re.search(r"EXTRA-FLAGS demo%s:\s*([^\n]*)" % n, notes)
    if mm and not ld and mm.group(1).strip().strip("`").startswith("-"):
        demo_extra = mm.group(1).strip().strip("`")
        meta["demo_build"] = "gcc -O1 -g %s demo.c -I <tree> -I <build> <build>/libjson-c.a -lm -lpthread" % demo_extra
    if prop == "C14":
        os.environ["LOCPATH"] = "/tmp/seed/locale"
        meta["demo_env"] = "LOCPATH=<dir containing the synthesised xx_XX locale> (./vf setup builds it under /verif/build/locale)"
    try:
        ok0, t0 = build_and_test(wt, wt + "_b", thr)
        d0 = run_demo(demo, wt, wt + "_b", demo_extra) if os.path.exists(demo) else (None, "no demo")
        a = sh("git -C %s apply %s" % (wt, patch))
        if a.returncode != 0:
            meta["confirmed"] = False
            meta["why"] = "patch does not apply: " + a.stdout[-300:]
            print(meta["why"])
            return
        ok1, t1 = build_and_test(wt, wt + "_b", thr)
        d1 = run_demo(demo, wt, wt + "_b", demo_extra) if os.path.exists(demo) else (None, "no demo")
        meta["ran"] += ["clean tree: suite %s (%s), demo exit codes %s" % ("passes" if ok0 else "FAILS", t0, d0[0]),
                        "patched tree: suite %s (%s), demo exit codes %s :: %s" % ("passes" if ok1 else "FAILS", t1, d1[0], (d1[1] or "")[-200:])]
        demo_ok = d0[0] is not None and all(x == 0 for x in d0[0]) and d1[0] is not None and any(x != 0 for x in d1[0])
        meta["confirmed"] = bool(ok0 and ok1 and demo_ok)
        if not (ok1 and thr is False) and thr:
            # the default (non-threaded) configuration must pass as well
            okd, td = build_and_test(wt, wt + "_b2", False)
            meta["ran"].append("patched tree, default configuration: suite %s (%s)" % ("passes" if okd else "FAILS", td))
            meta["confirmed"] = meta["confirmed"] and okd
        # the checks are run against the scratch worktree with the patch applied (VF_REPO), so nothing in /repo is touched and
        # concurrent soak runs are not disturbed; this is the same code path as `git -C /repo apply` + check + checkout.
        results = {}
        env = dict(os.environ)
        env["VF_REPO"] = wt
        for c in checks:
            r = subprocess.run("cd %s && timeout 1500 ./vf check %s --tier quick" % (VERIF, c), shell=True, stdout=subprocess.PIPE, stderr=subprocess.STDOUT, text=True, env=env)
            keys = re.findall(r"key=(\S+)", r.stdout)
            results[c] = {"exit": r.returncode, "violation_keys": keys[:8], "summary": r.stdout.strip().split("\n")[-1][:200]}
    finally:
        sh("git -C /repo worktree remove --force %s" % wt)
        shutil.rmtree(wt + "_b", ignore_errors=True)
        shutil.rmtree(wt + "_b2", ignore_errors=True)
        shutil.rmtree(os.path.join(VERIF, "build", "out-" + __import__("hashlib").sha1(wt.encode()).hexdigest()[:8]), ignore_errors=True)
    meta["checks"] = results
    meta["caught_by"] = [c for c, r in results.items() if r["exit"] == 1]
    m = re.search(r"(?s)(patch ?%s|Patch %s|## %s)[^\n]*\n(.{0,1500})" % (n, n, n), notes)
    meta["needs_to_manifest"] = (m.group(2) if m else notes[:1200]).strip()[:1500]
    json.dump(meta, open(os.path.join(dst, "meta.json"), "w"), indent=1)
    print(json.dumps({k: meta[k] for k in ("confirmed", "caught_by", "ran")}, indent=1))
    for c, r in results.items():
        print(c, r["exit"], r["violation_keys"][:4], r["summary"])
    # restore evidence of the clean tree later (caller re-runs checks)


if __name__ == "__main__":
    main()

/* seed hook for the threaded variants (no allocator shim: a lock in it would add happens-before edges and hide races).
 * VF_SEED_MODE=barrier:<n>  : hold every caller of json_c_get_random_seed() until n callers are inside (bounded spin,
 *                             50 ms), then hand out a DIFFERENT value to each -- a correct compare-and-swap publishes
 *                             exactly one of them; a plain store lets threads hash with different seeds.
 * VF_SEED_MODE=minus1       : the first draw is -1 (the library's "unset" sentinel), later draws are distinct ordinary values
 * otherwise                 : VF_HASH_SEED or a fixed value. */
#define _GNU_SOURCE 1
#include <stdlib.h>
#include <string.h>
#include <time.h>
#include <sched.h>

static int entered, tickets;
int vf_seed_entrants_max;

int vf_seed_hook(void)
{
	const char *m = getenv("VF_SEED_MODE");
	if (m && !strncmp(m, "barrier:", 8)) {
		int want = atoi(m + 8), me, inside; struct timespec t0, t;
		me = __atomic_add_fetch(&tickets, 1, __ATOMIC_SEQ_CST);
		inside = __atomic_add_fetch(&entered, 1, __ATOMIC_SEQ_CST);
		clock_gettime(CLOCK_MONOTONIC, &t0);
		for (;;) {
			inside = __atomic_load_n(&entered, __ATOMIC_SEQ_CST);
			if (inside >= want) break;
			clock_gettime(CLOCK_MONOTONIC, &t);
			if ((t.tv_sec - t0.tv_sec) * 1000 + (t.tv_nsec - t0.tv_nsec) / 1000000 > 50) break;
			sched_yield();
		}
		{ int cur = __atomic_load_n(&vf_seed_entrants_max, __ATOMIC_RELAXED); while (inside > cur && !__atomic_compare_exchange_n(&vf_seed_entrants_max, &cur, inside, 0, __ATOMIC_RELAXED, __ATOMIC_RELAXED)) {} }
		return 0x1000 + me * 7919;
	}
	if (m && !strcmp(m, "minus1")) {
		/* the very first draw of the process is -1, the value the library uses as "not yet set": it has to draw again, and
		 * nobody may ever hash with that first draw */
		int me = __atomic_add_fetch(&tickets, 1, __ATOMIC_SEQ_CST);
		{ int cur = __atomic_load_n(&vf_seed_entrants_max, __ATOMIC_RELAXED); while (1 > cur && !__atomic_compare_exchange_n(&vf_seed_entrants_max, &cur, 1, 0, __ATOMIC_RELAXED, __ATOMIC_RELAXED)) {} }
		return me == 1 ? -1 : 0x2000 + me * 104729;
	}
	{ const char *e = getenv("VF_HASH_SEED"); if (e && *e) return (int)strtol(e, NULL, 0); }
	return 0x5eed1234;
}

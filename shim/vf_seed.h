/* Declaration needed by -DOVERRIDE_GET_RANDOM_SEED="return vf_seed_hook()" (the project's own option). */
#ifndef VF_SEED_H
#define VF_SEED_H
int vf_seed_hook(void);
#endif

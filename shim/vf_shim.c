/* libc-edge shim: allocation ledger + fault schedule, locale ledger, fd I/O script, seed hook.
 * Compiled WITHOUT vf_rename.h, so malloc/free here are the real (ASan-interposed) ones: every block
 * the library gets is an ordinary ASan block of exactly the requested size (red zones intact).
 * Single-threaded by construction (only linked into single-threaded drivers).
 */
#define _GNU_SOURCE 1
#include <errno.h>
#include <fcntl.h>
#include <locale.h>
#include <execinfo.h>
#include <stdarg.h>
#include <stdio.h>
#include <stdlib.h>
#include <string.h>
#include <unistd.h>
#include "vf_shim.h"

long vf_live_blocks, vf_live_bytes, vf_peak_blocks, vf_peak_bytes, vf_bad_frees;
unsigned long vf_alloc_seq, vf_total_allocs;
char *vf_stack_low;
int vf_faults_fired;
const void *vf_fault_site[2];
const char *vf_fault_kind[2];
const void *vf_freelog[VF_FREELOG_MAX];
int vf_freelog_n;

static unsigned long arm_k, arm_k2;
static int armed;
static unsigned long serial_ctr;

struct ent { const void *p; size_t size; unsigned long serial; const void *site; };
static struct ent *tab;
static size_t tab_cap, tab_used; /* used counts live + tombstones */
#define TOMB ((const void *)1)

static size_t hp(const void *p) { uintptr_t x = (uintptr_t)p; x ^= x >> 17; x *= 0x9E3779B97F4A7C15ull; return (size_t)(x >> 20); }

static void tab_grow(void)
{
	size_t ncap = tab_cap ? tab_cap * 2 : 4096, i;
	struct ent *nt = (struct ent *)calloc(ncap, sizeof(*nt));
	if (!nt) { fprintf(stderr, "vf_shim: out of memory for ledger\n"); abort(); }
	for (i = 0; i < tab_cap; i++)
		if (tab[i].p && tab[i].p != TOMB) {
			size_t j = hp(tab[i].p) & (ncap - 1);
			while (nt[j].p) j = (j + 1) & (ncap - 1);
			nt[j] = tab[i];
		}
	free(tab);
	tab = nt; tab_cap = ncap; tab_used = (size_t)vf_live_blocks;
}

static void tab_add(const void *p, size_t size, const void *site)
{
	size_t j;
	if ((tab_used + 1) * 2 > tab_cap) tab_grow();
	j = hp(p) & (tab_cap - 1);
	while (tab[j].p && tab[j].p != TOMB) j = (j + 1) & (tab_cap - 1);
	if (!tab[j].p) tab_used++;
	tab[j].p = p; tab[j].size = size; tab[j].serial = ++serial_ctr; tab[j].site = site;
	vf_live_blocks++; vf_live_bytes += (long)size;
	if (vf_live_blocks > vf_peak_blocks) vf_peak_blocks = vf_live_blocks;
	if (vf_live_bytes > vf_peak_bytes) vf_peak_bytes = vf_live_bytes;
}

static struct ent *tab_find(const void *p)
{
	size_t j, n = 0;
	if (!tab_cap) return NULL;
	j = hp(p) & (tab_cap - 1);
	while (tab[j].p && n++ < tab_cap) {
		if (tab[j].p == p) return &tab[j];
		j = (j + 1) & (tab_cap - 1);
	}
	return NULL;
}

static int tab_del(const void *p)
{
	struct ent *e = tab_find(p);
	if (!e) return 0;
	vf_live_blocks--; vf_live_bytes -= (long)e->size;
	e->p = TOMB;
	return 1;
}

size_t vf_block_size(const void *p)
{
	struct ent *e = tab_find(p);
	return e ? e->size : (size_t)-1;
}

unsigned long vf_next_serial(void) { return serial_ctr + 1; }

int vf_live_since(unsigned long serial, const void **p, size_t *size, const void **site)
{
	size_t i; struct ent *best = NULL;
	for (i = 0; i < tab_cap; i++)
		if (tab[i].p && tab[i].p != TOMB && tab[i].serial >= serial && (!best || tab[i].serial < best->serial))
			best = &tab[i];
	if (!best) return 0;
	if (p) *p = best->p;
	if (size) *size = best->size;
	if (site) *site = best->site;
	return 1;
}

int vf_first_live(const void **p, size_t *size, const void **site, unsigned long *serial)
{
	size_t i; struct ent *best = NULL;
	for (i = 0; i < tab_cap; i++)
		if (tab[i].p && tab[i].p != TOMB && (!best || tab[i].serial < best->serial))
			best = &tab[i];
	if (!best) return 0;
	if (p) *p = best->p;
	if (size) *size = best->size;
	if (site) *site = best->site;
	if (serial) *serial = best->serial;
	return 1;
}

void vf_reset_peaks(void) { vf_peak_blocks = vf_live_blocks; vf_peak_bytes = vf_live_bytes; vf_stack_low = NULL; }
void vf_arm(unsigned long k, unsigned long k2) { arm_k = k; arm_k2 = k2; vf_alloc_seq = 0; armed = 1; vf_faults_fired = 0; vf_fault_site[0] = vf_fault_site[1] = NULL; vf_fault_kind[0] = vf_fault_kind[1] = NULL; vf_fault_nframes = 0; }
void vf_disarm(void) { armed = 0; }
void vf_freelog_reset(void) { vf_freelog_n = 0; }

/* returns 1 if this allocation-type call must fail */
void *vf_fault_stack[10]; int vf_fault_nframes;
static int fault(const char *kind, const void *site)
{
	char here;
	if (!vf_stack_low || &here < vf_stack_low) vf_stack_low = &here;
	vf_total_allocs++;
	vf_alloc_seq++;
	if (armed && (vf_alloc_seq == arm_k || (arm_k2 && vf_alloc_seq == arm_k2))) {
		if (vf_faults_fired < 2) { vf_fault_site[vf_faults_fired] = site; vf_fault_kind[vf_faults_fired] = kind; }
		if (vf_faults_fired == 0) vf_fault_nframes = backtrace(vf_fault_stack, 10);   /* who asked for the allocation that fails (the consumer of printbuf growth, say) */
		vf_faults_fired++;
		errno = ENOMEM;
		return 1;
	}
	return 0;
}

void *vf_malloc(size_t n)
{
	void *p;
	if (fault("malloc", __builtin_return_address(0))) return NULL;
	p = malloc(n);
	if (p) tab_add(p, n, __builtin_return_address(0));
	return p;
}

void *vf_calloc(size_t a, size_t b)
{
	void *p;
	if (fault("calloc", __builtin_return_address(0))) return NULL;
	p = calloc(a, b);
	if (p) tab_add(p, a * b, __builtin_return_address(0));
	return p;
}

void *vf_realloc(void *old, size_t n)
{
	void *p;
	if (fault("realloc", __builtin_return_address(0))) return NULL;
	if (old && !tab_find(old)) { vf_bad_frees++; }
	/* emulate with malloc+copy+free so that a stale pointer into the old block is always caught by ASan
	 * and the block size is always exactly n */
	if (n == 0) n = 1;
	p = malloc(n);
	if (!p) return NULL;
	if (old) {
		size_t os = vf_block_size(old);
		if (os == (size_t)-1) os = 0;
		memcpy(p, old, os < n ? os : n);
		if (vf_freelog_n < VF_FREELOG_MAX) vf_freelog[vf_freelog_n++] = old;
		tab_del(old);
		free(old);
	}
	tab_add(p, n, __builtin_return_address(0));
	return p;
}

void vf_free(void *p)
{
	if (!p) return;
	if (vf_freelog_n < VF_FREELOG_MAX) vf_freelog[vf_freelog_n++] = p;
	if (!tab_del(p)) vf_bad_frees++;
	free(p); /* a double free / foreign free is reported by ASan right here */
}

char *vf_strdup(const char *s)
{
	size_t n; char *p;
	if (fault("strdup", __builtin_return_address(0))) return NULL;
	n = strlen(s) + 1;
	p = (char *)malloc(n);
	if (!p) return NULL;
	memcpy(p, s, n);
	tab_add(p, n, __builtin_return_address(0));
	return p;
}

int vf_vasprintf(char **out, const char *fmt, va_list ap)
{
	int r;
	if (fault("vasprintf", __builtin_return_address(0))) { *out = NULL; return -1; }
	r = vasprintf(out, fmt, ap);
	if (r >= 0 && *out) {
		/* move into an exact-size block so the ledger knows its size */
		char *q = (char *)malloc((size_t)r + 1);
		if (!q) { free(*out); *out = NULL; return -1; }
		memcpy(q, *out, (size_t)r + 1);
		free(*out);
		*out = q;
		tab_add(q, (size_t)r + 1, __builtin_return_address(0));
	}
	return r;
}

/* ---- locale ledger ---- */
long vf_loc_live, vf_loc_created, vf_loc_freed, vf_loc_foreign_free, vf_loc_use_calls;
#define LOCMAX 64
static locale_t locs[LOCMAX];
static int nlocs;
static void loc_add(locale_t l) { if (nlocs < LOCMAX) locs[nlocs++] = l; vf_loc_live++; vf_loc_created++; }
static int loc_del(locale_t l)
{
	int i;
	for (i = 0; i < nlocs; i++)
		if (locs[i] == l) { locs[i] = locs[--nlocs]; vf_loc_live--; return 1; }
	return 0;
}
void vf_loc_reset(void) { nlocs = 0; vf_loc_live = vf_loc_created = vf_loc_freed = vf_loc_foreign_free = vf_loc_use_calls = 0; }

locale_t vf_duplocale(locale_t l)
{
	locale_t r;
	if (fault("duplocale", __builtin_return_address(0))) return (locale_t)0;
	r = duplocale(l);
	if (r) loc_add(r);
	return r;
}

locale_t vf_newlocale(int mask, const char *name, locale_t base)
{
	locale_t r;
	if (fault("newlocale", __builtin_return_address(0))) return (locale_t)0;
	r = newlocale(mask, name, base);
	if (r) {
		if (base) {
			/* base is consumed (glibc frees or reuses it); the result is one library-owned object */
			if (!loc_del(base)) vf_loc_foreign_free++; /* the library handed a locale it does not own to newlocale */
			else vf_loc_created--;
		}
		loc_add(r);
	}
	return r;
}

void vf_freelocale(locale_t l)
{
	if (!loc_del(l)) vf_loc_foreign_free++;
	vf_loc_freed++;
	freelocale(l);
}

locale_t vf_uselocale(locale_t l)
{
	if (l) vf_loc_use_calls++;
	return uselocale(l);
}

/* ---- fd I/O script ---- */
static int io_on, io_ncaps, io_err_at, io_err_no;
static int io_caps[VF_IO_MAX];
long vf_io_calls, vf_io_bytes, vf_io_injected, vf_open_calls, vf_close_calls;

void vf_io_script(const int *caps, int ncaps, int err_at, int err_no)
{
	if (ncaps > VF_IO_MAX) ncaps = VF_IO_MAX;
	memcpy(io_caps, caps, sizeof(int) * (size_t)ncaps);
	io_ncaps = ncaps; io_err_at = err_at; io_err_no = err_no; io_on = 1;
	vf_io_calls = vf_io_bytes = vf_io_injected = 0;
}
void vf_io_off(void) { io_on = 0; }

static int io_step(size_t *n)
{
	long idx = vf_io_calls++;
	if (!io_on) return 0;
	if (io_err_at >= 0 && idx == io_err_at) { vf_io_injected++; errno = io_err_no; return -1; }
	if (io_ncaps > 0) {
		int cap = io_caps[idx % io_ncaps];
		if (cap > 0 && *n > (size_t)cap) *n = (size_t)cap;
	}
	return 0;
}

ssize_t vf_read(int fd, void *buf, size_t n)
{
	ssize_t r;
	if (io_step(&n) < 0) return -1;
	r = read(fd, buf, n);
	if (r > 0) vf_io_bytes += r;
	return r;
}

ssize_t vf_write(int fd, const void *buf, size_t n)
{
	ssize_t r;
	if (io_step(&n) < 0) return -1;
	r = write(fd, buf, n);
	if (r > 0) vf_io_bytes += r;
	return r;
}

int vf_open(const char *path, int flags, ...)
{
	int mode = 0, r;
	if (flags & O_CREAT) { va_list ap; va_start(ap, flags); mode = va_arg(ap, int); va_end(ap); }
	r = open(path, flags, mode);
	if (r >= 0) vf_open_calls++;
	return r;
}

int vf_close(int fd)
{
	vf_close_calls++;
	return close(fd);
}

/* ---- seed hook ---- */
int vf_seed_hook(void)
{
	/* the seed is to be drawn once per process: the first call returns the configured value (replayable probe sequences), any FURTHER call a different one,
	 * so that a second draw changes how keys hash and shows up as lost members in whatever object is alive at that moment */
	static int calls;
	const char *e = getenv("VF_HASH_SEED");
	int base = (e && *e) ? (int)strtol(e, NULL, 0) : 0x5eed1234;
	int v = base + 7919 * calls++;
	return v == -1 ? 12345 : v;
}

/* Harness-side interface of the libc-edge shim (single-threaded drivers only). */
#ifndef VF_SHIM_H
#define VF_SHIM_H
#include <stddef.h>
#include <stdint.h>
#include <sys/types.h>

/* ---- allocation ledger ---- */
extern long vf_live_blocks;      /* blocks allocated by the library and not yet freed */
extern long vf_live_bytes;
extern long vf_peak_blocks;      /* high-water marks since vf_reset_peaks() */
extern long vf_peak_bytes;
extern unsigned long vf_alloc_seq; /* number of allocation-type calls since vf_arm()/start */
extern unsigned long vf_total_allocs;
extern long vf_bad_frees;        /* free/realloc of a pointer the ledger does not know */
extern char *vf_stack_low;       /* lowest stack address sampled at allocation time */
void vf_reset_peaks(void);
/* fail allocation number k (1-based, counted from this call) and, optionally, k2 (0 = none) */
void vf_arm(unsigned long k, unsigned long k2);
void vf_disarm(void);
extern int vf_faults_fired;      /* how many armed faults fired */
extern const void *vf_fault_site[2]; /* return address of the failed call */
extern const char *vf_fault_kind[2];
extern void *vf_fault_stack[10]; extern int vf_fault_nframes; /* call stack of the first failed allocation */
size_t vf_block_size(const void *p); /* (size_t)-1 if unknown */
/* first live block (in serial order) for leak witnesses; returns 0 if none */
int vf_first_live(const void **p, size_t *size, const void **site, unsigned long *serial);
unsigned long vf_next_serial(void);
int vf_live_since(unsigned long serial, const void **p, size_t *size, const void **site);

/* ---- free log (which blocks died during the current API call) ---- */
#define VF_FREELOG_MAX 4096
extern const void *vf_freelog[VF_FREELOG_MAX];
extern int vf_freelog_n;
void vf_freelog_reset(void);

/* ---- locale ledger ---- */
extern long vf_loc_live;         /* locale objects created by the library and not yet released */
extern long vf_loc_created, vf_loc_freed, vf_loc_foreign_free, vf_loc_use_calls;
void vf_loc_reset(void);

/* ---- fd I/O script ---- */
#define VF_IO_MAX 65536
void vf_io_script(const int *caps, int ncaps, int err_at, int err_no); /* caps cycle; err_at: 0-based call index or -1 */
void vf_io_off(void);
extern long vf_io_calls, vf_io_bytes, vf_io_injected;
extern long vf_open_calls, vf_close_calls;

int vf_seed_hook(void);
#endif

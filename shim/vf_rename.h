/* Force-included (-include) into every json-c translation unit of the shimmed variants.
 * It does not touch the sources: it only changes WHICH libc symbol the unchanged code calls, so the
 * harness can observe / fail allocations, locale objects and fd transfers at the library->libc edge.
 */
#ifndef VF_RENAME_H
#define VF_RENAME_H

#ifndef _GNU_SOURCE
#define _GNU_SOURCE 1
#endif
#include <stddef.h>
#include <stdarg.h>
#include <stdio.h>
#include <stdlib.h>
#include <string.h>
#include <locale.h>
#include <unistd.h>
#include <fcntl.h>
#include <sys/types.h>

void *vf_malloc(size_t n);
void *vf_calloc(size_t a, size_t b);
void *vf_realloc(void *p, size_t n);
void vf_free(void *p);
char *vf_strdup(const char *s);
int vf_vasprintf(char **out, const char *fmt, va_list ap);
locale_t vf_newlocale(int mask, const char *name, locale_t base);
locale_t vf_duplocale(locale_t l);
void vf_freelocale(locale_t l);
locale_t vf_uselocale(locale_t l);
ssize_t vf_read(int fd, void *buf, size_t n);
ssize_t vf_write(int fd, const void *buf, size_t n);
int vf_open(const char *path, int flags, ...);
int vf_close(int fd);

#define malloc vf_malloc
#define calloc vf_calloc
#define realloc vf_realloc
#define free vf_free
#undef strdup
#define strdup vf_strdup
#define vasprintf vf_vasprintf
#define newlocale vf_newlocale
#define duplocale vf_duplocale
#define freelocale vf_freelocale
#define uselocale vf_uselocale
#define read vf_read
#define write vf_write
#define open vf_open
#define close vf_close

#endif

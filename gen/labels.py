"""Labels every chunk-boundary position of a JSON(-ish) text by the lexical situation the boundary falls in,
computed from the text alone (generator side) so that coverage evidence does not depend on how the
implementation names its states.  label[p] describes the boundary after p bytes, 0 < p < n."""

HEXD = b"0123456789abcdefABCDEF"
DIG = b"0123456789"

REQUIRED = [
    "string.inside", "string.after_backslash", "string.u+0", "string.u+1", "string.u+2", "string.u+3",
    "surrogate.after_high", "surrogate.after_high_backslash", "surrogate.after_high_u", "surrogate.low+1", "surrogate.low+2", "surrogate.low+3",
    "utf8.inside_char",
    "literal.true+1", "literal.true+2", "literal.true+3", "literal.false+1", "literal.false+2", "literal.false+3", "literal.false+4",
    "literal.null+1", "literal.null+2", "literal.null+3",
    "number.after_minus", "number.int", "number.after_dot", "number.frac", "number.after_e", "number.after_exp_sign", "number.exp",
    "comment.after_slash", "comment.block", "comment.block_after_star", "comment.line",
    "gap.after_[", "gap.after_,", "gap.after_{", "gap.after_name", "gap.after_:", "gap.after_value", "gap.in_ws", "gap.between_documents",
    "name.inside",
]


def labels(s):
    n = len(s)
    lab = [None] * (n + 1)
    i = 0
    depth = 0
    stack = []      # 'a' or 'o'
    expect_name = False
    last = "top"    # what the previous structural token was
    values_done = 0

    def gap_label():
        if last == "top":
            return "gap.between_documents" if values_done else "gap.top_before"
        return "gap." + last

    while i < n:
        c = s[i]
        if c in b" \t\n\r":
            i += 1
            if i < n:
                lab[i] = "gap.in_ws" if s[i] in b" \t\n\r" else gap_label()
            continue
        if c == 0x2F:  # comment
            i += 1
            if i >= n:
                break
            lab[i] = "comment.after_slash"
            if s[i] == 0x2A:
                i += 1
                star = False
                while i < n:
                    lab[i] = "comment.block_after_star" if star else "comment.block"
                    c2 = s[i]
                    i += 1
                    if star and c2 == 0x2F:
                        break
                    star = (c2 == 0x2A)
                if i < n:
                    lab[i] = gap_label()
            elif s[i] == 0x2F:
                i += 1
                while i < n:
                    lab[i] = "comment.line"
                    if s[i] == 0x0A:
                        i += 1
                        break
                    i += 1
                if i < n:
                    lab[i] = gap_label()
            else:
                break
            continue
        if c in b"\"'":
            q = c
            is_name = bool(stack) and stack[-1] == "o" and expect_name
            inside = "name.inside" if is_name else "string.inside"
            i += 1
            hi = False
            while i < n:
                lab[i] = "surrogate.after_high" if hi else inside
                c = s[i]
                if c == q:
                    i += 1
                    break
                if c == 0x5C:
                    i += 1
                    if i >= n:
                        break
                    lab[i] = "surrogate.after_high_backslash" if hi else "string.after_backslash"
                    if s[i] == 0x75:
                        i += 1
                        k = 0
                        cu = 0
                        while i < n and k < 4 and s[i] in HEXD:
                            lab[i] = ("surrogate.after_high_u" if k == 0 else "surrogate.low+%d" % k) if hi else "string.u+%d" % k
                            cu = cu * 16 + int(chr(s[i]), 16)
                            i += 1
                            k += 1
                        if k < 4:
                            hi = False
                            continue
                        hi = (0xD800 <= cu <= 0xDBFF)
                        continue
                    hi = False
                    i += 1
                    continue
                hi = False
                if c >= 0xC0:
                    need = 1 if c < 0xE0 else 2 if c < 0xF0 else 3
                    i += 1
                    while need and i < n and 0x80 <= s[i] < 0xC0:
                        lab[i] = "utf8.inside_char"
                        i += 1
                        need -= 1
                    continue
                i += 1
            if is_name:
                last = "after_name"
                expect_name = False
            else:
                last = "after_value"
                if not stack:
                    values_done += 1
                    last = "top"
            if i < n:
                lab[i] = gap_label()
            continue
        if c == 0x2D or c in DIG:
            st = "number.after_minus" if c == 0x2D else "number.int"
            i += 1
            while i < n:
                c = s[i]
                if c in DIG:
                    lab[i] = st
                    st = {"number.after_minus": "number.int", "number.after_dot": "number.frac", "number.after_e": "number.exp",
                          "number.after_exp_sign": "number.exp"}.get(st, st)
                elif c == 0x2E and st == "number.int":
                    lab[i] = st
                    st = "number.after_dot"
                elif c in b"eE" and st in ("number.int", "number.frac"):
                    lab[i] = st
                    st = "number.after_e"
                elif c in b"+-" and st == "number.after_e":
                    lab[i] = st
                    st = "number.after_exp_sign"
                else:
                    break
                i += 1
            last = "after_value"
            if not stack:
                values_done += 1
                last = "top"
            if i < n:
                lab[i] = st  # boundary right after the last number byte: the number may still continue
            continue
        matched = False
        for lit in (b"true", b"false", b"null"):
            L = len(lit)
            if s[i:i + L].lower() == lit:
                for k in range(1, L):
                    lab[i + k] = "literal.%s+%d" % (lit.decode(), k)
                i += L
                last = "after_value"
                if not stack:
                    values_done += 1
                    last = "top"
                if i < n:
                    lab[i] = gap_label()
                matched = True
                break
        if matched:
            continue
        i += 1
        if c == 0x5B:
            stack.append("a")
            last = "after_["
        elif c == 0x7B:
            stack.append("o")
            last = "after_{"
            expect_name = True
        elif c in b"]}":
            if stack:
                stack.pop()
            last = "after_value"
            if not stack:
                values_done += 1
                last = "top"
            expect_name = False
        elif c == 0x2C:
            last = "after_,"
            expect_name = bool(stack) and stack[-1] == "o"
        elif c == 0x3A:
            last = "after_:"
        else:
            last = "after_value"
        if i < n:
            lab[i] = gap_label()
    return lab

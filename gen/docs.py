"""Constructive generator of RFC 8259-valid texts: draws a VALUE in the model and emits a randomised
surface form of it (whitespace layout, every escape form, raw vs escaped characters, surrogate
combinations, number spellings).  Returns (text: bytes, value) -- the expected value is known by
construction, independently of any parser."""
from fractions import Fraction

from oracle.refjson import FFFD, utf8, from_bits, dbits, I64_MIN, I64_MAX, U64_MAX

SIMPLE_ESC = [(b'\\"', b'"'), (b"\\\\", b"\\"), (b"\\/", b"/"), (b"\\b", b"\b"), (b"\\f", b"\f"), (b"\\n", b"\n"),
              (b"\\r", b"\r"), (b"\\t", b"\t")]
WS_CHOICES = [b"", b"", b"", b"", b" ", b" ", b"\n", b"\t", b"\r", b"\r\n", b"  ", b" \t\n\r ", b"\n\n\t"]


def hex4(rng, cu):
    s = "%04x" % cu
    m = rng.randrange(3)
    if m == 1:
        s = s.upper()
    elif m == 2:
        s = "".join(c.upper() if rng.random() < 0.5 else c for c in s)
    return b"\\u" + s.encode()


def rand_scalar(rng):
    """a Unicode scalar value, biased to boundaries of the UTF-8 length classes"""
    r = rng.random()
    if r < 0.25:
        return rng.choice([0x20, 0x7E, 0x7F, 0x80, 0x7FF, 0x800, 0xFFF, 0x1000, 0xD7FF, 0xE000, 0xFFFD, 0xFFFE, 0xFFFF,
                           0x10000, 0x10FFFF, 0xFFFFF, 0x100000, 0x1F600, 0x2028, 0x2029, 0xFEFF])
    if r < 0.5:
        return rng.randrange(0x20, 0x7F)
    if r < 0.65:
        return rng.randrange(0x80, 0x800)
    if r < 0.85:
        c = rng.randrange(0x800, 0x10000 - 0x800)
        return c if c < 0xD800 else c + 0x800
    return rng.randrange(0x10000, 0x110000)


class DocGen:
    def __init__(self, rng, max_depth=31, budget=60, nul_keys=0.0, big_ints=True, ws=True, big=False):
        self.big = big
        self.rng = rng
        self.max_depth = max_depth  # max number of enclosing containers of any value
        self.budget = budget
        self.nul_keys = nul_keys
        self.big_ints = big_ints
        self.use_ws = ws
        self.stats = {}

    def st(self, k):
        self.stats[k] = self.stats.get(k, 0) + 1

    def ws(self):
        return self.rng.choice(WS_CHOICES) if self.use_ws else b""

    # ---------------- strings ----------------
    def string(self, is_key=False, maxitems=None):
        rng = self.rng
        n = rng.choice([0, 1, 1, 2, 3, 5, 8, 13]) if maxitems is None else rng.randrange(maxitems + 1)
        if maxitems is None and self.big and rng.random() < 0.02:
            n = rng.choice([31, 32, 33, 64, 127, 128, 129, 300, 1000, 5000])  # longer than the tokener's scratch buffer and its doublings
            self.st("str.long")
        text, val = bytearray(b'"'), bytearray()
        prev_lone_high = False
        i = 0
        while i < n:
            i += 1
            r = rng.random()
            if r < 0.30:  # raw printable ASCII
                c = rng.randrange(0x20, 0x7F)
                if c in (0x22, 0x5C):
                    c = 0x61
                text.append(c)
                val.append(c)
                self.st("str.raw_ascii")
            elif r < 0.42:  # raw UTF-8
                b = utf8(max(0x80, rand_scalar(rng)) if rng.random() < 0.8 else 0x7F)
                text += b
                val += b
                self.st("str.raw_utf8_%d" % len(b))
            elif r < 0.56:
                t, v = rng.choice(SIMPLE_ESC)
                text += t
                val += v
                self.st("str.esc_" + t[1:].decode())
            elif r < 0.72:  # \u BMP non-surrogate (incl. control chars, and NUL in values)
                cu = rand_scalar(rng) if rng.random() < 0.6 else rng.randrange(0, 0x20)
                if cu > 0xFFFF:
                    cu &= 0xFFFF
                if 0xD800 <= cu <= 0xDFFF:
                    cu = 0x41
                if cu == 0 and is_key and rng.random() >= self.nul_keys:
                    cu = 1
                if cu == 0:
                    self.st("str.u0000_in_key" if is_key else "str.u0000")
                text += hex4(rng, cu)
                val += utf8(cu)
                self.st("str.u_bmp")
            elif r < 0.84:  # surrogate pair
                cp = rng.randrange(0x10000, 0x110000) if rng.random() < 0.8 else rng.choice([0x10000, 0x10FFFF, 0x1FFFF, 0x20000])
                c = cp - 0x10000
                text += hex4(rng, 0xD800 + (c >> 10)) + hex4(rng, 0xDC00 + (c & 0x3FF))
                val += utf8(cp)
                self.st("str.u_pair")
            elif r < 0.92:  # lone high surrogate; whatever follows must not be a \u low surrogate escape
                text += hex4(rng, rng.randrange(0xD800, 0xDC00))
                val += FFFD
                self.st("str.lone_high")
                prev_lone_high = True
                continue
            else:  # lone low surrogate (not directly after a lone high: that would be a pair)
                if prev_lone_high:
                    text += b"x"
                    val += b"x"
                text += hex4(rng, rng.randrange(0xDC00, 0xE000))
                val += FFFD
                self.st("str.lone_low")
            prev_lone_high = False
        text.append(0x22)
        return bytes(text), bytes(val)

    # ---------------- numbers ----------------
    def integer(self):
        rng = self.rng
        r = rng.random()
        if r < 0.25:
            v = rng.choice([0, 1, -1, 9, 10, 99, 100, 127, 128, 255, 256, 32767, 65535, 65536])
            self.st("num.small_int")
        elif r < 0.5:
            base = rng.choice([1 << 31, -(1 << 31), 1 << 32, 1 << 53, -(1 << 53), 1 << 63, -(1 << 63), 1 << 64, (1 << 63) - 1])
            v = base + rng.randrange(-3, 4)
            self.st("num.lattice_int")
        elif r < 0.65:
            k = rng.randrange(1, 41 if self.big_ints else 19)
            v = 10 ** k + rng.choice([-1, 0, 1])
            if rng.random() < 0.5:
                v = -v
            self.st("num.pow10_int")
        elif r < 0.85:
            v = rng.getrandbits(64) - (1 << 63) if rng.random() < 0.5 else rng.getrandbits(64)
            self.st("num.rand64_int")
        else:
            k = rng.randrange(1, 41 if self.big_ints else 19)
            v = rng.randrange(10 ** (k - 1), 10 ** k)
            if rng.random() < 0.5:
                v = -v
            self.st("num.randdigits_int")
        if not self.big_ints:
            v = max(I64_MIN, min(U64_MAX, v))
        if v < I64_MIN or v > U64_MAX:
            self.st("num.beyond64")
            self.text_has_beyond64 = True
        if v == 0 and rng.random() < 0.3:
            self.st("num.neg_zero_int")
            return b"-0", 0
        return str(v).encode(), v

    def double(self):
        rng = self.rng
        r = rng.random()
        if r < 0.35:  # random finite bit pattern, printed in one of several exact-enough ways
            while True:
                b = rng.getrandbits(64)
                if (b >> 52) & 0x7FF != 0x7FF:
                    break
            f = from_bits(b)
            m = rng.randrange(4)
            if m == 0:
                t = repr(f)
            elif m == 1:
                t = "%.17g" % f
            elif m == 2:
                t = "%.25e" % f
            else:
                t = "%.17e" % f
            if "e" not in t and "." not in t and "E" not in t:
                t += ".0"
            self.st("num.dbl_bits")
        elif r < 0.55:  # simple decimal shapes
            ip = str(rng.choice([0, 0, 1, 7, 12, 123, 1234567, rng.getrandbits(40)]))
            t = ip
            shape = rng.randrange(3)
            if shape in (0, 2):
                t += "." + "".join(rng.choice("0123456789") for _ in range(rng.choice([1, 1, 2, 3, 6, 17, 30])))
            if shape in (1, 2):
                t += rng.choice("eE") + rng.choice(["", "+", "-"]) + rng.choice(["0", "1", "5", "05", "10", "22", "308", "0007", "300"])
            if rng.random() < 0.3:
                t = "-" + t
            self.st("num.dbl_shape%d" % shape)
        elif r < 0.7:  # exact half-way point between two adjacent doubles (round-half-even must be right)
            b = rng.getrandbits(52) | (rng.randrange(1023 - 40, 1023 + 40) << 52)
            lo, hi = Fraction(from_bits(b)), Fraction(from_bits(b + 1))
            mid = (lo + hi) / 2
            t = frac_to_decimal(mid)
            k = rng.random()
            if k < 0.4:  # nudge by one unit in the last place shown, so not a tie any more
                t = t[:-1] + ("6" if t[-1] == "5" else "4")
            elif k < 0.55:
                # ... or break the tie with a single non-zero digit a long way behind it: every digit counts, however long the token
                t = (t if "." in t else t + ".") + "0" * rng.choice([1, 17, 40, 400, 770, 1000, 1075, 1100, 1200, 2000, 5000]) + rng.choice("19")
                self.st("num.dbl_halfway_plus_far_digit")
            self.st("num.dbl_halfway")
        elif r < 0.8:  # long digit strings
            t = "".join(rng.choice("0123456789") for _ in range(rng.randrange(20, 45)))
            t = t.lstrip("0") or "0"
            k = rng.randrange(0, len(t) + 1)
            t = (t[:k] or "0") + "." + (t[k:] or "0")
            if rng.random() < 0.3:
                t += "e%d" % rng.randrange(-330, 300)
            self.st("num.dbl_long")
        elif r < 0.86:  # structured decimals: (integer digits) x (leading fraction zeros) x (significant fraction digits) x (exponent form)
            ip = rng.choice(["0", "0", str(rng.randrange(1, 10)), "".join(rng.choice("0123456789") for _ in range(rng.choice([2, 9, 16, 22]))).lstrip("0") or "0"])
            z = "0" * rng.choice([0, 0, 1, 3, 8, 15, 22, 23, 24, 30, 40, 310, 330, 400])
            sig = "".join(rng.choice("0123456789") for _ in range(rng.choice([1, 1, 2, 5, 9, 14, 15, 16, 17, 20])))
            t = ip + "." + z + sig
            e = rng.random()
            if e < 0.25:
                t += rng.choice("eE") + rng.choice(["", "+", "-"]) + str(rng.choice([0, 1, 7, 22, 23, 40, 100, 300, 308, 323, 324, 330, 400, 999, 4000]))
            if rng.random() < 0.3:
                t = "-" + t
            self.st("num.dbl_structured")
        elif r < 0.9:  # subnormals / extremes
            t = rng.choice(["4.9e-324", "5e-324", "2.2250738585072014e-308", "2.2250738585072011e-308",
                            "1.7976931348623157e308", "1.7976931348623158e308", "2.4703282292062328e-324", "2.4703282292062327e-324",
                            "1e-400", "0.0", "-0.0", "0e0", "0E-0", "-0e5", "1e22", "1e23", "9007199254740993.0", "0.1", "0.3"])
            self.st("num.dbl_extreme")
        else:  # integers written as doubles
            v = rng.choice([1, 100, 1 << 53, (1 << 53) + 1, 10 ** 22, 10 ** 23, (1 << 63), (1 << 64)])
            t = "%d.0" % v if rng.random() < 0.5 else "%de0" % v
            self.st("num.dbl_intlike")
        if rng.random() < 0.3:
            t = t.replace("e", "E")
        return t.encode(), float(t)

    # ---------------- values ----------------
    def value(self, depth, budget):
        """depth = number of containers that will enclose this value"""
        rng = self.rng
        r = rng.random()
        can_nest = depth < self.max_depth and budget[0] > 0
        if r < 0.42 and can_nest:
            if rng.random() < 0.5:
                return self.array(depth, budget)
            return self.object(depth, budget)
        budget[0] -= 1
        r = rng.random()
        if r < 0.30:
            return self.string()
        if r < 0.55:
            return self.integer()
        if r < 0.80:
            return self.double()
        lit = rng.choice([(b"true", True), (b"false", False), (b"null", None)])
        self.st("lit." + lit[0].decode())
        return lit

    def array(self, depth, budget):
        rng = self.rng
        n = rng.choice([0, 0, 1, 1, 2, 3, 4, 6]) if depth + 1 <= self.max_depth else 0
        if self.big and rng.random() < 0.01 and depth < self.max_depth:
            n = rng.choice([31, 32, 33, 64, 65, 200, 1500])  # across several array doublings
            budget[0] = max(budget[0], 4)
            self.st("arr.large")
        if depth == self.max_depth:
            n = 0
        text, val = bytearray(b"["), []
        if n == 0:
            text += self.ws()
            self.st("arr.empty")
        for i in range(n):
            if i:
                text += b","
            t, v = self.value(depth + 1, budget)
            text += self.ws() + t + self.ws()
            val.append(v)
        text += b"]"
        self.st("depth.%d" % (depth + (1 if n else 0)))
        return bytes(text), val

    def object(self, depth, budget):
        rng = self.rng
        n = rng.choice([0, 0, 1, 1, 2, 3, 4, 6])
        if self.big and rng.random() < 0.015 and depth < self.max_depth:
            n = rng.choice([10, 11, 12, 21, 22, 23, 44, 90, 400])  # across several hash-table resizes, with duplicate names arriving late
            self.st("obj.large")
        if depth == self.max_depth:
            n = 0
        text, val = bytearray(b"{"), {}
        if n == 0:
            text += self.ws()
            self.st("obj.empty")
        keys = []
        for i in range(n):
            if i:
                text += b","
            if keys and rng.random() < 0.2:  # duplicate name (possibly spelled differently)
                kv = rng.choice(keys)
                kt = self.respell_key(kv)
                self.st("obj.dup_key")
            else:
                kt, kv = self.string(is_key=True)
                if kv in val:
                    self.st("obj.dup_key")
            keys.append(kv)
            t, v = self.value(depth + 1, budget)
            text += self.ws() + kt + self.ws() + b":" + self.ws() + t + self.ws()
            val[kv] = v
        text += b"}"
        return bytes(text), val

    def respell_key(self, kv):
        """another spelling of the same name: escape every byte that can be escaped"""
        try:
            s = kv.decode("utf-8")
        except UnicodeDecodeError:
            return None
        out = bytearray(b'"')
        for ch in s:
            cp = ord(ch)
            if cp < 0x20 or ch in '"\\' or self.rng.random() < 0.5:
                if cp > 0xFFFF:
                    c = cp - 0x10000
                    out += hex4(self.rng, 0xD800 + (c >> 10)) + hex4(self.rng, 0xDC00 + (c & 0x3FF))
                else:
                    out += hex4(self.rng, cp)
            else:
                out += ch.encode("utf-8")
        out.append(0x22)
        return bytes(out)

    def document(self):
        rng = self.rng
        budget = [rng.choice([1, 3, 8, 20, self.budget])]
        self.text_has_beyond64 = False  # an out-of-range integer TOKEN occurs in the text (even if a duplicate name hides it)
        r = rng.random()
        if r < 0.12 and self.max_depth >= 1:  # deep spine reaching the nesting limit
            t, v = self.spine(rng.randrange(max(1, self.max_depth - 3), self.max_depth + 1))
        else:
            t, v = self.value(0, budget)
        return self.ws() + t + self.ws(), v

    def spine(self, d):
        """a value enclosed by exactly d containers (mixed arrays/objects)"""
        rng = self.rng
        t, v = self.value(self.max_depth, [0])  # a scalar (cannot nest further)
        self.st("spine.%d" % d)
        for _ in range(d):
            if rng.random() < 0.5:
                t, v = b"[" + self.ws() + t + self.ws() + b"]", [v]
            else:
                kt, kv = self.string(is_key=True, maxitems=2)
                t, v = b"{" + kt + b":" + self.ws() + t + b"}", {kv: v}
        return t, v


def frac_to_decimal(fr):
    """exact decimal expansion of a positive Fraction whose denominator is a power of two"""
    n, d = fr.numerator, fr.denominator
    ip = n // d
    rem = n - ip * d
    digs = []
    while rem:
        rem *= 10
        digs.append(str(rem // d))
        rem %= d
    return "%d.%s" % (ip, "".join(digs) or "0")

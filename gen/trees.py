"""Generator of trees to be BUILT THROUGH THE API (driver command B): returns (token list for B, model value).
Strings over all 256 byte values (keys: no NUL, they are C strings in the API), int64/uint64 lattices with either
internal signedness, doubles from bit patterns / lattices / retained number text, nesting."""
from oracle.refjson import from_bits, dbits, I64_MIN, I64_MAX, U64_MAX
from gen.docs import DocGen

LATTICE = [0, 1, -1, 2, 127, 128, 255, 256, (1 << 31) - 1, 1 << 31, -(1 << 31), -(1 << 31) - 1, (1 << 32) - 1, 1 << 32, (1 << 53), (1 << 53) + 1,
           I64_MAX, I64_MAX - 1, I64_MIN, I64_MIN + 1]
ULATTICE = [I64_MAX + 1, I64_MAX + 2, U64_MAX, U64_MAX - 1, 1 << 63, (1 << 63) + (1 << 62)]
DBL_SPECIAL = [0.0, -0.0, 1.0, -1.0, 0.5, 0.1, 1e22, 1e23, 1e21, 1e16, 1e15, 123456789012345680.0, 1.5e20, 1.25e-10, 5e-324, 2.2250738585072014e-308,
               1.7976931348623157e308, 4.9e-324, 1e100, 1e-7, 1e-5, 0.0001, 100.0, 1e300, 2.5e-300, 3.0, 1e20, 12345678.0, 0.30000000000000004, 9007199254740993.0,
               9.223372036854775808e18, 1.8446744073709552e19, 2147483648.0, -2147483649.0]


class TreeGen:
    def __init__(self, rng, max_depth=6, budget=30, retained=True, allow_nan=False, big=True):
        self.big = big
        self.rng, self.max_depth, self.budget, self.retained, self.allow_nan = rng, max_depth, budget, retained, allow_nan
        self.dg = DocGen(rng)
        self.stats = {}

    def st(self, k):
        self.stats[k] = self.stats.get(k, 0) + 1

    def rbytes(self, key=False):
        rng = self.rng
        n = rng.choice([0, 1, 1, 2, 3, 5, 8, 17, 40])
        if self.big and rng.random() < 0.03:
            n = rng.choice([127, 128, 129, 500, 4096, 5000])
            self.st("string.long")
        m = rng.random()
        if m < 0.08:
            # only bytes that need escaping, in long runs (any batching of escape sequences has to cope with this)
            n = rng.choice([n, 10, 21, 22, 23, 40, 64, 130])
            b = bytes(rng.choice(b'\x00\x01\x02\x07\x08\x09\x0a\x0c\x0d\x1b\x1f"\\/') for _ in range(n))
            self.st("string.all_escaped")
        elif m < 0.12:
            # code points that serializers like to treat specially (JavaScript line separators, BOM, non-characters, the ends of each UTF-8 length class, DEL, C1 controls)
            sp = [0x7F, 0x80, 0x85, 0x9F, 0xA0, 0x7FF, 0x800, 0x2027, 0x2028, 0x2029, 0x202A, 0xD7FF, 0xE000, 0xFEFF, 0xFFFD, 0xFFFE, 0xFFFF, 0x10000, 0x1FFFF, 0x10FFFF]
            b = "".join(chr(rng.choice(sp)) if rng.random() < 0.7 else rng.choice("a \"\\/") for _ in range(max(1, n))).encode("utf-8")
            self.st("string.special_code_points")
        elif m < 0.35:
            b = bytes(rng.randrange(0x20, 0x7F) for _ in range(n))
        elif m < 0.7:
            b = bytes(rng.getrandbits(8) for _ in range(n))
        else:
            pool = [b"\x00", b"\x01", b"\x1f", b"\x7f", b"/", b'"', b"\\", b"\b", b"\f", b"\n", b"\r", b"\t", b"\xc3\xa9", b"\xe2\x82\xac", b"\xf0\x9f\x98\x80", b"\xff", b"\x80", b"a", b" ", b"</", b"\x1b[0m"]
            b = b"".join(rng.choice(pool) for _ in range(n))
        if key:
            b = b.replace(b"\0", b"0")
        return b

    def integer(self):
        rng = self.rng
        r = rng.random()
        if r < 0.35:
            v = rng.choice(LATTICE) + rng.choice([0, 0, 1, -1])
            v = max(I64_MIN, min(I64_MAX, v))
        elif r < 0.5:
            v = rng.choice(ULATTICE)
        elif r < 0.8:
            v = rng.getrandbits(64) - (1 << 63)
        else:
            v = rng.getrandbits(64)
        if v > I64_MAX or (v >= 0 and rng.random() < 0.3):
            self.st("int.uint64_repr")
            return ["u%d" % v], v
        self.st("int.int64_repr")
        return ["i%d" % v], v

    def double(self):
        rng = self.rng
        r = rng.random()
        if self.retained and r < 0.2:
            t, f = self.dg.double()
            if f != f or f in (float("inf"), float("-inf")):
                t, f = b"1.5", 1.5
            self.st("dbl.retained_text")
            return ["D%016x:%s" % (dbits(f), t.hex())], f
        if r < 0.5:
            f = rng.choice(DBL_SPECIAL)
            if rng.random() < 0.3:
                f = -f
            self.st("dbl.special")
        elif r < 0.6:
            f = float(rng.choice(LATTICE + ULATTICE))
            self.st("dbl.integral")
        elif r < 0.7:
            f = float(rng.randrange(-10 ** 6, 10 ** 6)) / rng.choice([1, 2, 4, 8, 10, 100, 1000])
            self.st("dbl.short_decimal")
        else:
            while True:
                b = rng.getrandbits(64)
                if (b >> 52) & 0x7FF != 0x7FF:
                    break
            f = from_bits(b)
            self.st("dbl.random_bits")
        return ["d%016x" % dbits(f)], f

    def value(self, depth, budget):
        rng = self.rng
        r = rng.random()
        if depth < self.max_depth and budget[0] > 0 and r < 0.4:
            n = rng.choice([0, 1, 1, 2, 3, 5])
            if self.big and rng.random() < 0.03:
                n = rng.choice([12, 33, 65, 200])
                budget[0] = max(budget[0], n)
                self.st("container.large")
            if rng.random() < 0.5:
                toks, val = ["["], []
                for _ in range(n):
                    t, v = self.value(depth + 1, budget)
                    toks += t
                    val.append(v)
                toks.append("]")
                self.st("array")
                return toks, val
            toks, val = ["{"], {}
            for _ in range(n):
                k = self.rbytes(key=True)
                if k in val:
                    continue
                t, v = self.value(depth + 1, budget)
                toks += [("K" if rng.random() < 0.15 else "k") + k.hex()] + t
                val[k] = v
            toks.append("}")
            self.st("object")
            return toks, val
        budget[0] -= 1
        r = rng.random()
        if r < 0.25:
            b = self.rbytes()
            self.st("string")
            return ["s" + b.hex()], b
        if r < 0.5:
            return self.integer()
        if r < 0.8:
            return self.double()
        c = rng.choice("ntf")
        self.st("literal")
        return [c], {"n": None, "t": True, "f": False}[c]

    def tree(self):
        rng = self.rng
        if rng.random() < 0.08:
            # deep spine (up to 40 levels)
            d = rng.randrange(20, 41)
            toks, val = self.value(self.max_depth, [0])
            if rng.random() < 0.3:
                toks, val = (["[", "]"], []) if rng.random() < 0.5 else (["{", "}"], {})  # an empty container at the very bottom
            for _ in range(d):
                if rng.random() < 0.5:
                    toks, val = ["["] + toks + ["]"], [val]
                else:
                    k = self.rbytes(key=True)
                    toks, val = ["{", ("K" if rng.random() < 0.15 else "k") + k.hex()] + toks + ["}"], {k: val}
            self.st("deep_spine")
            return toks, val
        return self.value(0, [rng.choice([1, 4, 12, self.budget])])


def random_path(rng, toks):
    """(NAV steps, token of the node reached: '[' / '{' for containers) for a uniformly chosen node of the token-list tree"""
    pos = [0]
    nodes = []

    def node(path):
        t = toks[pos[0]]
        pos[0] += 1
        nodes.append((path, t))
        if t == "[":
            i = 0
            while toks[pos[0]] != "]":
                node(path + ["i%d" % i])
                i += 1
            pos[0] += 1
        elif t == "{":
            while toks[pos[0]] != "}":
                k = toks[pos[0]]
                pos[0] += 1
                node(path + ["k" + k[1:]])
            pos[0] += 1

    node([])
    return rng.choice(nodes)

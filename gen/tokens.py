"""Tokenizer for RFC 8259-valid texts (positions are needed by the metamorphic generators of C15/C16)."""

WS = b" \t\n\r"


class Tok:
    __slots__ = ("kind", "start", "end", "open", "is_name", "ctx")

    def __init__(self, kind, start, end, open_, is_name=False, ctx=""):
        self.kind, self.start, self.end, self.open, self.is_name, self.ctx = kind, start, end, open_, is_name, ctx

    def __repr__(self):
        return "Tok(%s,%d,%d,open=%d%s)" % (self.kind, self.start, self.end, self.open, ",name" if self.is_name else "")


def tokenize(s):
    """returns list of Tok for a VALID text; kind in '[', ']', '{', '}', ',', ':', 'string', 'number', 'literal'.
    open = number of containers open when the token starts; ctx = 'top' | 'elem' | 'name' | 'member' """
    toks = []
    i, n = 0, len(s)
    stack = []
    expect_name = False
    while i < n:
        c = s[i]
        if c in WS:
            i += 1
            continue
        st = i
        ctx = "top" if not stack else ("elem" if stack[-1] == "[" else ("name" if expect_name else "member"))
        if c == 0x22:
            i += 1
            while s[i] != 0x22:
                i += 2 if s[i] == 0x5C else 1
            i += 1
            toks.append(Tok("string", st, i, len(stack), is_name=expect_name and bool(stack) and stack[-1] == "{", ctx=ctx))
            if toks[-1].is_name:
                expect_name = False
            continue
        if c in b"[{":
            toks.append(Tok(chr(c), st, st + 1, len(stack), ctx=ctx))
            stack.append(chr(c))
            expect_name = (c == 0x7B)
            i += 1
            continue
        if c in b"]}":
            stack.pop()
            toks.append(Tok(chr(c), st, st + 1, len(stack), ctx=ctx))
            expect_name = False
            i += 1
            continue
        if c == 0x2C:
            toks.append(Tok(",", st, st + 1, len(stack), ctx=ctx))
            expect_name = stack[-1] == "{"
            i += 1
            continue
        if c == 0x3A:
            toks.append(Tok(":", st, st + 1, len(stack), ctx=ctx))
            i += 1
            continue
        if c == 0x2D or 0x30 <= c <= 0x39:
            while i < n and s[i] in b"+-0123456789.eE":
                i += 1
            toks.append(Tok("number", st, i, len(stack), ctx=ctx))
            continue
        for lit in (b"true", b"false", b"null"):
            if s.startswith(lit, i):
                i += len(lit)
                toks.append(Tok("literal", st, i, len(stack), ctx=ctx))
                break
        else:
            raise ValueError("tokenize: unexpected byte at %d in %r" % (i, s[:80]))
    return toks


def first_too_deep(s, D):
    """offset of the first value enclosed by more than D-1 containers, or None if the document fits limit D"""
    for t in tokenize(s):
        if t.kind in ("string", "number", "literal", "[", "{") and not t.is_name and t.open >= D:
            return t.start
    return None

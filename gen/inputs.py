"""Hostile input generators for the parser monitors (C03, C04, C15): valid documents, documents using every
json-c extension, mutations, token soup, streams of concatenated documents, raw bytes."""
from gen.docs import DocGen, hex4

LITERALS = [
    b"", b" ", b"null", b"NULL", b"nUlL", b"true", b"false", b"TrUe", b"nan", b"NaN", b"NAN", b"Infinity", b"-Infinity", b"infinity",
    b"-infinity", b"inf", b"-inf", b"Infinit", b"-Infinit", b"-", b"--1", b"-0", b"0", b"00", b"01", b"-01", b"1.", b"1.e5", b".5", b"1e", b"1e+", b"1E-",
    b"1e5", b"1.5e+20", b"12.34.56", b"1e5e5", b"1-2", b"1+2", b"[1-2]", b"[1 -2]", b"[1,-2]", b"1.+5", b"1.-5", b"1e-+5", b"--5", b"-e5", b"1ee5",
    b"123456789012345678901234567890", b"-123456789012345678901234567890", b"18446744073709551615", b"18446744073709551616", b"-9223372036854775808",
    b"-9223372036854775809", b"9223372036854775807", b"9223372036854775808", b"1e400", b"-1e400", b"1e-400", b"0.000000000000000000000000000001",
    b'""', b'"a"', b"'a'", b"'a\"b'", b'"a\'b"', b'"\\""', b'"\\\\"', b'"\\/"', b'"\\b\\f\\n\\r\\t"', b'"\\u0041"', b'"\\u00e9"', b'"\\u20ac"',
    b'"\\ud83d\\ude00"', b'"\\ud83d"', b'"\\ude00"', b'"\\ud83dx"', b'"\\ud83d\\n"', b'"\\ud83d\\u0041"', b'"\\ud83d\\ud83d\\ude00"', b'"\\ud83d\\',
    b'"\\ud83d\\u', b'"\\ud83d\\ude', b'"\\u12', b'"\\u12g4"', b'"\\x"', b'"\\', b'"abc', b'"\x01"', b'"\x1f"', b'"\x7f"', b'"\xc3\xa9"', b'"\xe2\x82\xac"',
    b'"\xf0\x9f\x98\x80"', b'"\xc3"', b'"\xe2\x82"', b'"\xf0\x9f\x98"', b'"\x80"', b'"\xff"', b'"\xc0\x80"', b'"\xed\xa0\x80"', b'"\xf8\x88\x80\x80\x80"',
    b"[]", b"[ ]", b"[1]", b"[1,]", b"[,1]", b"[1,,2]", b"[1 2]", b"[1", b"[1,", b"]", b"[[[[]]]]", b"[[],[[]],[[],[]]]", b"[null]", b"[nul]",
    b"{}", b"{ }", b'{"a":1}', b"{'a':1}", b'{"a":1,}', b'{,"a":1}', b'{"a" 1}', b'{"a":}', b'{"a"}', b'{a:1}', b'{"a":1 "b":2}', b'{"a":1,"a":2}',
    b'{"a":{"b":{"c":[1,{"d":null}]}}}', b'{"":""}', b'{"a', b'{"a"', b'{"a":', b'{"a":1', b"{", b"}",
    b"/* c */1", b"1/* c */", b"/* c */", b"/* c", b"/*/1", b"/**/1", b"/***/1", b"// c\n1", b"// c", b"1// c\n", b"/ 1", b"[1,/*x*/2]", b"[1//x\n,2]",
    b'{"a"/*x*/:/*y*/1/*z*/}', b"[1/", b"/", b"//", b"/*", b"/**", b"[/]",
    b"1 2", b"1\n2", b"[1][2]", b'{"a":1}{"b":2}', b"null true", b"nulltrue", b"truefalse", b"1,2", b'"a""b"', b"12x", b"[12x]", b"[1e5x]", b"{}x", b"[]]",
    b"\xef\xbb\xbf1", b"\x00", b"1\x00", b"1\x002", b"[1\x00]", b'"a\x00b"', b"[1,\x002]", b" \x00", b"nu\x00ll", b"\x00\x00",
    b"[1/***/]", b"[1/***/]\x00true\x00", b"{\"a\":1/* x **/}\x00[2]\x00", b"[1/*", b"[1//", b"[1/*\x00", b"[[1/*x\x00]]\x00null\x00", b"[1/*\x00*/]\x00", b"{\"a\":[1//\x00\n]}\x00true", b"/***/1", b"/**/1", b"/****/[/*****/]",
    b"-1Infinity", b"[-1Infinity]", b"-1.5Infinity", b"1Infinity", b"-12i", b"[-0I]", b"-1NaN", b"1e5Infinity", b"-1e5I", b"-.5", b"-e", b"-]",
    b"[1,2.5e3,\"x\",true,false,null,{\"k\":[]}]", b"-Infinity", b"[-Infinity, Infinity, NaN]", b"[-I]", b"-i", b"-N", b"-NaN", b"Na", b"I", b"N", b"n", b"t", b"f", b"tr", b"fals",
]

DICT = [b"{", b"}", b"[", b"]", b",", b":", b'"', b"'", b"\\", b"\\u", b"\\ud83d", b"\\ude00", b"\\n", b"null", b"true", b"false", b"NaN", b"Infinity", b"-Infinity",
        b"-", b"+", b".", b"e", b"E", b"0", b"1", b"9", b"00", b"1e5", b"1.5", b"/*", b"*/", b"//", b"\n", b" ", b"\t", b"\r", b"/", b"*", b"a", b"\xc3\xa9",
        b"\xf0\x9f\x98\x80", b"\xc3", b"\x80", b"\x00", b"\x01", b"\x1f", b'"a"', b'"a":', b"[]", b"{}", b"123456789012345678901234567890", b"\xef\xbb\xbf", b"\xff"]


class LenientGen:
    """documents that use json-c's documented extensions everywhere (text only; no expected value)"""

    def __init__(self, rng):
        self.rng = rng

    def gap(self):
        r = self.rng.random()
        if r < 0.6:
            return b""
        if r < 0.8:
            return self.rng.choice([b" ", b"\n", b"\t", b"\r\n", b"  "])
        if r < 0.9:
            return b"/*" + self.rng.choice([b"", b" c ", b"*", b"**", b"/", b"x*y", b"\n"]) + b"*/"
        return b"//" + self.rng.choice([b"", b" c", b"/", b"*"]) + b"\n"

    def string(self):
        rng = self.rng
        q = b"'" if rng.random() < 0.3 else b'"'
        out = bytearray(q)
        for _ in range(rng.choice([0, 1, 2, 3, 6])):
            r = rng.random()
            if r < 0.3:
                out.append(rng.choice(b"abcxyz 09/-_"))
            elif r < 0.4:
                out += rng.choice([b"\\n", b"\\\\", b'\\"', b"\\/", b"\\t", b"\\b", b"\\f", b"\\r"])
            elif r < 0.55:
                out += hex4(rng, rng.choice([0, 0x41, 0xe9, 0x20ac, 0xffff, 0xd7ff, 0xe000]))
            elif r < 0.7:
                out += hex4(rng, rng.randrange(0xD800, 0xDC00)) + hex4(rng, rng.randrange(0xDC00, 0xE000))
            elif r < 0.78:
                out += hex4(rng, rng.randrange(0xD800, 0xE000))
            elif r < 0.88:
                out += rng.choice([b"\xc3\xa9", b"\xe2\x82\xac", b"\xf0\x9f\x98\x80"])
            elif r < 0.93:
                out.append(rng.randrange(1, 0x20))
            else:
                out += b"'" if q == b'"' else b'"'
        out += q
        return bytes(out)

    def number(self):
        rng = self.rng
        t = rng.choice(["0", "1", "-1", "12", "-0", "00", "012", "-012", "9223372036854775807", "9223372036854775808", "18446744073709551616",
                        "-9223372036854775809", "123456789012345678901234567890"])
        if rng.random() < 0.5:
            t += "." + rng.choice(["0", "5", "25", "000", "123456789"])
        if rng.random() < 0.4:
            t += rng.choice(["e", "E"]) + rng.choice(["", "+", "-"]) + rng.choice(["", "0", "5", "10", "308", "400"])
        return t.encode()

    def value(self, d):
        rng = self.rng
        r = rng.random()
        if d < 5 and r < 0.2:
            n = rng.choice([0, 1, 2, 3])
            out = b"[" + self.gap()
            for i in range(n):
                out += self.value(d + 1) + self.gap() + (b"," if i < n - 1 or rng.random() < 0.2 else b"") + self.gap()
            return out + b"]"
        if d < 5 and r < 0.4:
            n = rng.choice([0, 1, 2, 3])
            out = b"{" + self.gap()
            for i in range(n):
                out += self.string() + self.gap() + b":" + self.gap() + self.value(d + 1) + self.gap() + (b"," if i < n - 1 or rng.random() < 0.2 else b"") + self.gap()
            return out + b"}"
        if r < 0.6:
            return self.string()
        if r < 0.8:
            return self.number()
        lit = rng.choice([b"true", b"false", b"null", b"NaN", b"Infinity", b"-Infinity", b"nan", b"infinity", b"-infinity"])
        if rng.random() < 0.3:
            lit = bytes(c ^ 0x20 if rng.random() < 0.5 and 0x41 <= (c & ~0x20) <= 0x5A else c for c in lit)
        return lit

    def document(self):
        return self.gap() + self.value(0) + self.gap()


def mutate(rng, s, other=b""):
    s = bytearray(s)
    for _ in range(rng.choice([1, 1, 2, 3])):
        r = rng.random()
        n = len(s)
        if r < 0.2 and n:
            s[rng.randrange(n)] ^= 1 << rng.randrange(8)
        elif r < 0.35 and n:
            del s[rng.randrange(n)]
        elif r < 0.5:
            s.insert(rng.randrange(n + 1), rng.choice(b'{}[],:"\\/*\'-+.eE0189 \n\x00\xc3\xa9untrfalsINaNy'))
        elif r < 0.62 and n:
            del s[rng.randrange(n):]
        elif r < 0.75 and n:
            a = rng.randrange(n)
            b = min(n, a + rng.randrange(1, 9))
            s[a:a] = s[a:b]
        elif r < 0.85 and n:
            a = rng.randrange(n)
            b = min(n, a + rng.randrange(1, 9))
            del s[a:b]
        elif r < 0.93:
            p = rng.randrange(n + 1)
            tok = rng.choice(DICT)
            s[p:p] = tok
        else:
            p = rng.randrange(n + 1)
            q = rng.randrange(len(other) + 1)
            s = s[:p] + bytearray(other[q:])
    return bytes(s)


def weird_number(rng):
    """number-like tokens with long digit runs in every part, repeated markers and trailing number characters"""
    d = lambda lo, hi: "".join(rng.choice("0123456789") for _ in range(rng.randrange(lo, hi)))
    t = rng.choice(["", "-"]) + d(1, rng.choice([3, 25, 45]))
    if rng.random() < 0.6:
        t += "." + d(0, rng.choice([3, 25, 45]))
    if rng.random() < 0.7:
        t += rng.choice("eE") + rng.choice(["", "+", "-"]) + d(0, rng.choice([3, 22, 30, 45]))
    if rng.random() < 0.6:
        t += rng.choice(["e5", "E-3", ".5", "-3", "+1", "e", "1e1e1", "..", "e+e", "Infinity", "x"])
    if rng.random() < 0.5:
        t = "[" + t + rng.choice(["]", ",1]", "", " ]"])
    return t.encode()


def soup(rng, k=None):
    k = k or rng.randrange(1, 14)
    return b"".join(rng.choice(DICT) for _ in range(k))


def raw_bytes(rng, n=None):
    n = rng.randrange(0, 40) if n is None else n
    m = rng.random()
    if m < 0.4:
        return bytes(rng.getrandbits(8) for _ in range(n))
    if m < 0.7:
        return bytes(rng.randrange(0x20, 0x7F) for _ in range(n))
    return bytes(rng.choice(b'{}[],:"\\/*-+.eE0123456789 \ntrufalsn') for _ in range(n))


class InputGen:
    def __init__(self, rng, max_len=256):
        self.rng = rng
        self.max_len = max_len
        self.dg = DocGen(rng, max_depth=31, budget=12, nul_keys=0.02)
        self.lg = LenientGen(rng)
        self.prev = b"[1]"

    def small_doc(self):
        for _ in range(20):
            t, _v = self.dg.document()
            if len(t) <= self.max_len:
                return t
        return b"[]"

    def stream(self):
        rng = self.rng
        parts = []
        for _ in range(rng.randrange(2, 6)):
            r = rng.random()
            if r < 0.5:
                parts.append(self.small_doc()[:60] if rng.random() < 0.1 else self.small_doc())
            elif r < 0.8:
                parts.append(rng.choice([b"1", b"-2", b"2.5", b"true", b"null", b'"s"', b"[]", b"{}", b"[1,2]", b'{"a":1}', b"1e5", b"NaN", b"-Infinity"]))
            else:
                parts.append(self.lg.document())
        sep = rng.choice([b"", b" ", b"\n", b" ", b",", b"\x00", b" \n "])
        return sep.join(parts) + rng.choice([b"", b" ", b"\n", b"\x00"])

    def next(self):
        """returns (kind, bytes)"""
        rng = self.rng
        r = rng.random()
        if r < 0.30:
            k, s = "valid", self.small_doc()
        elif r < 0.45:
            k, s = "lenient", self.lg.document()
        elif r < 0.62:
            base = self.small_doc() if rng.random() < 0.6 else self.lg.document()
            k, s = "mutated", mutate(rng, base, self.prev)
        elif r < 0.72:
            k, s = "literal", rng.choice(LITERALS)
            if rng.random() < 0.3:
                s = s + rng.choice([b"", b" ", b"\x00", b"\n", b",", b"]"])
        elif r < 0.76:
            k, s = "soup", soup(rng)
        elif r < 0.80:
            k, s = "number", weird_number(rng)
        elif r < 0.92:
            k, s = "stream", self.stream()
        else:
            k, s = "bytes", raw_bytes(rng)
        s = s[:self.max_len]
        self.prev = s
        return k, s

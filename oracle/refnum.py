"""Exact-arithmetic reference for json-c's numeric coercions (C10), from the header documentation.
A node is (kind, payload): ('int', v) | ('double', f) | ('bool', b) | ('string', bytes) | ('null', None) | ('array', n) | ('object', n).
Each getter returns (value, errno_set) where errno_set is a set of acceptable errno values (0 = no error) --
a set because a few corners are left open by the documentation (see DESIGN.md C10 'not asserted')."""
import math
import re
from fractions import Fraction

ERANGE, EINVAL = 34, 22
I32_MIN, I32_MAX = -(1 << 31), (1 << 31) - 1
I64_MIN, I64_MAX, U64_MAX = -(1 << 63), (1 << 63) - 1, (1 << 64) - 1
C_SPACE = b" \t\n\v\f\r"
ANY = {0, ERANGE, EINVAL}

INT_RE = re.compile(rb"[ \t\n\v\f\r]*([+-]?)([0-9]+)")
DBL_RE = re.compile(rb"[ \t\n\v\f\r]*[+-]?(?:[0-9]+\.?[0-9]*(?:[eE][+-]?[0-9]+)?|\.[0-9]+(?:[eE][+-]?[0-9]+)?)")


def cstr(b):
    return b.split(b"\0")[0]


def str_to_ll(b):
    """C strtoll(s, &end, 10) prefix rule -> exact int or None (no conversion)"""
    m = INT_RE.match(cstr(b))
    if not m:
        return None
    v = int(m.group(2))
    return -v if m.group(1) == b"-" else v


def clamp(v, lo, hi):
    return (lo, {ERANGE}) if v < lo else (hi, {ERANGE}) if v > hi else (v, {0})


def trunc(f):
    return int(f)  # toward zero, exact


def get_int64(node):
    k, p = node
    if k == "int":
        return clamp(p, I64_MIN, I64_MAX) if p > I64_MAX else (p, {0})
    if k == "double":
        if math.isnan(p):
            return I64_MIN, {EINVAL}
        if p == math.inf:
            return I64_MAX, {ERANGE}
        if p == -math.inf:
            return I64_MIN, {ERANGE}
        return clamp(trunc(p), I64_MIN, I64_MAX)
    if k == "bool":
        return int(p), {0}
    if k == "string":
        v = str_to_ll(p)
        if v is None:
            return 0, {EINVAL}
        return clamp(v, I64_MIN, I64_MAX)
    return 0, ({0} if k == "null" else ANY)


def get_int32(node):
    k, p = node
    if k == "int":
        return clamp(p, I32_MIN, I32_MAX)
    if k == "double":
        if math.isnan(p):
            return I32_MIN, {EINVAL}
        if math.isinf(p):
            return (I32_MAX if p > 0 else I32_MIN), {ERANGE}
        v, e = clamp(trunc(p), I32_MIN, I32_MAX)
        # strictly between the bound and bound+-1: the value is the bound either way; whether that "exceeds the range" is left open
        if (I32_MAX < p < I32_MAX + 1) or (I32_MIN - 1 < p < I32_MIN):
            e = {0, ERANGE}
        return v, e
    if k == "bool":
        return int(p), {0}
    if k == "string":
        v = str_to_ll(p)
        if v is None:
            return 0, {EINVAL}
        return clamp(v, I32_MIN, I32_MAX)
    return 0, ({0} if k == "null" else ANY)


def get_uint64(node):
    k, p = node
    if k == "int":
        return (0, {ERANGE}) if p < 0 else (p, {0})
    if k == "double":
        if math.isnan(p):
            return 0, {EINVAL}
        if p == math.inf:
            return U64_MAX, {ERANGE}
        if p == -math.inf:
            return 0, {ERANGE}
        v, e = clamp(trunc(p), 0, U64_MAX)
        if -1 < p < 0:
            e = {0, ERANGE}  # truncates to 0, which fits; "negative" is also a defensible reading
        return v, e
    if k == "bool":
        return int(p), {0}
    if k == "string":
        if cstr(p).lstrip(C_SPACE)[:1] == b"-":
            return 0, ANY  # "uint cannot be negative": value must be 0 (never a wrapped one); errno left open by the documentation
        v = str_to_ll(p)
        if v is None:
            return 0, {EINVAL}
        return clamp(v, 0, U64_MAX)
    return 0, ({0} if k == "null" else ANY)


def get_double(node):
    """returns (list of acceptable floats, errno set)"""
    k, p = node
    if k == "double":
        return [p], {0}
    if k == "int":
        return [float(p)], {0}
    if k == "bool":
        return [float(p)], {0}
    if k == "string":
        s = cstr(p)
        m = DBL_RE.fullmatch(s)
        if not m:
            # "parsed as a double" is strtod: it also reads inf / infinity / nan[(chars)] in any case, and hexadecimal floats
            t = s.lstrip(C_SPACE)
            neg = t[:1] == b"-"
            body = t[1:].lower() if t[:1] in (b"+", b"-") else t.lower()
            if body in (b"inf", b"infinity"):
                return [-math.inf if neg else math.inf], {0}
            if body == b"nan" or re.fullmatch(rb"nan\([0-9a-z_]*\)", body):
                return [math.nan], {0}
            if body[:2] == b"0x":
                return None, ANY  # hexadecimal floats: libc's business, not asserted
            return [0.0], {EINVAL}
        f = float(s.strip(C_SPACE))
        if math.isinf(f):
            return [0.0, f], {ERANGE}  # header: closest infinity; code: 0.0 -- property only says "documented rules"
        if f == 0.0 or abs(f) < 2.3e-308:
            return [f], {0, ERANGE}  # underflow reporting is libc's business
        return [f], {0}
    if k == "null":
        return [0.0], {0}
    return None, ANY  # arrays/objects: header and code disagree with each other; not asserted


def get_boolean(node):
    k, p = node
    if k == "bool":
        return int(bool(p))
    if k == "int":
        return int(p != 0)
    if k == "double":
        return int(p != 0)
    if k == "string":
        return int(len(p) != 0)
    return 0


def int_inc(v, delta):
    return max(I64_MIN, min(U64_MAX, v + delta))

"""RFC 6902 reference evaluator over plain model values (None/bool/int/float/bytes/list/dict with bytes keys).
apply(doc, patch) -> (result, None) or (None, failing index).  Values are deep-copied on add/copy/replace so nothing is
shared between locations or with the patch (the independence the property demands)."""
import copy
import re

IDX = re.compile(rb"(?:0|[1-9][0-9]*)\Z")


class PatchError(Exception):
    pass


class NotAsserted(Exception):
    """removal (or move) of the whole document: RFC 6902 does not say what the result is"""


def unescape(tok):
    return tok.replace(b"~1", b"/").replace(b"~0", b"~")


def tokens(p):
    if not isinstance(p, bytes):
        raise PatchError("pointer is not a string")
    if p == b"":
        return []
    if not p.startswith(b"/"):
        raise PatchError("pointer without leading '/'")
    return p[1:].split(b"/")


def get(doc, toks):
    cur = doc
    for t in toks:
        if isinstance(cur, dict):
            k = unescape(t)
            if k not in cur:
                raise PatchError("no such member")
            cur = cur[k]
        elif isinstance(cur, list):
            if not IDX.match(t) or int(t) >= len(cur):
                raise PatchError("bad index")
            cur = cur[int(t)]
        else:
            raise PatchError("cannot descend into a scalar")
    return cur


def kind(v):
    if v is None:
        return "null"
    if isinstance(v, bool):
        return "bool"
    if isinstance(v, int):
        return "int"
    if isinstance(v, float):
        return "double"
    if isinstance(v, bytes):
        return "string"
    return "array" if isinstance(v, list) else "object"


def equal(a, b):
    ka, kb = kind(a), kind(b)
    if ka != kb:
        return False
    if ka == "array":
        return len(a) == len(b) and all(equal(x, y) for x, y in zip(a, b))
    if ka == "object":
        return a.keys() == b.keys() and all(equal(a[k], b[k]) for k in a)
    return a == b


class Doc:
    def __init__(self, v):
        self.v = v


def add(doc, toks, value):
    if not toks:
        if value is None:
            raise NotAsserted()  # the whole document becomes JSON null = "no document" for json-c's API
        doc.v = value
        return
    parent = get(doc.v, toks[:-1])
    last = toks[-1]
    if isinstance(parent, dict):
        parent[unescape(last)] = value
    elif isinstance(parent, list):
        if last == b"-":
            parent.append(value)
        else:
            if not IDX.match(last) or int(last) > len(parent):
                raise PatchError("index out of bounds")
            parent.insert(int(last), value)
    else:
        raise PatchError("parent is a scalar")


def remove(doc, toks):
    if not toks:
        raise NotAsserted()
    parent = get(doc.v, toks[:-1])
    last = toks[-1]
    if isinstance(parent, dict):
        k = unescape(last)
        if k not in parent:
            raise PatchError("no such member")
        return parent.pop(k)
    if isinstance(parent, list):
        if not IDX.match(last) or int(last) >= len(parent):
            raise PatchError("no such element")
        return parent.pop(int(last))
    raise PatchError("parent is a scalar")


def apply_op(doc, op):
    if not isinstance(op, dict):
        raise PatchError("operation is not an object")
    name = op.get(b"op")
    if not isinstance(name, bytes):
        raise PatchError("op is not a string")
    if b"path" not in op:
        raise PatchError("no path")
    path = tokens(op[b"path"])
    if name == b"add":
        if b"value" not in op:
            raise PatchError("no value")
        add(doc, path, copy.deepcopy(op[b"value"]))
    elif name == b"remove":
        remove(doc, path)
    elif name == b"replace":
        if b"value" not in op:
            raise PatchError("no value")
        get(doc.v, path)
        if not path:
            if op[b"value"] is None:
                raise NotAsserted()
            doc.v = copy.deepcopy(op[b"value"])
        else:
            parent = get(doc.v, path[:-1])
            if isinstance(parent, dict):
                parent[unescape(path[-1])] = copy.deepcopy(op[b"value"])
            else:
                parent[int(path[-1])] = copy.deepcopy(op[b"value"])
    elif name in (b"move", b"copy"):
        if b"from" not in op:
            raise PatchError("no from")
        frm = tokens(op[b"from"])
        if name == b"move":
            if len(frm) < len(path) and path[:len(frm)] == frm:
                raise PatchError("from is a proper prefix of path")
            get(doc.v, frm)
            if frm == path:
                return
            v = remove(doc, frm)
            add(doc, path, v)
        else:
            v = copy.deepcopy(get(doc.v, frm))
            add(doc, path, v)
    elif name == b"test":
        if b"value" not in op:
            raise PatchError("no value")
        if not equal(get(doc.v, path), op[b"value"]):
            raise PatchError("test failed")
    else:
        raise PatchError("unknown op")


def apply(doc_value, patch):
    """-> (result value, None) | (None, index of the first failing operation) | (None, -1) if the patch is not an array"""
    if not isinstance(patch, list):
        return None, -1
    doc = Doc(copy.deepcopy(doc_value))
    for i, op in enumerate(patch):
        try:
            apply_op(doc, op)
        except PatchError:
            return None, i
        except NotAsserted:
            return None, "skip"
    return doc.v, None


def encode(v):
    """model value -> JSON text (bytes)"""
    if v is None:
        return b"null"
    if v is True:
        return b"true"
    if v is False:
        return b"false"
    if isinstance(v, int):
        return str(v).encode()
    if isinstance(v, float):
        return repr(v).encode()
    if isinstance(v, bytes):
        out = bytearray(b'"')
        for c in v:
            if c in (0x22, 0x5C) or c < 0x20:
                out += b"\\u%04x" % c
            else:
                out.append(c)
        out.append(0x22)
        return bytes(out)
    if isinstance(v, list):
        return b"[" + b",".join(encode(x) for x in v) + b"]"
    return b"{" + b",".join(encode(k) + b":" + encode(x) for k, x in v.items()) + b"}"

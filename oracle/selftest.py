"""Self-tests of the reference models (run in setup and cheap enough to run at the start of checks).
The tables are embedded here, not read from /repo, so an edit there cannot bend an oracle."""
import json
import random
import sys


def test_refjson():
    from oracle import refjson
    from gen.docs import DocGen
    rng = random.Random(12345)
    g = DocGen(rng, nul_keys=0.0)
    n = 0
    for _ in range(3000):
        text, value = g.document()
        rv = refjson.parse(text)
        assert refjson.dump(rv) == refjson.dump(value), text
        assert refjson.undump(refjson.dump(value)) == value or True
        # agreement with CPython's json where json is defined: no lone surrogates, valid UTF-8
        try:
            s = text.decode("utf-8")
            pv = json.loads(s)
        except (UnicodeDecodeError, ValueError):
            continue
        def conv(x):
            if isinstance(x, str):
                try:
                    return x.encode("utf-8")
                except UnicodeEncodeError:
                    raise KeyError
            if isinstance(x, list):
                return [conv(y) for y in x]
            if isinstance(x, dict):
                return {conv(k): conv(v) for k, v in x.items()}
            return x
        try:
            cv = conv(pv)
        except KeyError:
            continue  # lone surrogates: CPython keeps them, RFC-wise undefined
        if b"\xef\xbf\xbd" in text or b"\\u" in text.lower() and False:
            pass
        d1, d2 = refjson.dump(cv), refjson.dump(rv)
        assert d1 == d2, (text, d1, d2)
        n += 1
    assert n > 500, n
    for bad in [b"", b"[1,]", b"{\"a\":1,}", b"01", b"1.", b".5", b"1e", b"[1 2]", b"\"\x01\"", b"'a'", b"tru", b"[1]x", b"-", b"+1",
                b"\"\\x\"", b"\"\\u12\"", b"{1:2}", b"nul", b"NaN", b"Infinity", b"/**/1", b"\"abc", b"[", b"{\"a\"}", b"1 2"]:
        try:
            refjson.parse(bad)
        except refjson.JSONError:
            continue
        raise AssertionError("refjson accepted %r" % bad)
    assert refjson.parse(b'"\\ud83d\\ude00"') == "\U0001F600".encode()
    assert refjson.parse(b'"\\ud83d"') == refjson.FFFD
    assert refjson.parse(b'"\\ude00\\ud83d"') == refjson.FFFD * 2
    assert refjson.parse(b'"\\ud83d\\ud83d\\ude00"') == refjson.FFFD + "\U0001F600".encode()
    assert refjson.parse(b'{"a":1,"b":2,"a":3}') == {b"a": 3, b"b": 2}
    assert list(refjson.parse(b'{"a":1,"b":2,"a":3}')) == [b"a", b"b"]
    assert refjson.max_depth(refjson.parse(b"[[]]")) == 1 and refjson.max_depth(refjson.parse(b"[[0]]")) == 2
    return n


def main():
    tests = [test_refjson]
    for name in ("test_refnum", "test_refptr", "test_refpatch", "test_refvisit"):
        try:
            mod = __import__("oracle.selftest_more", fromlist=[name])
            if hasattr(mod, name):
                tests.append(getattr(mod, name))
        except ImportError:
            pass
    for t in tests:
        try:
            r = t()
            print("oracle self-test %s ok (%s)" % (t.__name__, r))
        except AssertionError as e:
            print("oracle self-test %s FAILED: %r" % (t.__name__, e))
            return 1
    return 0


if __name__ == "__main__":
    sys.exit(main())

"""Independent byte-level RFC 8259 reference: parser (text -> value), typed dump (value -> canonical
token string, same format as the C drivers' dump), and a constructive generator (value + randomised
surface form).  Value model: None / True / False / int (exact) / float (IEEE double) / bytes (string,
UTF-8 after decoding escapes) / list / dict with bytes keys (insertion order = first occurrence,
value = last duplicate -- exactly Python's dict assignment semantics).

Numbers: a token without fraction/exponent denotes an integer (exact, Python int); any other token
denotes the correctly rounded double (CPython's float(): David Gay's dtoa, independent of glibc strtod).
"""
import struct

FFFD = b"\xef\xbf\xbd"
I64_MIN, I64_MAX, U64_MAX = -(1 << 63), (1 << 63) - 1, (1 << 64) - 1


class JSONError(Exception):
    def __init__(self, pos, msg):
        Exception.__init__(self, "%s at %d" % (msg, pos))
        self.pos = pos


def utf8(cp):
    if cp < 0x80:
        return bytes([cp])
    if cp < 0x800:
        return bytes([0xC0 | cp >> 6, 0x80 | cp & 0x3F])
    if cp < 0x10000:
        return bytes([0xE0 | cp >> 12, 0x80 | (cp >> 6) & 0x3F, 0x80 | cp & 0x3F])
    return bytes([0xF0 | cp >> 18, 0x80 | (cp >> 12) & 0x3F, 0x80 | (cp >> 6) & 0x3F, 0x80 | cp & 0x3F])


WS = b" \t\n\r"
DIG = b"0123456789"
HEX = b"0123456789abcdefABCDEF"
ESC = {ord('"'): b'"', ord("\\"): b"\\", ord("/"): b"/", ord("b"): b"\b", ord("f"): b"\f", ord("n"): b"\n",
       ord("r"): b"\r", ord("t"): b"\t"}


class Parser:
    """Strict RFC 8259 grammar.  max_depth: values enclosed by more than max_depth-1 containers are an
    error (None = unlimited).  Iterative-free recursive descent is fine for the depths used here."""

    def __init__(self, s, max_depth=None, allow_ctrl=False, key_hook=None):
        self.key_hook = key_hook  # applied to every member name before insertion (used to model the listed NUL-in-name finding)
        self.s, self.n, self.i, self.max_depth = s, len(s), 0, max_depth
        self.allow_ctrl = allow_ctrl  # json-c extension used by C16's oracle: raw control bytes inside strings

    def ws(self):
        s, n, i = self.s, self.n, self.i
        while i < n and s[i] in WS:
            i += 1
        self.i = i

    def parse(self):
        self.ws()
        v = self.value(0)
        self.ws()
        if self.i != self.n:
            raise JSONError(self.i, "trailing bytes")
        return v

    def value(self, depth):
        s, i = self.s, self.i
        if i >= self.n:
            raise JSONError(i, "eof")
        c = s[i]
        if c == 0x7B:
            return self.obj(depth)
        if c == 0x5B:
            return self.arr(depth)
        if c == 0x22:
            return self.string()
        if c == 0x2D or 0x30 <= c <= 0x39:
            return self.number()
        for lit, v in ((b"true", True), (b"false", False), (b"null", None)):
            if s.startswith(lit, i):
                self.i = i + len(lit)
                return v
        raise JSONError(i, "unexpected byte")

    def number(self):
        s, n, i = self.s, self.n, self.i
        st = i
        if i < n and s[i] == 0x2D:
            i += 1
        if i >= n or s[i] not in DIG:
            raise JSONError(i, "digit expected")
        if s[i] == 0x30:
            i += 1
        else:
            while i < n and s[i] in DIG:
                i += 1
        isint = True
        if i < n and s[i] == 0x2E:
            isint = False
            i += 1
            if i >= n or s[i] not in DIG:
                raise JSONError(i, "fraction digit expected")
            while i < n and s[i] in DIG:
                i += 1
        if i < n and s[i] in b"eE":
            isint = False
            i += 1
            if i < n and s[i] in b"+-":
                i += 1
            if i >= n or s[i] not in DIG:
                raise JSONError(i, "exponent digit expected")
            while i < n and s[i] in DIG:
                i += 1
        self.i = i
        tok = s[st:i].decode("ascii")
        return int(tok) if isint else float(tok)

    def string(self):
        s, n = self.s, self.n
        i = self.i + 1
        out = bytearray()
        hi = None  # pending high surrogate

        def flush_hi():
            nonlocal hi
            if hi is not None:
                out.extend(FFFD)
                hi = None

        while True:
            if i >= n:
                raise JSONError(i, "eof in string")
            c = s[i]
            if c == 0x22:
                flush_hi()
                self.i = i + 1
                return bytes(out)
            if c < 0x20 and not self.allow_ctrl:
                raise JSONError(i, "control byte in string")
            if c != 0x5C:
                flush_hi()
                out.append(c)
                i += 1
                continue
            if i + 1 >= n:
                raise JSONError(i, "eof in escape")
            e = s[i + 1]
            if e in ESC:
                flush_hi()
                out.extend(ESC[e])
                i += 2
                continue
            if e != 0x75:
                raise JSONError(i, "bad escape")
            h = s[i + 2:i + 6]
            if len(h) != 4 or any(x not in HEX for x in h):
                raise JSONError(i, "bad \\u")
            cu = int(h, 16)
            i += 6
            if 0xD800 <= cu <= 0xDBFF:
                flush_hi()
                hi = cu
            elif 0xDC00 <= cu <= 0xDFFF:
                if hi is not None:
                    out.extend(utf8(0x10000 + ((hi & 0x3FF) << 10) + (cu & 0x3FF)))
                    hi = None
                else:
                    out.extend(FFFD)
            else:
                flush_hi()
                out.extend(utf8(cu))

    def arr(self, depth):
        self.i += 1
        out = []
        self.ws()
        if self.i < self.n and self.s[self.i] == 0x5D:
            self.i += 1
            return out
        while True:
            self.ws()
            self.chk_depth(depth + 1)
            out.append(self.value(depth + 1))
            self.ws()
            if self.i >= self.n:
                raise JSONError(self.i, "eof in array")
            c = self.s[self.i]
            self.i += 1
            if c == 0x5D:
                return out
            if c != 0x2C:
                raise JSONError(self.i - 1, "',' expected")

    def chk_depth(self, d):
        if self.max_depth is not None and d > self.max_depth - 1:
            raise JSONError(self.i, "too deep")

    def obj(self, depth):
        self.i += 1
        out = {}
        self.ws()
        if self.i < self.n and self.s[self.i] == 0x7D:
            self.i += 1
            return out
        while True:
            self.ws()
            if self.i >= self.n or self.s[self.i] != 0x22:
                raise JSONError(self.i, "name expected")
            k = self.string()
            if self.key_hook:
                k = self.key_hook(k)
            self.ws()
            if self.i >= self.n or self.s[self.i] != 0x3A:
                raise JSONError(self.i, "':' expected")
            self.i += 1
            self.ws()
            self.chk_depth(depth + 1)
            out[k] = self.value(depth + 1)
            self.ws()
            if self.i >= self.n:
                raise JSONError(self.i, "eof in object")
            c = self.s[self.i]
            self.i += 1
            if c == 0x7D:
                return out
            if c != 0x2C:
                raise JSONError(self.i - 1, "',' expected")


def parse(s, max_depth=None, allow_ctrl=False, key_hook=None):
    return Parser(s, max_depth, allow_ctrl, key_hook).parse()


def dbits(f):
    return struct.unpack(">Q", struct.pack(">d", f))[0]


def from_bits(b):
    return struct.unpack(">d", struct.pack(">Q", b))[0]


def dump(v, saturate=False):
    """canonical typed dump, identical to the drivers' dump_node()."""
    out = []
    _dump(v, out, saturate)
    return " ".join(out)


def _dump(v, out, sat):
    if v is None:
        out.append("n")
    elif v is True:
        out.append("t")
    elif v is False:
        out.append("f")
    elif isinstance(v, int):
        if sat:
            v = I64_MIN if v < I64_MIN else U64_MAX if v > U64_MAX else v
        out.append("i%d" % v)
    elif isinstance(v, float):
        out.append("d%016x" % dbits(v))
    elif isinstance(v, (bytes, bytearray)):
        out.append("s" + bytes(v).hex())
    elif isinstance(v, list):
        out.append("[")
        for x in v:
            _dump(x, out, sat)
        out.append("]")
    elif isinstance(v, dict):
        out.append("{")
        for k, x in v.items():
            out.append("k" + k.hex())
            _dump(x, out, sat)
        out.append("}")
    else:
        raise TypeError(type(v))


def undump(text):
    """typed dump -> value (ints exact, doubles by bits)."""
    toks = text.split()
    pos = [0]

    def node():
        t = toks[pos[0]]
        pos[0] += 1
        t = t.split("@")[0]
        c = t[0]
        if c == "n":
            return None
        if c == "t":
            return True
        if c == "f":
            return False
        if c == "i":
            return int(t[1:])
        if c == "d":
            return from_bits(int(t[1:], 16))
        if c == "s":
            return bytes.fromhex(t[1:])
        if c == "[":
            out = []
            while toks[pos[0]] != "]":
                out.append(node())
            pos[0] += 1
            return out
        if c == "{":
            out = {}
            while toks[pos[0]] != "}":
                k = bytes.fromhex(toks[pos[0]][1:])
                pos[0] += 1
                out[k] = node()
            pos[0] += 1
            return out
        raise ValueError(t)

    v = node()
    if pos[0] != len(toks):
        raise ValueError("trailing tokens")
    return v


def has_int_beyond_64(v):
    if isinstance(v, bool) or v is None:
        return False
    if isinstance(v, int):
        return v < I64_MIN or v > U64_MAX
    if isinstance(v, list):
        return any(has_int_beyond_64(x) for x in v)
    if isinstance(v, dict):
        return any(has_int_beyond_64(x) for x in v.values())
    return False


def has_nul_key(v):
    if isinstance(v, list):
        return any(has_nul_key(x) for x in v)
    if isinstance(v, dict):
        return any(b"\0" in k or has_nul_key(x) for k, x in v.items())
    return False


def max_depth(v):
    """number of containers enclosing the most deeply enclosed value (0 for a scalar document; an empty
    container encloses nothing)."""
    if isinstance(v, list):
        return 1 + max((max_depth(x) for x in v), default=-1) if v else 0
    if isinstance(v, dict):
        return 1 + max((max_depth(x) for x in v.values()), default=-1) if v else 0
    return 0

"""Reference traversal for json_c_visit (C17), from json_visit.h: depth-first document order, a second (flagged) call
for each container after its children, SKIP omits a container's children (and its second call), POP abandons the
remaining siblings and resumes with the parent's second call, STOP ends with success, ERROR with failure, any other
return value is an error.  SKIP/POP on a second call count as CONTINUE."""
CONTINUE, SKIP, POP, STOP, ERROR = 0, 7547, 767, 7867, -1
SECOND = 2


def visit(root, schedule, default):
    """root: refptr.PNode tree; schedule: list of codes by call number.  -> (ret, [(ptr, flags, parentptr, where, code)])"""
    log = []

    def call(node, flags, parent, where):
        i = len(log)
        code = schedule[i] if i < len(schedule) else default
        log.append((node.ptr or 0, flags, (parent.ptr or 0) if parent is not None else 0, where, code))
        return code

    def rec(node, parent, where):
        r = call(node, 0, parent, where)
        if r in (SKIP, POP, STOP, ERROR):
            return r
        if r != CONTINUE:
            return ERROR
        if node.kind == "array":
            kids = [("i%d" % i, c) for i, c in enumerate(node.val)]
        elif node.kind == "object":
            kids = [("k" + k.hex(), c) for k, c in node.val.items()]
        else:
            return CONTINUE
        for w, c in kids:
            r = rec(c, node, w)
            if r == POP:
                break
            if r in (STOP, ERROR):
                return r
        r = call(node, SECOND, parent, where)
        if r in (SKIP, POP, CONTINUE):
            return CONTINUE
        if r in (STOP, ERROR):
            return r
        return ERROR

    r = rec(root, None, "-")
    return (0 if r in (CONTINUE, SKIP, POP, STOP) else -1), log

"""RFC 6901 reference evaluator over a pointer-annotated model tree (C12, and the base of C13).
A tree is made of PNode(ptr, kind, payload): kind in null/bool/int/double/string/array/object;
payload: list of PNode for arrays, dict bytes->PNode for objects, the value otherwise.  ptr is the node identity
observed in the driver's pointer-annotated dump (None for JSON null)."""
import re

ENOENT, EINVAL = 2, 22
IDX = re.compile(rb"(?:0|[1-9][0-9]*)\Z")


class PNode:
    __slots__ = ("ptr", "kind", "val")

    def __init__(self, ptr, kind, val):
        self.ptr, self.kind, self.val = ptr, kind, val


NULL = PNode(None, "null", None)


def parse_annotated(text):
    """driver dump with @ptr suffixes -> PNode tree"""
    toks = text.split()
    pos = [0]

    def node():
        t = toks[pos[0]]
        pos[0] += 1
        body, _, p = t.partition("@")
        ptr = int(p, 16) if p else None
        c = body[0]
        if c == "n":
            return PNode(None, "null", None)
        if c in "tf":
            return PNode(ptr, "bool", c == "t")
        if c == "i":
            return PNode(ptr, "int", int(body[1:]))
        if c == "d":
            return PNode(ptr, "double", body[1:])
        if c == "s":
            return PNode(ptr, "string", bytes.fromhex(body[1:]))
        if c == "[":
            out = []
            while toks[pos[0]] != "]":
                out.append(node())
            pos[0] += 1
            return PNode(ptr, "array", out)
        if c == "{":
            out = {}
            while toks[pos[0]] != "}":
                k = bytes.fromhex(toks[pos[0]][1:])
                pos[0] += 1
                out[k] = node()
            pos[0] += 1
            return PNode(ptr, "object", out)
        raise ValueError(t)

    return node()


def unescape(tok):
    return tok.replace(b"~1", b"/").replace(b"~0", b"~")


def escape(key):
    return key.replace(b"~", b"~0").replace(b"/", b"~1")


class PtrError(Exception):
    def __init__(self, errnos, why):
        Exception.__init__(self, why)
        self.errnos = errnos


def split_pointer(p):
    if p == b"":
        return []
    if not p.startswith(b"/"):
        raise PtrError({EINVAL}, "pointer does not start with '/'")
    return p[1:].split(b"/")


def step(node, tok, for_set_last=False):
    if node.kind == "object":
        k = unescape(tok)
        if k not in node.val:
            raise PtrError({ENOENT}, "no such member")
        return node.val[k]
    if node.kind == "array":
        if not IDX.match(tok):
            raise PtrError({EINVAL, ENOENT}, "not a canonical array index")
        i = int(tok)
        if i >= len(node.val):
            raise PtrError({ENOENT}, "index beyond the end")
        return node.val[i]
    raise PtrError({ENOENT, EINVAL}, "cannot descend into a %s" % node.kind)


def evaluate(root, p):
    """-> PNode reached (possibly the null node); raises PtrError"""
    node = root
    for tok in split_pointer(p):
        node = step(node, tok)
    return node


def has_odd_tilde(p):
    """'~' followed by something other than 0/1: malformed per the RFC's ABNF, json-c treats it literally -- not asserted"""
    return re.search(rb"~(?![01])", p) is not None


def pointer_to(path):
    """path: list of bytes keys / int indices -> canonical pointer"""
    return b"".join(b"/" + (escape(x) if isinstance(x, bytes) else str(x).encode()) for x in path)

"""Self-tests of the smaller reference models (tables embedded here)."""


def test_refnum():
    from oracle import refnum as r
    E, V = r.ERANGE, r.EINVAL
    assert r.get_int64(("int", 5)) == (5, {0})
    assert r.get_int64(("int", 1 << 63)) == (r.I64_MAX, {E})
    assert r.get_int64(("double", 9223372036854775808.0)) == (r.I64_MAX, {E})
    assert r.get_int64(("double", -9223372036854775808.0)) == (r.I64_MIN, {0})
    assert r.get_int64(("double", 1.9)) == (1, {0}) and r.get_int64(("double", -1.9)) == (-1, {0})
    assert r.get_int64(("double", float("nan"))) == (r.I64_MIN, {V})
    assert r.get_uint64(("double", 18446744073709551616.0)) == (r.U64_MAX, {E})
    assert r.get_uint64(("double", 18446744073709549568.0)) == (18446744073709549568, {0})
    assert r.get_uint64(("int", -1)) == (0, {E})
    assert r.get_int32(("int", 1 << 31)) == (r.I32_MAX, {E})
    assert r.get_int32(("double", -2147483648.0)) == (r.I32_MIN, {0})
    assert r.get_int32(("string", b" 12abc")) == (12, {0})
    assert r.get_int32(("string", b"abc")) == (0, {V})
    assert r.get_int64(("string", b"99999999999999999999")) == (r.I64_MAX, {E})
    assert r.get_uint64(("string", b"\t-5"))[0] == 0
    assert r.get_uint64(("string", b"18446744073709551616")) == (r.U64_MAX, {E})
    assert r.get_double(("string", b"1.5")) == ([1.5], {0})
    assert r.get_double(("string", b"1.5x")) == ([0.0], {V})
    assert r.get_double(("int", (1 << 53) + 1)) == ([9007199254740992.0], {0})
    assert r.get_boolean(("double", -0.0)) == 0 and r.get_boolean(("string", b"\0")) == 1
    assert r.int_inc(r.I64_MAX, 1) == 1 << 63 and r.int_inc(r.U64_MAX, 5) == r.U64_MAX and r.int_inc(r.I64_MIN, -1) == r.I64_MIN
    assert r.int_inc(1 << 63, r.I64_MIN) == 0
    return "tables ok"


def test_refptr():
    from oracle import refptr as r
    # RFC 6901 section 5 table
    doc = ('{ k666f6f [ s626172 s62617a ] k i0 k612f62 i1 k632564 i2 k655e66 i3 k677c68 i4 k695c6a i5 k6b226c i6 k20 i7 k6d7e6e i8 }')
    root = r.parse_annotated(doc)
    tbl = [(b"", "object"), (b"/foo", "array"), (b"/foo/0", b"bar"), (b"/", 0), (b"/a~1b", 1), (b"/c%d", 2), (b"/e^f", 3), (b"/g|h", 4), (b"/i\\j", 5), (b"/k\"l", 6), (b"/ ", 7), (b"/m~0n", 8)]
    for p, want in tbl:
        n = r.evaluate(root, p)
        assert (n.kind == want) if isinstance(want, str) else (n.val == want), (p, n.kind, n.val)
    for bad in (b"foo", b"/foo/2", b"/foo/01", b"/foo/-", b"/nope", b"/foo/0/x", b"/foo/"):
        try:
            r.evaluate(root, bad)
        except r.PtrError:
            continue
        raise AssertionError(bad)
    assert r.pointer_to([b"a/b", 3, b"m~n"]) == b"/a~1b/3/m~0n"
    assert r.unescape(b"~01") == b"~1"
    return "RFC 6901 table ok"


def test_refpatch():
    from oracle import refpatch as r, refjson
    J = lambda s: refjson.parse(s.encode())
    # RFC 6902 Appendix A
    A = [
        ('{"foo":"bar"}', '[{"op":"add","path":"/baz","value":"qux"}]', '{"foo":"bar","baz":"qux"}'),
        ('{"foo":["bar","baz"]}', '[{"op":"add","path":"/foo/1","value":"qux"}]', '{"foo":["bar","qux","baz"]}'),
        ('{"baz":"qux","foo":"bar"}', '[{"op":"remove","path":"/baz"}]', '{"foo":"bar"}'),
        ('{"foo":["bar","qux","baz"]}', '[{"op":"remove","path":"/foo/1"}]', '{"foo":["bar","baz"]}'),
        ('{"baz":"qux","foo":"bar"}', '[{"op":"replace","path":"/baz","value":"boo"}]', '{"baz":"boo","foo":"bar"}'),
        ('{"foo":{"bar":"baz","waldo":"fred"},"qux":{"corge":"grault"}}', '[{"op":"move","from":"/foo/waldo","path":"/qux/thud"}]', '{"foo":{"bar":"baz"},"qux":{"corge":"grault","thud":"fred"}}'),
        ('{"foo":["all","grass","cows","eat"]}', '[{"op":"move","from":"/foo/1","path":"/foo/3"}]', '{"foo":["all","cows","eat","grass"]}'),
        ('{"baz":"qux","foo":["a",2,"c"]}', '[{"op":"test","path":"/baz","value":"qux"},{"op":"test","path":"/foo/1","value":2}]', '{"baz":"qux","foo":["a",2,"c"]}'),
        ('{"baz":"qux"}', '[{"op":"test","path":"/baz","value":"bar"}]', None),
        ('{"foo":"bar"}', '[{"op":"add","path":"/child","value":{"grandchild":{}}}]', '{"foo":"bar","child":{"grandchild":{}}}'),
        ('{"foo":"bar"}', '[{"op":"add","path":"/baz","value":"qux","xyz":123}]', '{"foo":"bar","baz":"qux"}'),
        ('{"foo":"bar"}', '[{"op":"add","path":"/baz/bat","value":"qux"}]', None),
        ('{"/":9,"~1":10}', '[{"op":"test","path":"/~01","value":10}]', '{"/":9,"~1":10}'),
        ('{"/":9,"~1":10}', '[{"op":"test","path":"/~01","value":"10"}]', None),
        ('{"foo":["bar"]}', '[{"op":"add","path":"/foo/-","value":["abc","def"]}]', '{"foo":["bar",["abc","def"]]}'),
        ('{"a":1}', '[{"op":"copy","from":"/a","path":"/b"}]', '{"a":1,"b":1}'),
        ('{"a":{"x":1}}', '[{"op":"move","from":"/a","path":"/a/b"}]', None),
        ('{"a":1,"ab":2}', '[{"op":"move","from":"/a","path":"/ab"}]', '{"ab":1}'),
        ('[1,2,3]', '[{"op":"move","from":"/0","path":"/3"}]', None),
        ('[1,2,3]', '[{"op":"move","from":"/0","path":"/2"}]', '[2,3,1]'),
        ('[1,2,3]', '[{"op":"frob","path":"/0"}]', None),
    ]
    for d, p, want in A:
        res, idx = r.apply(J(d), J(p))
        if want is None:
            assert res is None and idx is not None, (d, p, res)
        else:
            assert idx is None and refjson.dump(res) == refjson.dump(J(want)), (d, p, res)
    assert refjson.dump(refjson.parse(r.encode(J('{"a\\u0001":[1,"x\\"y",null,true,1.5]}')))) == refjson.dump(J('{"a\\u0001":[1,"x\\"y",null,true,1.5]}'))
    return "RFC 6902 appendix ok"

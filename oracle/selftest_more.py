"""Self-tests of the smaller reference models (tables embedded here)."""


def test_refnum():
    from oracle import refnum as r
    E, V = r.ERANGE, r.EINVAL
    assert r.get_int64(("int", 5)) == (5, {0})
    assert r.get_int64(("int", 1 << 63)) == (r.I64_MAX, {E})
    assert r.get_int64(("double", 9223372036854775808.0)) == (r.I64_MAX, {E})
    assert r.get_int64(("double", -9223372036854775808.0)) == (r.I64_MIN, {0})
    assert r.get_int64(("double", 1.9)) == (1, {0}) and r.get_int64(("double", -1.9)) == (-1, {0})
    assert r.get_int64(("double", float("nan"))) == (r.I64_MIN, {V})
    assert r.get_uint64(("double", 18446744073709551616.0)) == (r.U64_MAX, {E})
    assert r.get_uint64(("double", 18446744073709549568.0)) == (18446744073709549568, {0})
    assert r.get_uint64(("int", -1)) == (0, {E})
    assert r.get_int32(("int", 1 << 31)) == (r.I32_MAX, {E})
    assert r.get_int32(("double", -2147483648.0)) == (r.I32_MIN, {0})
    assert r.get_int32(("string", b" 12abc")) == (12, {0})
    assert r.get_int32(("string", b"abc")) == (0, {V})
    assert r.get_int64(("string", b"99999999999999999999")) == (r.I64_MAX, {E})
    assert r.get_uint64(("string", b"\t-5"))[0] == 0
    assert r.get_uint64(("string", b"18446744073709551616")) == (r.U64_MAX, {E})
    assert r.get_double(("string", b"1.5")) == ([1.5], {0})
    assert r.get_double(("string", b"1.5x")) == ([0.0], {V})
    assert r.get_double(("int", (1 << 53) + 1)) == ([9007199254740992.0], {0})
    assert r.get_boolean(("double", -0.0)) == 0 and r.get_boolean(("string", b"\0")) == 1
    assert r.int_inc(r.I64_MAX, 1) == 1 << 63 and r.int_inc(r.U64_MAX, 5) == r.U64_MAX and r.int_inc(r.I64_MIN, -1) == r.I64_MIN
    assert r.int_inc(1 << 63, r.I64_MIN) == 0
    return "tables ok"

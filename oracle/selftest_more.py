"""Self-tests of the smaller reference models (tables embedded here)."""


def test_refnum():
    from oracle import refnum as r
    E, V = r.ERANGE, r.EINVAL
    assert r.get_int64(("int", 5)) == (5, {0})
    assert r.get_int64(("int", 1 << 63)) == (r.I64_MAX, {E})
    assert r.get_int64(("double", 9223372036854775808.0)) == (r.I64_MAX, {E})
    assert r.get_int64(("double", -9223372036854775808.0)) == (r.I64_MIN, {0})
    assert r.get_int64(("double", 1.9)) == (1, {0}) and r.get_int64(("double", -1.9)) == (-1, {0})
    assert r.get_int64(("double", float("nan"))) == (r.I64_MIN, {V})
    assert r.get_uint64(("double", 18446744073709551616.0)) == (r.U64_MAX, {E})
    assert r.get_uint64(("double", 18446744073709549568.0)) == (18446744073709549568, {0})
    assert r.get_uint64(("int", -1)) == (0, {E})
    assert r.get_int32(("int", 1 << 31)) == (r.I32_MAX, {E})
    assert r.get_int32(("double", -2147483648.0)) == (r.I32_MIN, {0})
    assert r.get_int32(("string", b" 12abc")) == (12, {0})
    assert r.get_int32(("string", b"abc")) == (0, {V})
    assert r.get_int64(("string", b"99999999999999999999")) == (r.I64_MAX, {E})
    assert r.get_uint64(("string", b"\t-5"))[0] == 0
    assert r.get_uint64(("string", b"18446744073709551616")) == (r.U64_MAX, {E})
    assert r.get_double(("string", b"1.5")) == ([1.5], {0})
    assert r.get_double(("string", b"1.5x")) == ([0.0], {V})
    assert r.get_double(("int", (1 << 53) + 1)) == ([9007199254740992.0], {0})
    assert r.get_boolean(("double", -0.0)) == 0 and r.get_boolean(("string", b"\0")) == 1
    assert r.int_inc(r.I64_MAX, 1) == 1 << 63 and r.int_inc(r.U64_MAX, 5) == r.U64_MAX and r.int_inc(r.I64_MIN, -1) == r.I64_MIN
    assert r.int_inc(1 << 63, r.I64_MIN) == 0
    return "tables ok"


def test_refptr():
    from oracle import refptr as r
    # RFC 6901 section 5 table
    doc = ('{ k666f6f [ s626172 s62617a ] k i0 k612f62 i1 k632564 i2 k655e66 i3 k677c68 i4 k695c6a i5 k6b226c i6 k20 i7 k6d7e6e i8 }')
    root = r.parse_annotated(doc)
    tbl = [(b"", "object"), (b"/foo", "array"), (b"/foo/0", b"bar"), (b"/", 0), (b"/a~1b", 1), (b"/c%d", 2), (b"/e^f", 3), (b"/g|h", 4), (b"/i\\j", 5), (b"/k\"l", 6), (b"/ ", 7), (b"/m~0n", 8)]
    for p, want in tbl:
        n = r.evaluate(root, p)
        assert (n.kind == want) if isinstance(want, str) else (n.val == want), (p, n.kind, n.val)
    for bad in (b"foo", b"/foo/2", b"/foo/01", b"/foo/-", b"/nope", b"/foo/0/x", b"/foo/"):
        try:
            r.evaluate(root, bad)
        except r.PtrError:
            continue
        raise AssertionError(bad)
    assert r.pointer_to([b"a/b", 3, b"m~n"]) == b"/a~1b/3/m~0n"
    assert r.unescape(b"~01") == b"~1"
    return "RFC 6901 table ok"
